"""C19 — lazy lists are faithful and truly lazy (DESIGN.md section 6, C19).

Three parties per generated program: the real `menpo.base.LazyList` driven with
instrumented callables, an ordinary-list reference with provenance (the property
oracle, independent of the Lean model), and the Lean model (`Core/LazyList.lean`).
"""
import json
import random

import numpy as np

from . import common

PROP = "C19"
INFO = dict(

    technique="Lean 4 proof (refinement of every lazy-list program to ordinary lists, by induction over programs) "
              "+ model/implementation correspondence on random programs",
    level_text="Theorems over an executable model of LazyList: for every program built from map (both forms), "
               "int/negative/slice/fancy indexing, repeat, +, copy, to any depth, the lazy result evaluates to the "
               "ordinary-list result (errors included), construction consults no callable, and a read evaluates "
               "exactly the element's dependency chain.  The model is tied to /repo by running the real LazyList "
               "with instrumented callables on random programs and diffing values, lengths, error kinds and "
               "per-read evaluation logs against the Lean driver; an independent ordinary-list oracle decides "
               "the property on the real code.",
    level_note="Trusted: Lean kernel; axioms propext/Classical.choice/Quot.sound; the Python harness and the "
               "driver's parser; CPython list/slice semantics are modelled (Core/PyData.lean) and exercised by the "
               "correspondence, not verified.  Receivers-unchanged is a value-model fact plus a check on real objects.",
    rule="random programs (depth<=8, base lists of length 0..7, all constructors, all index container kinds); a case "
         "is one program; distinct = distinct token sequence; non-trivial = depth >= 2",
    partial=["receivers-unchanged: proved at heap level for the model (hrun_frame: no operation sequence writes an "
             "existing list object) and tied to the code by heap histories with aliased operands and by the measured "
             "table of receiver attributes each operation writes (must be empty); that CPython list methods used by "
             "the code do not mutate their operands is modelled, not verified"],
    assumptions=["callables are deterministic functions of their argument (instrumented test callables)"],
    design_ref="DESIGN.md section 6, C19")
IMPORTS = ["MenpoModel.Props.C19"]
THEOREMS = [
    "MenpoModel.LazyList.lazy_refines_list",
    "MenpoModel.LazyList.lazy_length_eq",
    "MenpoModel.LazyList.getInt_value",
    "MenpoModel.LazyList.construction_evaluates_nothing",
    "MenpoModel.LazyList.evalLog_chain",
    "MenpoModel.LazyList.read_log_length",
    "MenpoModel.LazyList.map_read_log",
    "MenpoModel.LazyList.select_elements",
    "MenpoModel.LazyList.repeat_elements",
    "MenpoModel.LazyList.sliceIndices_in_range",
    "MenpoModel.LazyList.hstep_frame",
    "MenpoModel.LazyList.hrun_frame",
    "MenpoModel.LazyList.hstep_result",
    "MenpoModel.LazyList.read_after_ops_unchanged",
]


def base_val(b, i):
    return 1000 * (b + 1) + i


def fn_val(f, v):
    return (f + 2) * v + (f + 1)


class World:
    """instrumented callables writing into one log"""

    def __init__(self):
        self.log = []

    def base(self, b):
        def g(i):
            self.log.append("a:%d:%d" % (b, i))
            return base_val(b, i)
        return g

    def fn(self, f):
        def h(x):
            self.log.append("c:%d:%d" % (f, x))
            return fn_val(f, x)
        return h

    def take(self):
        l, self.log = self.log, []
        return l


# ---------------------------------------------------------------- programs as nested tuples
# ('B', b, n) ('M', f, p) ('E', fs, p) ('SI', ints, kind, p) ('SS', a, b, c, p) ('R', n, p)
# ('A', p, q) ('AP', vs, kind, p) ('C', p)

def toks(p):
    t = p[0]
    if t == "B":
        return ["B", str(p[1]), str(p[2])]
    if t == "M":
        return ["M", str(p[1])] + toks(p[2])
    if t == "E":
        return ["E", str(len(p[1]))] + [str(x) for x in p[1]] + toks(p[2])
    if t == "SI":
        return ["SI", str(len(p[1]))] + [str(x) for x in p[1]] + toks(p[3])
    if t == "SS":
        return ["SS"] + ["N" if x is None else str(x) for x in p[1:4]] + toks(p[4])
    if t == "R":
        return ["R", str(p[1])] + toks(p[2])
    if t == "A":
        return ["A"] + toks(p[1]) + toks(p[2])
    if t == "AP":
        return ["AP", str(len(p[1]))] + [str(x) for x in p[1]] + toks(p[3])
    if t == "C":
        return ["C"] + toks(p[1])
    raise ValueError(t)


def depth(p):
    subs = [x for x in p[1:] if isinstance(x, tuple) and x and isinstance(x[0], str) and x[0] in
            ("B", "M", "E", "SI", "SS", "R", "A", "AP", "C")]
    return 1 + max([depth(s) for s in subs], default=0)


class RefErr(Exception):
    def __init__(self, kind):
        self.kind = kind


def ref_eval(p):
    """ordinary-list semantics with provenance: list of (value, expected read log)"""
    t = p[0]
    if t == "B":
        return [(base_val(p[1], i), ["a:%d:%d" % (p[1], i)]) for i in range(p[2])]
    if t == "M":
        return [(fn_val(p[1], v), lg + ["c:%d:%d" % (p[1], v)]) for v, lg in ref_eval(p[2])]
    if t == "E":
        l = ref_eval(p[2])
        if len(p[1]) != len(l):
            raise RefErr("value")
        return [(fn_val(f, v), lg + ["c:%d:%d" % (f, v)]) for f, (v, lg) in zip(p[1], l)]
    if t == "SI":
        l = ref_eval(p[3])
        try:
            return [l[i] for i in p[1]]
        except IndexError:
            raise RefErr("index")
    if t == "SS":
        l = ref_eval(p[4])
        try:
            return l[slice(p[1], p[2], p[3])]
        except ValueError:
            raise RefErr("value")
    if t == "R":
        return [x for x in ref_eval(p[2]) for _ in range(p[1])]
    if t == "A":
        a = ref_eval(p[1])
        return a + ref_eval(p[2])
    if t == "AP":
        return ref_eval(p[3]) + [(v, []) for v in p[1]]
    if t == "C":
        return ref_eval(p[1])
    raise ValueError(t)


def impl_build(p, w, nodes):
    """build the real LazyList; `nodes` collects (subprogram, object) for the receivers clause"""
    from menpo.base import LazyList
    t = p[0]
    if t == "B":
        r = LazyList.init_from_index_callable(w.base(p[1]), p[2])
    elif t == "M":
        r = impl_build(p[2], w, nodes).map(w.fn(p[1]))
    elif t == "E":
        r = impl_build(p[2], w, nodes).map([w.fn(f) for f in p[1]])
    elif t == "SI":
        ints, kind = p[1], p[2]
        if kind == "list":
            idx = list(ints)
        elif kind == "tuple":
            idx = tuple(ints)
        elif kind == "ndarray":
            idx = np.array(ints, dtype=np.int64)
        elif kind == "gen":
            idx = (i for i in ints)
        else:
            idx = [np.int32(i) for i in ints]
        r = impl_build(p[3], w, nodes)[idx]
    elif t == "SS":
        r = impl_build(p[4], w, nodes)[slice(p[1], p[2], p[3])]
    elif t == "R":
        r = impl_build(p[2], w, nodes).repeat(p[1])
    elif t == "A":
        a = impl_build(p[1], w, nodes)
        r = a + impl_build(p[2], w, nodes)
    elif t == "AP":
        vs = list(p[1]) if p[2] == "list" else tuple(p[1])
        r = impl_build(p[3], w, nodes) + vs
    elif t == "C":
        r = impl_build(p[1], w, nodes).copy()
    else:
        raise ValueError(t)
    nodes.append((p, r))
    return r


def gen_prog(rng, max_depth, nb):
    """bottom-up, mostly valid; stops growing at the first erroring node"""
    def leaf():
        return ("B", rng.randrange(nb), rng.choice([0, 1, 2, 3, 3, 4, 5, 6, 7]))

    def grow(d):
        if d <= 1 or rng.random() < 0.12:
            return leaf()
        sub = grow(d - 1)
        try:
            n = len(ref_eval(sub))
        except RefErr:
            return sub
        k = rng.random()
        if k < 0.16:
            return ("M", rng.randrange(4), sub)
        if k < 0.28:
            m = n if rng.random() < 0.9 else max(0, n + rng.choice([-1, 1, 2]))
            return ("E", tuple(rng.randrange(4) for _ in range(m)), sub)
        if k < 0.44:
            m = rng.choice([0, 1, 2, 3, 5])
            lo, hi = (-n, n - 1) if n else (0, 0)
            ints = []
            for _ in range(m):
                if n == 0 or rng.random() < 0.04:
                    ints.append(rng.choice([n, -n - 1, n + 2]))
                else:
                    ints.append(rng.randint(lo, hi))
            return ("SI", tuple(ints), rng.choice(["list", "tuple", "ndarray", "gen", "npint"]), sub)
        if k < 0.66:
            def bound():
                return None if rng.random() < 0.3 else rng.randint(-n - 2, n + 2)
            step = rng.choice([None, 1, 1, 2, 3, -1, -1, -2, -3]) if rng.random() > 0.03 else 0
            return ("SS", bound(), bound(), step, sub)
        if k < 0.76:
            return ("R", rng.choice([0, 1, 2, 2, 3]), sub)
        if k < 0.88:
            return ("A", sub, grow(rng.randint(1, max(1, d - 1))))
        if k < 0.95:
            return ("AP", tuple(rng.randint(-50, 50) for _ in range(rng.randint(0, 3))),
                    rng.choice(["list", "tuple"]), sub)
        return ("C", sub)

    return grow(rng.randint(2, max_depth))


def run_program(ctx, p, reads_rng):
    """run one program on the real code + oracle; returns the implementation observation string
    in the model's output format (for the correspondence diff)"""
    site = "C19/program"
    w = World()
    nodes = []
    rp = {"program": toks(p), "program_tree": repr(p)}
    try:
        expect = ref_eval(p)
        exp_err = None
    except RefErr as e:
        expect, exp_err = None, e.kind
    try:
        ll = impl_build(p, w, nodes)
        got_err = None
    except IndexError:
        ll, got_err = None, "index"
    except ValueError:
        ll, got_err = None, "value"
    except Exception as e:  # any other exception type is not what an ordinary list would do
        ll, got_err = None, "other:" + type(e).__name__
    built_log = w.take()
    ctx.check(not built_log, site, "construction-evaluated", "building a lazy list invoked callables: %r" % built_log[:6],
              dict(rp, log=built_log[:20]))
    if exp_err is not None or got_err is not None:
        ctx.check(exp_err == got_err, site, "error-kind",
                  "ordinary list semantics gives %r, LazyList gives %r" % (exp_err or "ok", got_err or "ok"), rp)
        ctx.count("err:" + str(exp_err))
        return "err " + got_err if got_err else None
    # length
    n = len(ll)
    ctx.check(n == len(expect), site, "length", "len %d, ordinary list %d" % (n, len(expect)), rp)
    out = ["ok %d" % n]
    # every element, with the log of that single read
    for j in range(n):
        try:
            v = ll[j]
        except Exception as e:
            ctx.fail(site, "read-raises", "reading element %d raised %s" % (j, type(e).__name__), rp)
            return None
        lg = w.take()
        out.append("%d %s" % (v, ",".join(lg) if lg else "-"))
        if j < len(expect):
            ev, elg = expect[j]
            ctx.check(v == ev, site, "value", "element %d is %r, ordinary list gives %r" % (j, v, ev), dict(rp, index=j))
            ctx.check(lg == elg, site, "read-log",
                      "reading element %d evaluated %r, its dependencies are %r" % (j, lg, elg), dict(rp, index=j))
    # negative and out-of-range integer reads, iteration
    for _ in range(2):
        i = reads_rng.randint(-n - 1, n)
        try:
            v = ll[np.int64(i)] if reads_rng.random() < 0.3 else ll[i]
            ok = True
        except IndexError:
            ok = False
        w.take()
        try:
            ev = expect[i][0]
            eok = True
        except IndexError:
            eok = False
        ctx.check(ok == eok and (not ok or v == ev), site, "int-index",
                  "ll[%d]: %s vs ordinary list %s" % (i, v if ok else "IndexError", ev if eok else "IndexError"), dict(rp, index=i))
    it = list(ll)
    w.take()
    ctx.check(it == [e[0] for e in expect], site, "iteration", "list(ll) differs from the ordinary list", rp)
    # receivers behave as before: every intermediate list still equals its own reference
    for sub, obj in nodes[:-1]:
        try:
            sexp = ref_eval(sub)
        except RefErr:
            continue
        vals = None
        try:
            vals = [obj[k] for k in range(len(obj))]
        except Exception:
            pass
        w.take()
        ctx.check(vals == [e[0] for e in sexp], site, "receiver-changed",
                  "a list an operation was applied to no longer behaves as before", dict(rp, receiver=toks(sub)))
    return " ".join(out)


def special_cases(ctx):
    """error kinds outside the program grammar"""
    from menpo.base import LazyList
    site = "C19/special"
    w = World()
    ll = LazyList.init_from_index_callable(w.base(0), 3)

    class CallIter(list):
        def __call__(self, x):
            return x
    for what, f, exc in [("ambiguous callable-iterable to map", lambda: ll.map(CallIter([1, 2, 3])), ValueError),
                         ("non-iterable +", lambda: ll + 5, ValueError)]:
        try:
            f()
            ok = False
        except exc:
            ok = True
        except Exception:
            ok = False
        ctx.case(("special", what), nontrivial=True)
        ctx.check(ok, site, "error-kind", what + " is not refused with " + exc.__name__, {"case": what})
    ctx.check(not w.take(), site, "construction-evaluated", "refused operations evaluated something", {})
    # init_from_iterable with and without f
    l2 = LazyList.init_from_iterable([5, 6, 7], f=w.fn(1))
    ctx.check(not w.take(), site, "construction-evaluated", "init_from_iterable evaluated", {})
    ctx.check(l2[1] == fn_val(1, 6) and w.take() == ["c:1:6"], site, "value", "init_from_iterable element", {})
    ctx.case(("special", "init_from_iterable"), nontrivial=True)


def subprograms(p):
    out = [p]
    for x in p[1:]:
        if isinstance(x, tuple) and x and isinstance(x[0], str) and x[0] in ("B", "M", "E", "SI", "SS", "R", "A", "AP", "C"):
            out += subprograms(x)
    return out


def shrink(ctx):
    """replace each recorded failing program by its smallest failing subprogram (delta debugging over the tree)"""
    out = []
    for site, pattern, text, rp in ctx.failures:
        tree = rp.get("program_tree")
        best = None
        if tree:
            for sub in sorted(subprograms(eval(tree)), key=lambda q: len(toks(q))):
                c = ctx.scratch()
                run_program(c, sub, random.Random(0))
                hit = [f for f in c.failures if f[1] == pattern]
                if hit:
                    best = hit[0]
                    break
        if best is not None:
            rp = dict(best[3], minimised_from=rp.get("program"))
            text = best[2]
        out.append((site, pattern, text, rp))
    ctx.failures[:] = out


# ---------------------------------------------------------------- heap histories: operations on aliased list objects

def heap_history(ctx, rng, lines, pending):
    """a sequence of operations whose operands are earlier list objects (aliasing, re-use, refused operations);
    afterwards EVERY list object is re-read and compared with the ordinary-list reference and with the model"""
    from menpo.base import LazyList
    site = "C19/heap"
    w = World()
    objs, refs, ops_tok, ops_py = [], [], [], []
    n_ops = rng.randint(3, 10)
    for _ in range(n_ops):
        kind = rng.choice(["hb", "hm", "he", "hsi", "hss", "hr", "ha", "hp", "hc"]) if objs else "hb"
        a = rng.randrange(len(objs)) if objs else 0
        try:
            if kind == "hb":
                b, n = rng.randrange(3), rng.randint(0, 5)
                tok, new, ref = ["hb", b, n], (lambda: LazyList.init_from_index_callable(w.base(b), n)), \
                    [base_val(b, i) for i in range(n)]
            elif kind == "hm":
                f = rng.randrange(4)
                tok, new, ref = ["hm", f, a], (lambda: objs[a].map(w.fn(f))), [fn_val(f, v) for v in refs[a]]
            elif kind == "he":
                m = len(refs[a]) if rng.random() < 0.85 else len(refs[a]) + 1
                fs = [rng.randrange(4) for _ in range(m)]
                tok, new = ["he", m] + fs + [a], (lambda: objs[a].map([w.fn(f) for f in fs]))
                ref = [fn_val(f, v) for f, v in zip(fs, refs[a])] if m == len(refs[a]) else "value"
            elif kind == "hsi":
                n = len(refs[a])
                ints = [rng.randint(-n, n - 1) if n and rng.random() < 0.95 else n + 1 for _ in range(rng.randint(0, 4))]
                tok, new = ["hsi", len(ints)] + ints + [a], (lambda: objs[a][list(ints)])
                try:
                    ref = [refs[a][i] for i in ints]
                except IndexError:
                    ref = "index"
            elif kind == "hss":
                n = len(refs[a])
                bd = lambda: None if rng.random() < 0.3 else rng.randint(-n - 2, n + 2)
                sl = (bd(), bd(), rng.choice([None, 1, 2, -1, -2, 3]))
                tok, new, ref = ["hss"] + ["N" if x is None else x for x in sl] + [a], (lambda: objs[a][slice(*sl)]), \
                    refs[a][slice(*sl)]
            elif kind == "hr":
                n = rng.randint(0, 3)
                tok, new, ref = ["hr", n, a], (lambda: objs[a].repeat(n)), [v for v in refs[a] for _ in range(n)]
            elif kind == "ha":
                b = rng.randrange(len(objs))
                tok, new, ref = ["ha", a, b], (lambda: objs[a] + objs[b]), refs[a] + refs[b]
            elif kind == "hp":
                vs = [rng.randint(-9, 9) for _ in range(rng.randint(0, 3))]
                tok, new, ref = ["hp", len(vs)] + vs + [a], (lambda: objs[a] + list(vs)), refs[a] + vs
            else:
                tok, new, ref = ["hc", a], (lambda: objs[a].copy()), list(refs[a])
            ops_tok.append(" ".join(str(x) for x in tok))
            try:
                r = new()
                got_err = None
            except IndexError:
                r, got_err = None, "index"
            except ValueError:
                r, got_err = None, "value"
            exp_err = ref if isinstance(ref, str) else None
            rp = {"ops": list(ops_tok)}
            if not ctx.check(got_err == exp_err, site, "error-kind",
                             "operation %r: ordinary lists give %s, LazyList gives %s" % (ops_tok[-1], exp_err or "ok", got_err or "ok"), rp):
                return
            if got_err is None:
                objs.append(r)
                refs.append(ref)
        except Exception as e:      # noqa: BLE001
            ctx.fail(site, "raises", "operation %r raised %s" % (ops_tok[-1] if ops_tok else kind, type(e).__name__), {"ops": list(ops_tok)})
            return
    built = w.take()
    rp = {"ops": ops_tok}
    ctx.check(not built, site, "construction-evaluated", "the history evaluated callables: %r" % built[:5], rp)
    cells = []
    for k, (o, ref) in enumerate(zip(objs, refs)):
        try:
            vals = [o[j] for j in range(len(o))]
        except Exception as e:      # noqa: BLE001
            ctx.fail(site, "read-raises", "reading list object %d after the history raised %s" % (k, type(e).__name__), rp)
            return
        w.take()
        ctx.check(vals == ref, site, "receiver-changed",
                  "list object %d no longer holds what the operation that created it returned: %r vs %r" % (k, vals, ref), rp)
        cells.append(" | %d%s" % (len(vals), "".join(" %d" % v for v in vals)))
    ctx.case(("heap", tuple(ops_tok)), nontrivial=len(objs) >= 3, sample={"heap_history": ops_tok})
    ctx.count("heap-history-ops", len(ops_tok))
    cid = "h%d" % len(lines)
    lines.append("%s heap %d %s" % (cid, len(ops_tok), " ".join(ops_tok)))
    pending[cid] = ("ok %d" % len(objs) + "".join(cells), rp)


def receiver_write_table():
    """for every operation: the instance attributes of the RECEIVER (and of a second operand) it writes"""
    from menpo.base import LazyList
    import numpy as np
    w = World()
    table = {}
    mk = lambda: LazyList.init_from_index_callable(w.base(0), 4).map(w.fn(1))
    other = mk()
    acts = {
        "map": lambda r: r.map(w.fn(2)), "map_each": lambda r: r.map([w.fn(0)] * 4), "repeat": lambda r: r.repeat(2),
        "copy": lambda r: r.copy(), "add_lazy": lambda r: r + other, "add_self": lambda r: r + r, "add_plain": lambda r: r + [1, 2],
        "getitem_int": lambda r: r[1], "getitem_slice": lambda r: r[::-1], "getitem_list": lambda r: r[[0, 0, 3]],
        "getitem_array": lambda r: r[np.array([1, 2])], "len": lambda r: len(r), "iter": lambda r: list(r),
    }
    for name, act in acts.items():
        r = mk()
        table[name] = sorted(set(common.attr_writes(r, lambda: act(r))) | set(common.attr_writes(other, lambda: act(r))))
    return table


def search(ctx):
    """directed search after a broken tie: many more programs through the oracle only"""
    rng = ctx.rng
    for k in range(6000):
        p = gen_prog(rng, 8, 3)
        run_program(ctx, p, rng)
        ctx.searched += 1
        if ctx.failures:
            return True
    return False


def run(ctx):
    common.prepare_lean(ctx, PROP, IMPORTS, THEOREMS)
    rng = ctx.rng
    n_prog = ctx.n(1500, 30000)
    lines, impl_out, progs = [], {}, {}
    special_cases(ctx)
    for k in range(n_prog):
        p = gen_prog(rng, 8, 3)
        obs = run_program(ctx, p, rng)
        d = depth(p)
        ctx.count("depth:%d" % d)
        ctx.count("top:" + p[0])
        tk = toks(p)
        ctx.case(tuple(tk), nontrivial=(d >= 2), sample={"program": " ".join(tk), "implementation": obs})
        cid = str(k)
        progs[cid] = p
        impl_out[cid] = obs
        lines.append(cid + " all " + " ".join(tk))
    pend_heap = {}
    for _ in range(ctx.n(300, 6000)):
        heap_history(ctx, rng, lines, pend_heap)
    table = receiver_write_table()
    ctx.notes["receiver_write_table"] = table
    ctx.case(("write-table",), nontrivial=True)
    bad = {k: v for k, v in table.items() if v}
    ctx.check(not bad, "C19/receiver-attributes", "written",
              "operations wrote instance attributes of the list they were applied to: %r" % bad, {"table": table})
    model = common.run_driver(PROP, lines)
    for cid, (obs, rp) in pend_heap.items():
        if model[cid] != obs:
            ctx.mismatch("heap", "model %r vs implementation %r" % (model[cid][:200], obs[:200]), rp)
    for cid, obs in impl_out.items():
        if obs is None:
            continue  # oracle already failed on this case
        if model[cid] != obs:
            ctx.mismatch("all", "model %r vs implementation %r" % (model[cid][:200], obs[:200]),
                         {"program": toks(progs[cid]), "program_tree": repr(progs[cid])})
    shrink(ctx)
    return ctx.finish(search)


def replay(ctx, path):
    data = json.load(open(path))
    rp = data.get("replay") or (data.get("broken_correspondence") or [{}])[0].get("case", {})
    tree = rp.get("program_tree")
    if tree is None:
        print("replay file carries no program")
        return 2
    p = eval(tree)
    obs = run_program(ctx, p, ctx.rng)
    ctx.case(("replay", tree))
    ctx.case(("replay2", tree))
    model = common.run_driver(PROP, ["0 all " + " ".join(toks(p))])
    print("implementation:", obs)
    print("model         :", model["0"])
    if obs is not None and model["0"] != obs:
        ctx.mismatch("all", "model vs implementation differ on the replayed program", {"program": toks(p)})
    return ctx.finish(None)
