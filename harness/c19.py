"""C19 — lazy lists are faithful and truly lazy (DESIGN.md section 6, C19).

Three parties per generated program: the real `menpo.base.LazyList` driven with
instrumented callables, an ordinary-list reference with provenance (the property
oracle, independent of the Lean model), and the Lean model (`Core/LazyList.lean`).
"""
import json
import random

import numpy as np

from . import common

PROP = "C19"
INFO = dict(

    technique="Lean 4 proof (refinement of every lazy-list program to ordinary lists, by induction over programs) "
              "+ model/implementation correspondence on random programs",
    level_text="Theorems over an executable model of LazyList: for every program built from map (both forms), "
               "int/negative/slice/fancy indexing, repeat, +, copy, to any depth, the lazy result evaluates to the "
               "ordinary-list result (errors included), construction consults no callable, and a read evaluates "
               "exactly the element's dependency chain.  The model is tied to /repo by running the real LazyList "
               "with instrumented callables on random programs and diffing values, lengths, error kinds and "
               "per-read evaluation logs against the Lean driver; an independent ordinary-list oracle decides "
               "the property on the real code.",
    level_note="Trusted: Lean kernel; axioms propext/Classical.choice/Quot.sound; the Python harness and the "
               "driver's parser; CPython list/slice semantics are modelled (Core/PyData.lean) and exercised by the "
               "correspondence, not verified.  Receivers-unchanged is a value-model fact plus a check on real objects.",
    rule="random programs (depth<=8, base lists of length 0..7, all constructors, all index container kinds); a case "
         "is one program; distinct = distinct token sequence; non-trivial = depth >= 2",
    partial=["receivers-unchanged is proved in the value model only; aliasing between the Python lists is observed "
             "on the real objects (every intermediate list re-read after all later operations)"],
    assumptions=["callables are deterministic functions of their argument (instrumented test callables)"],
    design_ref="DESIGN.md section 6, C19")
IMPORTS = ["MenpoModel.Props.C19"]
THEOREMS = [
    "MenpoModel.LazyList.lazy_refines_list",
    "MenpoModel.LazyList.lazy_length_eq",
    "MenpoModel.LazyList.getInt_value",
    "MenpoModel.LazyList.construction_evaluates_nothing",
    "MenpoModel.LazyList.evalLog_chain",
    "MenpoModel.LazyList.read_log_length",
    "MenpoModel.LazyList.map_read_log",
    "MenpoModel.LazyList.select_elements",
    "MenpoModel.LazyList.repeat_elements",
    "MenpoModel.LazyList.sliceIndices_in_range",
]


def base_val(b, i):
    return 1000 * (b + 1) + i


def fn_val(f, v):
    return (f + 2) * v + (f + 1)


class World:
    """instrumented callables writing into one log"""

    def __init__(self):
        self.log = []

    def base(self, b):
        def g(i):
            self.log.append("a:%d:%d" % (b, i))
            return base_val(b, i)
        return g

    def fn(self, f):
        def h(x):
            self.log.append("c:%d:%d" % (f, x))
            return fn_val(f, x)
        return h

    def take(self):
        l, self.log = self.log, []
        return l


# ---------------------------------------------------------------- programs as nested tuples
# ('B', b, n) ('M', f, p) ('E', fs, p) ('SI', ints, kind, p) ('SS', a, b, c, p) ('R', n, p)
# ('A', p, q) ('AP', vs, kind, p) ('C', p)

def toks(p):
    t = p[0]
    if t == "B":
        return ["B", str(p[1]), str(p[2])]
    if t == "M":
        return ["M", str(p[1])] + toks(p[2])
    if t == "E":
        return ["E", str(len(p[1]))] + [str(x) for x in p[1]] + toks(p[2])
    if t == "SI":
        return ["SI", str(len(p[1]))] + [str(x) for x in p[1]] + toks(p[3])
    if t == "SS":
        return ["SS"] + ["N" if x is None else str(x) for x in p[1:4]] + toks(p[4])
    if t == "R":
        return ["R", str(p[1])] + toks(p[2])
    if t == "A":
        return ["A"] + toks(p[1]) + toks(p[2])
    if t == "AP":
        return ["AP", str(len(p[1]))] + [str(x) for x in p[1]] + toks(p[3])
    if t == "C":
        return ["C"] + toks(p[1])
    raise ValueError(t)


def depth(p):
    subs = [x for x in p[1:] if isinstance(x, tuple) and x and isinstance(x[0], str) and x[0] in
            ("B", "M", "E", "SI", "SS", "R", "A", "AP", "C")]
    return 1 + max([depth(s) for s in subs], default=0)


class RefErr(Exception):
    def __init__(self, kind):
        self.kind = kind


def ref_eval(p):
    """ordinary-list semantics with provenance: list of (value, expected read log)"""
    t = p[0]
    if t == "B":
        return [(base_val(p[1], i), ["a:%d:%d" % (p[1], i)]) for i in range(p[2])]
    if t == "M":
        return [(fn_val(p[1], v), lg + ["c:%d:%d" % (p[1], v)]) for v, lg in ref_eval(p[2])]
    if t == "E":
        l = ref_eval(p[2])
        if len(p[1]) != len(l):
            raise RefErr("value")
        return [(fn_val(f, v), lg + ["c:%d:%d" % (f, v)]) for f, (v, lg) in zip(p[1], l)]
    if t == "SI":
        l = ref_eval(p[3])
        try:
            return [l[i] for i in p[1]]
        except IndexError:
            raise RefErr("index")
    if t == "SS":
        l = ref_eval(p[4])
        try:
            return l[slice(p[1], p[2], p[3])]
        except ValueError:
            raise RefErr("value")
    if t == "R":
        return [x for x in ref_eval(p[2]) for _ in range(p[1])]
    if t == "A":
        a = ref_eval(p[1])
        return a + ref_eval(p[2])
    if t == "AP":
        return ref_eval(p[3]) + [(v, []) for v in p[1]]
    if t == "C":
        return ref_eval(p[1])
    raise ValueError(t)


def impl_build(p, w, nodes):
    """build the real LazyList; `nodes` collects (subprogram, object) for the receivers clause"""
    from menpo.base import LazyList
    t = p[0]
    if t == "B":
        r = LazyList.init_from_index_callable(w.base(p[1]), p[2])
    elif t == "M":
        r = impl_build(p[2], w, nodes).map(w.fn(p[1]))
    elif t == "E":
        r = impl_build(p[2], w, nodes).map([w.fn(f) for f in p[1]])
    elif t == "SI":
        ints, kind = p[1], p[2]
        if kind == "list":
            idx = list(ints)
        elif kind == "tuple":
            idx = tuple(ints)
        elif kind == "ndarray":
            idx = np.array(ints, dtype=np.int64)
        elif kind == "gen":
            idx = (i for i in ints)
        else:
            idx = [np.int32(i) for i in ints]
        r = impl_build(p[3], w, nodes)[idx]
    elif t == "SS":
        r = impl_build(p[4], w, nodes)[slice(p[1], p[2], p[3])]
    elif t == "R":
        r = impl_build(p[2], w, nodes).repeat(p[1])
    elif t == "A":
        a = impl_build(p[1], w, nodes)
        r = a + impl_build(p[2], w, nodes)
    elif t == "AP":
        vs = list(p[1]) if p[2] == "list" else tuple(p[1])
        r = impl_build(p[3], w, nodes) + vs
    elif t == "C":
        r = impl_build(p[1], w, nodes).copy()
    else:
        raise ValueError(t)
    nodes.append((p, r))
    return r


def gen_prog(rng, max_depth, nb):
    """bottom-up, mostly valid; stops growing at the first erroring node"""
    def leaf():
        return ("B", rng.randrange(nb), rng.choice([0, 1, 2, 3, 3, 4, 5, 6, 7]))

    def grow(d):
        if d <= 1 or rng.random() < 0.12:
            return leaf()
        sub = grow(d - 1)
        try:
            n = len(ref_eval(sub))
        except RefErr:
            return sub
        k = rng.random()
        if k < 0.16:
            return ("M", rng.randrange(4), sub)
        if k < 0.28:
            m = n if rng.random() < 0.9 else max(0, n + rng.choice([-1, 1, 2]))
            return ("E", tuple(rng.randrange(4) for _ in range(m)), sub)
        if k < 0.44:
            m = rng.choice([0, 1, 2, 3, 5])
            lo, hi = (-n, n - 1) if n else (0, 0)
            ints = []
            for _ in range(m):
                if n == 0 or rng.random() < 0.04:
                    ints.append(rng.choice([n, -n - 1, n + 2]))
                else:
                    ints.append(rng.randint(lo, hi))
            return ("SI", tuple(ints), rng.choice(["list", "tuple", "ndarray", "gen", "npint"]), sub)
        if k < 0.66:
            def bound():
                return None if rng.random() < 0.3 else rng.randint(-n - 2, n + 2)
            step = rng.choice([None, 1, 1, 2, 3, -1, -1, -2, -3]) if rng.random() > 0.03 else 0
            return ("SS", bound(), bound(), step, sub)
        if k < 0.76:
            return ("R", rng.choice([0, 1, 2, 2, 3]), sub)
        if k < 0.88:
            return ("A", sub, grow(rng.randint(1, max(1, d - 1))))
        if k < 0.95:
            return ("AP", tuple(rng.randint(-50, 50) for _ in range(rng.randint(0, 3))),
                    rng.choice(["list", "tuple"]), sub)
        return ("C", sub)

    return grow(rng.randint(2, max_depth))


def run_program(ctx, p, reads_rng):
    """run one program on the real code + oracle; returns the implementation observation string
    in the model's output format (for the correspondence diff)"""
    site = "C19/program"
    w = World()
    nodes = []
    rp = {"program": toks(p), "program_tree": repr(p)}
    try:
        expect = ref_eval(p)
        exp_err = None
    except RefErr as e:
        expect, exp_err = None, e.kind
    try:
        ll = impl_build(p, w, nodes)
        got_err = None
    except IndexError:
        ll, got_err = None, "index"
    except ValueError:
        ll, got_err = None, "value"
    except Exception as e:  # any other exception type is not what an ordinary list would do
        ll, got_err = None, "other:" + type(e).__name__
    built_log = w.take()
    ctx.check(not built_log, site, "construction-evaluated", "building a lazy list invoked callables: %r" % built_log[:6],
              dict(rp, log=built_log[:20]))
    if exp_err is not None or got_err is not None:
        ctx.check(exp_err == got_err, site, "error-kind",
                  "ordinary list semantics gives %r, LazyList gives %r" % (exp_err or "ok", got_err or "ok"), rp)
        ctx.count("err:" + str(exp_err))
        return "err " + got_err if got_err else None
    # length
    n = len(ll)
    ctx.check(n == len(expect), site, "length", "len %d, ordinary list %d" % (n, len(expect)), rp)
    out = ["ok %d" % n]
    # every element, with the log of that single read
    for j in range(n):
        try:
            v = ll[j]
        except Exception as e:
            ctx.fail(site, "read-raises", "reading element %d raised %s" % (j, type(e).__name__), rp)
            return None
        lg = w.take()
        out.append("%d %s" % (v, ",".join(lg) if lg else "-"))
        if j < len(expect):
            ev, elg = expect[j]
            ctx.check(v == ev, site, "value", "element %d is %r, ordinary list gives %r" % (j, v, ev), dict(rp, index=j))
            ctx.check(lg == elg, site, "read-log",
                      "reading element %d evaluated %r, its dependencies are %r" % (j, lg, elg), dict(rp, index=j))
    # negative and out-of-range integer reads, iteration
    for _ in range(2):
        i = reads_rng.randint(-n - 1, n)
        try:
            v = ll[np.int64(i)] if reads_rng.random() < 0.3 else ll[i]
            ok = True
        except IndexError:
            ok = False
        w.take()
        try:
            ev = expect[i][0]
            eok = True
        except IndexError:
            eok = False
        ctx.check(ok == eok and (not ok or v == ev), site, "int-index",
                  "ll[%d]: %s vs ordinary list %s" % (i, v if ok else "IndexError", ev if eok else "IndexError"), dict(rp, index=i))
    it = list(ll)
    w.take()
    ctx.check(it == [e[0] for e in expect], site, "iteration", "list(ll) differs from the ordinary list", rp)
    # receivers behave as before: every intermediate list still equals its own reference
    for sub, obj in nodes[:-1]:
        try:
            sexp = ref_eval(sub)
        except RefErr:
            continue
        vals = None
        try:
            vals = [obj[k] for k in range(len(obj))]
        except Exception:
            pass
        w.take()
        ctx.check(vals == [e[0] for e in sexp], site, "receiver-changed",
                  "a list an operation was applied to no longer behaves as before", dict(rp, receiver=toks(sub)))
    return " ".join(out)


def special_cases(ctx):
    """error kinds outside the program grammar"""
    from menpo.base import LazyList
    site = "C19/special"
    w = World()
    ll = LazyList.init_from_index_callable(w.base(0), 3)

    class CallIter(list):
        def __call__(self, x):
            return x
    for what, f, exc in [("ambiguous callable-iterable to map", lambda: ll.map(CallIter([1, 2, 3])), ValueError),
                         ("non-iterable +", lambda: ll + 5, ValueError)]:
        try:
            f()
            ok = False
        except exc:
            ok = True
        except Exception:
            ok = False
        ctx.case(("special", what), nontrivial=True)
        ctx.check(ok, site, "error-kind", what + " is not refused with " + exc.__name__, {"case": what})
    ctx.check(not w.take(), site, "construction-evaluated", "refused operations evaluated something", {})
    # init_from_iterable with and without f
    l2 = LazyList.init_from_iterable([5, 6, 7], f=w.fn(1))
    ctx.check(not w.take(), site, "construction-evaluated", "init_from_iterable evaluated", {})
    ctx.check(l2[1] == fn_val(1, 6) and w.take() == ["c:1:6"], site, "value", "init_from_iterable element", {})
    ctx.case(("special", "init_from_iterable"), nontrivial=True)


def subprograms(p):
    out = [p]
    for x in p[1:]:
        if isinstance(x, tuple) and x and isinstance(x[0], str) and x[0] in ("B", "M", "E", "SI", "SS", "R", "A", "AP", "C"):
            out += subprograms(x)
    return out


def shrink(ctx):
    """replace each recorded failing program by its smallest failing subprogram (delta debugging over the tree)"""
    out = []
    for site, pattern, text, rp in ctx.failures:
        tree = rp.get("program_tree")
        best = None
        if tree:
            for sub in sorted(subprograms(eval(tree)), key=lambda q: len(toks(q))):
                c = ctx.scratch()
                run_program(c, sub, random.Random(0))
                hit = [f for f in c.failures if f[1] == pattern]
                if hit:
                    best = hit[0]
                    break
        if best is not None:
            rp = dict(best[3], minimised_from=rp.get("program"))
            text = best[2]
        out.append((site, pattern, text, rp))
    ctx.failures[:] = out


def search(ctx):
    """directed search after a broken tie: many more programs through the oracle only"""
    rng = ctx.rng
    for k in range(6000):
        p = gen_prog(rng, 8, 3)
        run_program(ctx, p, rng)
        ctx.searched += 1
        if ctx.failures:
            return True
    return False


def run(ctx):
    common.prepare_lean(ctx, PROP, IMPORTS, THEOREMS)
    rng = ctx.rng
    n_prog = ctx.n(1500, 30000)
    lines, impl_out, progs = [], {}, {}
    special_cases(ctx)
    for k in range(n_prog):
        p = gen_prog(rng, 8, 3)
        obs = run_program(ctx, p, rng)
        d = depth(p)
        ctx.count("depth:%d" % d)
        ctx.count("top:" + p[0])
        tk = toks(p)
        ctx.case(tuple(tk), nontrivial=(d >= 2), sample={"program": " ".join(tk), "implementation": obs})
        cid = str(k)
        progs[cid] = p
        impl_out[cid] = obs
        lines.append(cid + " all " + " ".join(tk))
    model = common.run_driver(PROP, lines)
    for cid, obs in impl_out.items():
        if obs is None:
            continue  # oracle already failed on this case
        if model[cid] != obs:
            ctx.mismatch("all", "model %r vs implementation %r" % (model[cid][:200], obs[:200]),
                         {"program": toks(progs[cid]), "program_tree": repr(progs[cid])})
    shrink(ctx)
    return ctx.finish(search)


def replay(ctx, path):
    data = json.load(open(path))
    rp = data.get("replay") or (data.get("broken_correspondence") or [{}])[0].get("case", {})
    tree = rp.get("program_tree")
    if tree is None:
        print("replay file carries no program")
        return 2
    p = eval(tree)
    obs = run_program(ctx, p, ctx.rng)
    ctx.case(("replay", tree))
    ctx.case(("replay2", tree))
    model = common.run_driver(PROP, ["0 all " + " ".join(toks(p))])
    print("implementation:", obs)
    print("model         :", model["0"])
    if obs is not None and model["0"] != obs:
        ctx.mismatch("all", "model vs implementation differ on the replayed program", {"program": toks(p)})
    return ctx.finish(None)
