"""C19 — lazy lists are faithful and truly lazy (DESIGN.md section 6, C19).

Three parties per generated program: the real `menpo.base.LazyList` (and the real importers of
`menpo.io.input.base` on a scratch directory, with instrumented importer callables) driven with instrumented
callables, an ordinary-list reference with provenance (the property oracle, independent of the Lean model),
and the Lean model (`Core/LazyList.lean`, `Core/C19Glob.lean`, `Core/C19Reads.lean`, `Core/C19Dispatch.lean`).
"""
import fnmatch
import json
import os
import random
import re
import shutil
import tempfile

import numpy as np

from . import common
from . import extract_c19
from . import trans_c19

PROP = "C19"
INFO = dict(

    technique="Lean 4 proof (refinement of every lazy-list program to ordinary lists with provenance, by induction "
              "over programs; evaluation-count theorems for reads, iteration, generator prefixes and the Sequence "
              "mix-ins; frame theorems over histories of operations and reads on aliased list objects; CPython slice "
              "arithmetic proved equal to the language reference's definition) "
              "+ SOURCE TRANSLATION: the text of LazyList.__getitem__ / __len__ / map (and its nested `delayed`) / "
              "repeat / copy / __add__ / init_from_iterable / init_from_index_callable and of glob_with_suffix / "
              "importer_for_filepath / _import_glob_lazy_list / _import / _import_lazylist_attach_landmarks is translated into "
              "Lean on every run (harness/trans_c19.py, py2lean2 + py2lean2g) and proved equal, for all arguments, to "
              "the Core definitions the theorems are about (GenProps/C19Src*.lean) "
              "+ model/implementation correspondence on random programs, including the lists menpo's importers "
              "build on a scratch directory, + dispatch tables regenerated from the live code with decide obligations",
    level_text="Theorems over an executable model of LazyList: for every program built from map (both forms), "
               "int/negative/slice/fancy indexing, repeat, +, copy, init_from_iterable and the glob importer lists, "
               "to any depth, every element of the lazy result evaluates to the value AND the evaluation log "
               "(own base access, then each mapped function once) of the ordinary-list result (errors included); "
               "iteration, generator prefixes, in/index/count/reversed evaluate exactly the stated elements once.  "
               "BY CONSTRUCTION OF THE MODEL (not theorems with content of their own): building a list takes no "
               "environment of callables at all (so construction cannot evaluate - a fact about the TYPE of "
               "Prog.lazy / genMap / genInit ...), a read re-evaluates its chain (no memo), operations log nothing and "
               "every operation allocates a new list object (the frame theorems hrun_frame / src_history_frame are "
               "theorems of that heap model).  That the CODE shares these model properties is established by: the "
               "source translation - 15 functions (LazyList.__init__ included, so an eager constructor breaks "
               "genInit_eq), source text of the working tree -> Generated/C19Src.lean, equality with the Core model "
               "re-proved by lake build on every run: the whole __getitem__ dispatch, both map forms and `delayed` "
               "(bound positionally), repeat from the primitives [x]*n / zip(*) / chain(*), copy, +, both "
               "constructors, the suffix filter, the importer choice (while / pop loop), the max_assets window / both "
               "refusals / generator form of _import_glob_lazy_list, _import and the per-frame resolver mapping of "
               "import_video; the translation is VALUE-LEVEL except for one typing discipline: only an object "
               "created by the running method (Copyable.copy(self), self.copy(), the blank self of __init__) has "
               "type Fresh and only a Fresh object can be assigned `_callables`, so a method that writes its "
               "receiver (`new = self`) no longer type-checks; aliasing beyond that (two names for one Python list "
               "object, writes from outside) is decided by the measured receiver-write table (17 operations, "
               "regenerated every run) and by the oracle's histories on aliased objects, not by the translated "
               "obligations; `progSrc` (every operation of a program = the translated code) is proved equal to the "
               "program model, so the refinement theorems speak about the translated source.  The model is also tied "
               "to /repo by running the real LazyList and the real importers with instrumented callables on random "
               "programs and diffing values, lengths, error kinds and evaluation logs against the Lean driver (exact "
               "logs, i.e. absence of a memo, are a correspondence observation), and by decide obligations over the "
               "argument-dispatch and receiver-write tables regenerated from the live code (the dispatch is the one "
               "AFTER fix 19448fa: a regression breaks getitem_dispatch_ok).  An independent ordinary-list oracle "
               "decides the property on the real code and judges only what the text states: lengths, values, that "
               "construction evaluates nothing, that a read evaluates at most the element's own dependency chain "
               "(sub-sequence), that an index an ordinary list refuses is refused (any exception), and that receivers "
               "read as before; exception kinds, str(), and what map / + do with arguments outside the property's "
               "grammar (non-callable, callable iterable, generator of callables, non-iterable operand) are recorded, "
               "not judged.",
    level_note="Trusted: Lean kernel; axioms propext/Classical.choice/Quot.sound; the Python harness and the "
               "driver's parser; the translator (harness/py2lean2.py, py2lean2g.py) and the C19 rule table "
               "(harness/trans_c19.py); CPython list/partial/pathlib semantics are modelled (Core/PyData.lean, "
               "Core/C19Py.lean; the sorted directory listing is an input of the glob model) and exercised by the "
               "correspondence, not verified.",
    rule="random programs (depth<=10, base lists of length 0..7, all constructors incl. init_from_iterable, the glob "
         "importers over a scratch directory, import_video frame lists, a + a on one object, identity maps, "
         "repeat(<=0), all index container kinds); a case is one program (or one heap history / generator run / "
         "non-callable chain); distinct = distinct token sequence; non-trivial = depth >= 2 (history: >= 3 objects)",
    partial=["the CPython primitives are DEFINED in the model, not verified against CPython: list.__getitem__ "
             "(Core/PyData.lean; its slice arithmetic is proved equal to the language reference's definition, "
             "sliceIndices_eq_ref), [x]*n / zip(*) / chain(*) / range / functools.partial (Core/C19Py.lean; "
             "chain_zip_mul proves repeat from them), the sorted pathlib listing (an input of the glob model); `_pathlib_glob_for_pattern`, "
             "`_possible_extensions_from_filepath` and `_import_object_attach_landmarks` are not translated; the "
             "per-element callable `_import` is translated symbolically (which object flows where: is_file refusal, "
             "importer choice, the two attach guards, list wrapping / unwrapping; path attachment dropped) and "
             "genImport_thunk shows that the vocabulary word `partial(_import, ...)` denotes what it returns; the "
             "dropped path-attachment loop of `_import` ITERATES plain sequences among the built objects (guarded by "
             "`not isinstance(x, LazyList)`): that this guard keeps imported video lists unevaluated is decided by "
             "the oracle (video family), not by the translation",
             "construction silence, no-memo reads, silent operations and fresh result objects are properties the model "
             "has by construction; the former `rfl` theorems construction_evaluates_nothing / ops_construct_only are "
             "no longer listed as property theorems",
             "shuffle=True and verbose=True of the importers are covered by the translated _import_glob_lazy_list "
             "(genImportGlob_eq, random.shuffle as a parameter) but not by the correspondence; pickling of lazy lists "
             "is outside the model (not named by the property); LazyLists holding a local closure (after map, or "
             "init_from_iterable without f) cannot be pickled at all - recorded in the evidence notes, not judged"],
    assumptions=["callables are deterministic functions of their argument (instrumented test callables): total, they do "
                 "not raise, do not touch any lazy list, and nobody writes `_callables` from outside (the model's Env "
                 "is a pair of total functions)",
                 "the Sequence mix-ins (__iter__, __contains__, index, count, __reversed__ of collections.abc) are "
                 "transcribed by hand in Core/C19Reads.lean and tied by the correspondence, not translated",
                 "attribute assignment is read value-passing in the translation (see level_text: Fresh typing "
                 "discipline, write table, oracle histories)",
                 "importer-built video lists use a logging stand-in for FFMpegVideoReader except in the dedicated "
                 "family that drives the real reader behind stand-in ffmpeg / ffprobe executables",
                 "harmless totalisations of the vocabulary: importThunk uses `.getD 0` for a file without importer "
                 "(excluded by importKind_of_extOk), `partial(g_b, x)` takes `x.toNat`, `genAdd 0 = TypeError` (fuel, "
                 "genAdd_eq holds for every fuel >= 2), `LazyList(<one callable>)` is a TypeError in the model where "
                 "the code builds a broken object (unreachable: getitem_wrap_never_elem)"],
    design_ref="DESIGN.md section 6, C19")
IMPORTS = ["MenpoModel.Props.C19", "MenpoModel.GenProps.C19", "MenpoModel.GenProps.C19Src",
           "MenpoModel.GenProps.C19SrcRefine"]
THEOREMS = [
    "MenpoModel.LazyList.lazy_refines_list",
    "MenpoModel.LazyList.lazy_length_eq",
    "MenpoModel.LazyList.getInt_value",
    "MenpoModel.LazyList.evalLog_chain",
    "MenpoModel.LazyList.read_log_length",
    "MenpoModel.LazyList.map_read_log",
    "MenpoModel.LazyList.select_elements",
    "MenpoModel.LazyList.repeat_elements",
    "MenpoModel.LazyList.sliceIndices_in_range",
    "MenpoModel.LazyList.slice_select_total",
    "MenpoModel.LazyList.hstep_frame",
    "MenpoModel.LazyList.hrun_frame",
    "MenpoModel.LazyList.hstep_result",
    "MenpoModel.LazyList.read_after_ops_unchanged",
    # Props/C19Reads.lean
    "MenpoModel.LazyList.lazy_refines_listLog",
    "MenpoModel.LazyList.refLog_values",
    "MenpoModel.LazyList.getInt_refLog",
    "MenpoModel.LazyList.readAt_getInt",
    "MenpoModel.LazyList.readAt_error_silent",
    "MenpoModel.LazyList.readAt_ok",
    "MenpoModel.LazyList.readsAt_values",
    "MenpoModel.LazyList.readsAt_log",
    "MenpoModel.LazyList.readsAt_append",
    "MenpoModel.LazyList.read_twice_reevaluates",
    "MenpoModel.LazyList.iterFrom_spec",
    "MenpoModel.LazyList.iterAll_spec",
    "MenpoModel.LazyList.iter_refines",
    "MenpoModel.LazyList.iter_prefix",
    "MenpoModel.LazyList.iterAll_accesses",
    "MenpoModel.LazyList.iterAll_calls",
    "MenpoModel.LazyList.upToFirst_prefix",
    "MenpoModel.LazyList.upToFirst_of_not_mem",
    "MenpoModel.LazyList.containsTs_spec",
    "MenpoModel.LazyList.indexTs_spec",
    "MenpoModel.LazyList.countTs_spec",
    "MenpoModel.LazyList.reversedTs_spec",
    "MenpoModel.LazyList.evalLogX_callable",
    "MenpoModel.LazyList.evalLogX_footprint",
    "MenpoModel.LazyList.hstep_refused",
    "MenpoModel.LazyList.hplay_heap",
    "MenpoModel.LazyList.hplay_ops_silent",
    "MenpoModel.LazyList.hplay_append",
    "MenpoModel.LazyList.hplay_read_late",
    "MenpoModel.LazyList.hplay_iterate_late",
    # Props/C19Import.lean
    "MenpoModel.LazyList.importKind_of_extOk",
    "MenpoModel.LazyList.importKind_first",
    "MenpoModel.LazyList.globWithSuffix_spec",
    "MenpoModel.LazyList.glob_refused_iff",
    "MenpoModel.LazyList.glob_paths_eq",
    "MenpoModel.LazyList.glob_length",
    "MenpoModel.LazyList.importThunk_evalLog",
    "MenpoModel.LazyList.glob_read",
    "MenpoModel.LazyList.glob_generator_prefix",
    "MenpoModel.LazyList.iter_spec",
    "MenpoModel.LazyList.iter_length",
    "MenpoModel.LazyList.videoFrames_refLog",
    "MenpoModel.LazyList.videoFrames_lazy",
    "MenpoModel.LazyList.refLog_entry_chain",
    # Props/C19Dispatch.lean
    "MenpoModel.LazyList.getitem_element_only_integer_like",
    "MenpoModel.LazyList.getitem_integer_like_as_list",
    "MenpoModel.LazyList.getitem_slice_new_list",
    "MenpoModel.LazyList.zeroD_coded_refuses",
    "MenpoModel.LazyList.zeroD_repaired_reads",
    "MenpoModel.LazyList.getitemRepaired_conservative",
    "MenpoModel.LazyList.getitemRepaired_zeroDim",
    "MenpoModel.LazyList.map_each_iff",
    "MenpoModel.LazyList.map_single_iff",
    "MenpoModel.LazyList.add_total",
    # Props/C19Slice.lean
    "MenpoModel.PyData.sliceStart_eq_ref",
    "MenpoModel.PyData.sliceStop_eq_ref",
    "MenpoModel.PyData.sliceCount_spec",
    "MenpoModel.PyData.sliceCount_le",
    "MenpoModel.PyData.sliceIndices_eq_ref",
    "MenpoModel.LazyList.slice_resolve_ref",
    # Props/C19Py.lean
    "MenpoModel.LazyList.zipStar_replicate",
    "MenpoModel.LazyList.chain_zip_mul",
    "MenpoModel.LazyList.seqE_listGetInt",
    "MenpoModel.LazyList.getitemFull_ints",
    "MenpoModel.LazyList.getitemFull_slice",
    "MenpoModel.LazyList.getitemFull_sel",
    "MenpoModel.LazyList.getitemFull_int",
    "MenpoModel.LazyList.getitemFull_npInt",
    "MenpoModel.LazyList.getitemFull_readAt",
    "MenpoModel.LazyList.getitem_wrap_never_elem",
    "MenpoModel.LazyList.getitemFull_lazy",
    "MenpoModel.LazyList.getitemFull_outcome",
    "MenpoModel.LazyList.mapFull_single",
    "MenpoModel.LazyList.mapFull_list",
    "MenpoModel.LazyList.mapFull_dispatch",
    "MenpoModel.LazyList.addFull_dispatch",
    # Props/C19PyIO.lean
    "MenpoModel.LazyList.foldl_append_filter",
    "MenpoModel.LazyList.whileG_findSome_eq",
    "MenpoModel.LazyList.findSome?_dictGet",
    "MenpoModel.LazyList.sliceTo_pos",
    "MenpoModel.LazyList.sliceTo_none",
]
GEN_THEOREMS = ["MenpoModel.GenProps.C19." + t for t in extract_c19.OBLIGATIONS]
SRC_THEOREMS = ["MenpoModel.GenProps.C19Src." + t for t in trans_c19.OBLIGATIONS]

JUDGE_ZERO_D = True
IDENT = 7          # function id of the (logged) identity
RES0 = 100         # function ids >= RES0: landmark resolvers (RES0 + frame number)
TARGETS = ["MenpoModel.Props.C19", "MenpoModel.Drive.C19"]


def base_val(b, i):
    return 1000 * (b + 1) + i


def fn_val(f, v):
    if f == IDENT:
        return v
    if f >= RES0:
        return v + 100000 * (f - 99)
    return (f + 2) * v + (f + 1)


# ---------------------------------------------------------------- the scratch directory the importers are run on

EXT_CODE = {".pkl": 0, ".pkl.gz": 1, ".ljson": 2, ".pts": 3, ".png": 4, ".bmp": 5, ".avi": 6, ".mp4": 7}
FILES = {
    "pk": ["f00.pkl", "f01.pkl.gz", "f02.b.pkl", "F03.PKL", "f04.txt", "f05.pkl.bak", "f06.gz.pkl", "f07.pkl", "f08.PKL.GZ"],
    "lm": ["f00.pts", "f01.ljson", "f02.txt", "f03.pts", "f04.x.ljson"],
    "im": ["f00.png", "f01.bmp", "f02.png", "f03.txt", "f04.PNG"],
    "vd": ["f00_n3.avi", "f01_n0.mp4", "f02_n2.mp4", "f03.txt"],
    "em": [],
}
MAIN_PAT = {"pk": "*.pkl", "lm": "*.pts", "im": "*.png", "vd": "*.mp4", "em": "*.pkl"}
N_PAT = 7


def ext_code(ext):
    if ext not in EXT_CODE:
        EXT_CODE[ext] = 20 + len(EXT_CODE)
    return EXT_CODE[ext]


def possible_exts(name):
    """own transcription of the documented rule: every tail of the suffix list, joined, lower-cased, longest first"""
    parts = name.split(".")
    sufs = ["." + p for p in parts[1:]] if len(parts) > 1 and parts[0] != "" else []
    return ["".join(sufs[i:]).lower() for i in range(len(sufs))]


def file_id(name):
    return int(re.match(r"[fF](\d+)", name).group(1))


def n_frames(name):
    m = re.search(r"_n(\d+)", name)
    return int(m.group(1)) if m else 0


def live_maps():
    import menpo.io.input.base as ib
    return {"pk": ib.pickle_types, "lm": ib.image_landmark_types, "im": ib.image_types, "vd": ib.ffmpeg_video_types,
            "em": ib.pickle_types}


def known_codes(fam):
    """codes of the extensions the live extension map of this importer family has now"""
    return [ext_code(e) for e in sorted(live_maps()[fam].keys())]


def chosen_kind(fam, name):
    known = set(live_maps()[fam].keys())
    for e in possible_exts(name):
        if e in known:
            return ext_code(e)
    return None


CUR = [None]      # the World the instrumented importers log into


class Fixture:
    """scratch directory with small pickle / landmark / image / (fake) video files; the extension maps of the
    importers are wrapped so that every call of an importer is logged (and restored on close)"""

    def __init__(self):
        import gzip
        import pickle
        from PIL import Image as PILImage
        import menpo.io as mio
        from menpo.shape import PointCloud
        self.root = os.path.realpath(tempfile.mkdtemp(prefix="c19-"))
        self.saved = []
        try:
            for fam, names in FILES.items():
                d = os.path.join(self.root, fam)
                os.mkdir(d)
                for nm in names:
                    p = os.path.join(d, nm)
                    exts = possible_exts(nm)
                    kind = chosen_kind(fam, nm)
                    i = file_id(nm)
                    if kind is None or fam == "vd":
                        open(p, "w").write("x")
                    elif fam == "pk":
                        val = base_val(kind, i)
                        if kind == EXT_CODE[".pkl.gz"]:
                            with gzip.open(p, "wb") as f:
                                pickle.dump(val, f, protocol=2)
                        else:
                            with open(p, "wb") as f:
                                pickle.dump(val, f, protocol=2)
                    elif fam == "lm":
                        tmp = os.path.join(self.root, "tmp" + [e for e in exts if e in (".pts", ".ljson")][0])
                        mio.export_landmark_file(PointCloud(np.array([[float(i), float(kind)], [1.0, 2.0]])), tmp, overwrite=True)
                        os.replace(tmp, p)
                    elif fam == "im":
                        img = PILImage.fromarray(np.full((2, 3), i, dtype=np.uint8))
                        img.save(p, format="PNG" if exts[-1] == ".png" else "BMP")
            self._instrument()
        except Exception:
            self.close()
            raise

    def _instrument(self):
        import menpo.io.input.video as vid
        seen = set()
        for fam, m in live_maps().items():
            if id(m) in seen:
                continue
            seen.add(id(m))
            for ext in list(m.keys()):
                orig = m[ext]
                self.saved.append((m, ext, orig))
                m[ext] = self._wrap(orig, ext_code(ext))
        self.saved_reader = vid.FFMpegVideoReader
        vid.FFMpegVideoReader = FakeReader

    @staticmethod
    def _wrap(orig, code):
        def importer(filepath, *a, **k):
            w = CUR[0]
            if w is not None:
                w.log.append("a:%d:%d" % (code, file_id(os.path.basename(str(filepath)))))
            return orig(filepath, *a, **k)
        importer.__wrapped__ = orig
        return importer

    def close(self):
        import menpo.io.input.video as vid
        for m, ext, orig in self.saved:
            m[ext] = orig
        self.saved = []
        if getattr(self, "saved_reader", None) is not None:
            vid.FFMpegVideoReader = self.saved_reader
            self.saved_reader = None
        shutil.rmtree(self.root, ignore_errors=True)

    # what a pattern of kind `pk` is, and which names a correct glob lists for it (sorted), independently of pathlib
    def pattern(self, fam, pk):
        d = os.path.join(self.root, fam)
        names = sorted(FILES[fam])
        if pk == 0:
            return d, names
        if pk == 1:
            return os.path.join(d, "*"), names
        if pk == 2:
            pat = MAIN_PAT[fam]
        elif pk == 3:
            pat = "f0*"
        elif pk == 4:
            pat = "*.nomatch"
        elif pk == 5:
            return os.path.join(d, "nonexistent"), None      # neither a glob nor a directory
        else:
            pat = "f*.p*"
        return os.path.join(d, pat), [n for n in names if fnmatch.fnmatchcase(n, pat)]


FX = [None]


class FakeReader:
    """stands in for FFMpegVideoReader (no ffmpeg in the sandbox): frame j of video v is a 2x2 image whose
    channels hold (j, v, 0); reading a frame is logged as base access (10 + v, j)"""

    def __init__(self, filepath, normalize=False, exact_frame_count=True):
        nm = os.path.basename(str(filepath))
        self.vid, self.n = file_id(nm), n_frames(nm)
        self.fps = float(self.vid)
        self.normalize = normalize

    def __len__(self):
        return self.n

    def __getitem__(self, j):
        w = CUR[0]
        if w is not None:
            w.log.append("a:%d:%d" % (10 + self.vid, j))
        a = np.zeros((2, 2, 3), dtype=np.uint8)
        a[..., 0], a[..., 1] = j, self.vid
        return a / 255.0 if self.normalize else a


def obs(x):
    """the integer the model stands for an element: ints are themselves; imported objects carry their identity in
    their data (first pixel / first landmark point / fps), never in anything the harness remembered"""
    if isinstance(x, (int, np.integer)):
        return int(x)
    from menpo.image import Image
    from menpo.base import LazyList

    def px(v):
        return int(round(float(v) * 255)) if np.asarray(v).dtype.kind == "f" else int(v)
    if isinstance(x, Image):
        if hasattr(x, "path"):
            v = base_val(chosen_kind("im", x.path.name), px(x.pixels[0, 0, 0]))
        else:
            v = base_val(10 + px(x.pixels[1, 0, 0]), px(x.pixels[0, 0, 0]))
        if x.has_landmarks and "R" in x.landmarks:
            v += 100000 * (int(round(x.landmarks["R"].points[0, 0])) + 1)
        return v
    if isinstance(x, LazyList):
        return base_val(chosen_kind("vd", x.path.name), int(x.fps))
    if isinstance(x, dict):
        pts = list(x.values())[0].points
        return base_val(int(round(pts[0, 1])), int(round(pts[0, 0])))
    raise TypeError("unobservable element %r" % type(x))


class World:
    """instrumented callables writing into one log"""

    def __init__(self):
        self.log = []

    def base(self, b):
        def g(i):
            self.log.append("a:%d:%d" % (b, i))
            return base_val(b, i)
        return g

    def fn(self, f):
        def h(x):
            v = obs(x)
            self.log.append("c:%d:%d" % (f, v))
            return fn_val(f, v)
        return h

    def image_resolver(self):
        from menpo.shape import PointCloud

        def resolver(path):
            v = base_val(chosen_kind("im", path.name), file_id(path.name))
            self.log.append("c:%d:%d" % (RES0, v))
            return {"R": PointCloud(np.array([[0.0, 0.0]]))}
        return resolver

    def video_resolver(self):
        from menpo.shape import PointCloud

        def resolver(path, j):
            v = base_val(10 + file_id(path.name), j)
            self.log.append("c:%d:%d" % (RES0 + j, v))
            return {"R": PointCloud(np.array([[float(j), float(j)]]))}
        return resolver

    def take(self):
        l, self.log = self.log, []
        return l


# ---------------------------------------------------------------- programs as nested tuples
# ('B', b, n) ('M', f, p) ('E', fs, p) ('SI', ints, kind, p) ('SS', a, b, c, p) ('R', n, p)
# ('A', p, q) ('AS', p) ('AP', vs, kind, p) ('C', p) ('I', f, vs, kind)
# ('G', fam, patkind, max, resolver, normalize)  ('V', video index, resolver)

TAGS = ("B", "M", "E", "SI", "SS", "R", "A", "AS", "AP", "C", "I", "G", "V")


def g_files(p):
    """(pattern, listing or None) of a G leaf on the current fixture"""
    return FX[0].pattern(p[1], p[2])


def g_toks(p):
    fam, mx, res = p[1], p[3], p[4]
    _, names = g_files(p)
    names = names or []
    out = ["G", str(RES0) if (res and fam == "im") else "N"]
    kn = known_codes(fam)
    out += [str(len(kn))] + [str(c) for c in kn]
    out.append(str(len(names)))
    for nm in names:
        ex = [ext_code(e) for e in possible_exts(nm)]
        out += [str(file_id(nm)), str(len(ex))] + [str(c) for c in ex]
    out.append("N" if mx is None else str(mx))
    return out


def v_toks(p):
    nm = FILES["vd"][p[1]]
    b, n = 10 + file_id(nm), n_frames(nm)
    return ["V", str(b), str(n), str(RES0) if p[2] else "N"]


def toks(p):
    t = p[0]
    if t == "B":
        return ["B", str(p[1]), str(p[2])]
    if t == "M":
        return ["M", str(p[1])] + toks(p[2])
    if t == "E":
        return ["E", str(len(p[1]))] + [str(x) for x in p[1]] + toks(p[2])
    if t == "SI":
        return ["SI", str(len(p[1]))] + [str(x) for x in p[1]] + toks(p[3])
    if t == "SS":
        return ["SS"] + ["N" if x is None else str(x) for x in p[1:4]] + toks(p[4])
    if t == "R":
        return ["R", str(p[1])] + toks(p[2])
    if t == "A":
        return ["A"] + toks(p[1]) + toks(p[2])
    if t == "AS":
        return ["A"] + toks(p[1]) + toks(p[1])
    if t == "AP":
        return ["AP", str(len(p[1]))] + [str(x) for x in p[1]] + toks(p[3])
    if t == "C":
        return ["C"] + toks(p[1])
    if t == "I":
        return ["I", "N" if p[1] is None else str(p[1]), str(len(p[2]))] + [str(x) for x in p[2]]
    if t == "G":
        return g_toks(p)
    if t == "V":
        return v_toks(p)
    raise ValueError(t)


def is_prog(x):
    return isinstance(x, tuple) and len(x) > 0 and isinstance(x[0], str) and x[0] in TAGS


def depth(p):
    subs = [x for x in p[1:] if is_prog(x)]
    return 1 + max([depth(s) for s in subs], default=0)


class RefErr(Exception):
    def __init__(self, kind):
        self.kind = kind


def g_expect(p):
    """what an ordinary list of imported objects would hold: [(value, log)] per wrapped path, or RefErr"""
    fam, mx, res = p[1], p[3], p[4]
    _, names = g_files(p)
    if names is None:
        raise RefErr("value")
    matched = [nm for nm in names if chosen_kind(fam, nm) is not None]
    if mx is not None:
        if mx <= 0:
            raise RefErr("value")
        matched = matched[:mx]
    if not matched:
        raise RefErr("value")
    out = []
    for nm in matched:
        k, i = chosen_kind(fam, nm), file_id(nm)
        v, lg = base_val(k, i), ["a:%d:%d" % (k, i)]
        if res and fam == "im":
            lg = lg + ["c:%d:%d" % (RES0, v)]
            v = fn_val(RES0, v)
        out.append((v, lg))
    return out


def ref_eval(p):
    """ordinary-list semantics with provenance: list of (value, expected read log)"""
    t = p[0]
    if t == "B":
        return [(base_val(p[1], i), ["a:%d:%d" % (p[1], i)]) for i in range(p[2])]
    if t == "M":
        return [(fn_val(p[1], v), lg + ["c:%d:%d" % (p[1], v)]) for v, lg in ref_eval(p[2])]
    if t == "E":
        l = ref_eval(p[2])
        if len(p[1]) != len(l):
            raise RefErr("value")
        return [(fn_val(f, v), lg + ["c:%d:%d" % (f, v)]) for f, (v, lg) in zip(p[1], l)]
    if t == "SI":
        l = ref_eval(p[3])
        try:
            return [l[i] for i in p[1]]
        except IndexError:
            raise RefErr("index")
    if t == "SS":
        l = ref_eval(p[4])
        try:
            return l[slice(p[1], p[2], p[3])]
        except ValueError:
            raise RefErr("value")
    if t == "R":
        return [x for x in ref_eval(p[2]) for _ in range(p[1])]
    if t == "A":
        a = ref_eval(p[1])
        return a + ref_eval(p[2])
    if t == "AS":
        a = ref_eval(p[1])
        return a + a
    if t == "AP":
        return ref_eval(p[3]) + [(v, []) for v in p[1]]
    if t == "C":
        return ref_eval(p[1])
    if t == "I":
        if p[1] is None:
            return [(v, []) for v in p[2]]
        return [(fn_val(p[1], v), ["c:%d:%d" % (p[1], v)]) for v in p[2]]
    if t == "G":
        return g_expect(p)
    if t == "V":
        nm = FILES["vd"][p[1]]
        b = 10 + file_id(nm)
        out = []
        for j in range(n_frames(nm)):
            v, lg = base_val(b, j), ["a:%d:%d" % (b, j)]
            if p[2]:
                lg = lg + ["c:%d:%d" % (RES0 + j, v)]
                v = fn_val(RES0 + j, v)
            out.append((v, lg))
        return out
    raise ValueError(t)


def call_importer(p, w, as_generator=False):
    """the real glob importer of a G leaf"""
    import menpo.io as mio
    from pathlib import Path
    fam, mx, res, norm = p[1], p[3], p[4], p[5]
    pat, _ = g_files(p)
    if p[2] % 2 == 1:
        pat = Path(pat)
    # verbose=True (a third of the leaves, fixed by the program): the translated _import_glob_lazy_list says it changes
    # nothing but what is printed (print / print_progress); the output is swallowed, also while a generator is consumed
    verbose = (p[2] + (mx or 0) + len(fam)) % 3 == 0
    import contextlib
    import io

    def call():
        if fam in ("pk", "em"):
            return mio.import_pickles(pat, max_pickles=mx, as_generator=as_generator, verbose=verbose)
        if fam == "lm":
            return mio.import_landmark_files(pat, max_landmarks=mx, as_generator=as_generator, verbose=verbose)
        if fam == "im":
            return mio.import_images(pat, max_images=mx, landmark_resolver=w.image_resolver() if res else None,
                                     normalize=norm, as_generator=as_generator, verbose=verbose)
        return mio.import_videos(pat, max_videos=mx, landmark_resolver=w.video_resolver() if res else None,
                                 normalize=norm, as_generator=as_generator, verbose=verbose)
    if not verbose:
        return call()
    with contextlib.redirect_stdout(io.StringIO()):
        r = call()
    if not as_generator:
        return r

    def quiet(g):
        while True:
            with contextlib.redirect_stdout(io.StringIO()):
                try:
                    x = next(g)
                except StopIteration:
                    return
            yield x
    return quiet(r)


def impl_build(p, w, nodes):
    """build the real LazyList; `nodes` collects (subprogram, object) for the receivers clause"""
    from menpo.base import LazyList
    t = p[0]
    if t == "B":
        r = LazyList.init_from_index_callable(w.base(p[1]), p[2])
    elif t == "M":
        r = impl_build(p[2], w, nodes).map(w.fn(p[1]))
    elif t == "E":
        fs = [w.fn(f) for f in p[1]]
        r = impl_build(p[2], w, nodes).map(tuple(fs) if sum(p[1]) % 3 == 0 else fs)
    elif t == "SI":
        ints, kind = p[1], p[2]
        if kind == "list":
            idx = list(ints)
        elif kind == "tuple":
            idx = tuple(ints)
        elif kind == "ndarray":
            idx = np.array(ints, dtype=np.int64)
        elif kind == "gen":
            idx = (i for i in ints)
        elif kind == "int16":
            idx = np.array(ints, dtype=np.int16)
        elif kind == "pybool" and all(i in (0, 1) for i in ints):
            idx = [bool(i) for i in ints]      # Python bools are ints: [True, False] picks elements 1 and 0
        elif kind == "range" and len(ints) >= 2 and ints[1] != ints[0] and \
                list(range(ints[0], ints[0] + (ints[1] - ints[0]) * len(ints), ints[1] - ints[0])) == list(ints):
            idx = range(ints[0], ints[0] + (ints[1] - ints[0]) * len(ints), ints[1] - ints[0])
        else:
            idx = [np.int32(i) for i in ints]
        r = impl_build(p[3], w, nodes)[idx]
    elif t == "SS":
        a, b, c = p[1:4]
        if ((a or 0) + (b or 0)) % 2 == 1:      # numpy integers as slice bounds
            a, b = (None if a is None else np.int64(a)), (None if b is None else np.int32(b))
        r = impl_build(p[4], w, nodes)[slice(a, b, c)]
    elif t == "R":
        r = impl_build(p[2], w, nodes).repeat(p[1])
    elif t == "A":
        a = impl_build(p[1], w, nodes)
        r = a + impl_build(p[2], w, nodes)
    elif t == "AS":
        a = impl_build(p[1], w, nodes)
        r = a + a
    elif t == "AP":
        vs = {"list": list, "tuple": tuple, "gen": (lambda q: (x for x in q)), "array": np.array}[p[2]](p[1])
        r = impl_build(p[3], w, nodes) + vs
    elif t == "C":
        r = impl_build(p[1], w, nodes).copy()
    elif t == "I":
        vs = {"list": list, "tuple": tuple, "gen": (lambda q: (x for x in q))}[p[3]](p[2])
        r = LazyList.init_from_iterable(vs) if p[1] is None else LazyList.init_from_iterable(vs, f=w.fn(p[1]))
    elif t == "G":
        r = call_importer(p, w)
    elif t == "V":
        import menpo.io as mio
        nm = FILES["vd"][p[1]]
        pre = len(w.log)
        r = mio.import_video(os.path.join(FX[0].root, "vd", nm), landmark_resolver=w.video_resolver() if p[2] else None,
                             normalize=False)
        opened = w.log[pre:]
        del w.log[pre:]
        if opened != ["a:%d:%d" % (chosen_kind("vd", nm), file_id(nm))]:
            w.log.append("import_video evaluated %r" % (opened,))      # shows up as construction-evaluated
    else:
        raise ValueError(t)
    nodes.append((p, r))
    return r


def gen_leaf(rng, nb):
    k = rng.random()
    if k < 0.62:
        return ("B", rng.randrange(nb), rng.choice([0, 0, 1, 1, 2, 3, 3, 4, 5, 6, 7]))
    if k < 0.74:
        f = None if rng.random() < 0.4 else rng.choice([0, 1, 2, 3, IDENT])
        vs = tuple(rng.randint(-30, 30) for _ in range(rng.choice([0, 1, 2, 3, 5])))
        return ("I", f, vs, rng.choice(["list", "tuple", "gen"]))
    if k < 0.94:
        fam = rng.choice(["pk", "pk", "lm", "im", "im", "vd", "em"])
        mx = rng.choice([None, None, None, 1, 2, 3, 10, 0, -1]) if rng.random() < 0.9 else None
        return ("G", fam, rng.randrange(N_PAT), mx, rng.random() < 0.5, rng.random() < 0.5)
    return ("V", rng.choice([0, 0, 1, 2]), rng.random() < 0.6)


def gen_prog(rng, max_depth, nb):
    """bottom-up, mostly valid; stops growing at the first erroring node"""
    def grow(d):
        if d <= 1 or rng.random() < 0.12:
            return gen_leaf(rng, nb)
        sub = grow(d - 1)
        try:
            n = len(ref_eval(sub))
        except RefErr:
            return sub
        k = rng.random()
        if k < 0.16:
            return ("M", rng.choice([0, 1, 2, 3, IDENT]), sub)
        if k < 0.27:
            m = n if rng.random() < 0.9 else max(0, n + rng.choice([-1, 1, 2]))
            return ("E", tuple(rng.choice([0, 1, 2, 3, IDENT]) for _ in range(m)), sub)
        if k < 0.43:
            kind = rng.choice(["list", "tuple", "ndarray", "gen", "npint", "int16", "range", "pybool"])
            if kind == "pybool":
                if n >= 2:
                    return ("SI", tuple(rng.randint(0, 1) for _ in range(rng.randint(0, 4))), kind, sub)
                kind = "list"
            if kind == "range" and n >= 2:
                st = rng.choice([1, 2, -1])
                a0 = rng.randint(0, n - 1)
                ints = [i for i in range(a0, a0 + st * rng.randint(2, 4), st) if -n <= i < n]
                if len(ints) < 2:
                    kind = "list"
                return ("SI", tuple(ints), kind, sub)
            m = rng.choice([0, 1, 2, 3, 5])
            lo, hi = (-n, n - 1) if n else (0, 0)
            ints = []
            for _ in range(m):
                if n == 0 or rng.random() < 0.04:
                    ints.append(rng.choice([n, -n - 1, n + 2]))
                else:
                    ints.append(rng.randint(lo, hi))
            return ("SI", tuple(ints), "list" if kind == "range" else kind, sub)
        if k < 0.64:
            def bound():
                return None if rng.random() < 0.3 else rng.randint(-n - 2, n + 2)
            step = rng.choice([None, 1, 1, 2, 3, -1, -1, -2, -3]) if rng.random() > 0.03 else 0
            return ("SS", bound(), bound(), step, sub)
        if k < 0.73:
            return ("R", rng.choice([0, 0, 1, 2, 2, 3, -1]), sub)
        if k < 0.83:
            return ("A", sub, grow(rng.randint(1, max(1, d - 1))))
        if k < 0.88:
            return ("AS", sub)
        if k < 0.95:
            return ("AP", tuple(rng.randint(-50, 50) for _ in range(rng.randint(0, 3))),
                    rng.choice(["list", "tuple", "gen", "array"]), sub)
        return ("C", sub)

    return grow(rng.randint(2, max_depth))


def subseq(lg, elg):
    """the property bounds what a read evaluates FROM ABOVE ("evaluates only what that element depends on"): the oracle
    accepts any sub-sequence of the dependency chain (an implementation that remembers an evaluated element satisfies
    the text); exact equality of the logs is still compared with the Lean model (correspondence, not oracle)"""
    it = iter(elg)
    return all(any(x == y for y in it) for x in lg)


def fmt_log(lg):
    return ",".join(lg) if lg else "-"


def safe_obs(x):
    try:
        return obs(x)
    except Exception:      # noqa: BLE001
        return "unobservable:" + type(x).__name__


def run_program(ctx, p, reads_rng, extra=None):
    """run one program on the real code + oracle; returns the implementation observation string
    in the model's output format (for the correspondence diff).  `extra` (a list) receives further
    (driver request, implementation observation, replay) triples: read sequences, iteration, mix-ins"""
    site = "C19/program"
    w = World()
    CUR[0] = w
    nodes = []
    rp = {"program": toks(p), "program_tree": repr(p)}
    try:
        expect = ref_eval(p)
        exp_err = None
    except RefErr as e:
        expect, exp_err = None, e.kind
    try:
        ll = impl_build(p, w, nodes)
        got_err = None
    except IndexError:
        ll, got_err = None, "index"
    except ValueError:
        ll, got_err = None, "value"
    except Exception as e:  # any other exception type is not what an ordinary list would do
        ll, got_err = None, "other:" + type(e).__name__
    built_log = w.take()
    ctx.check(not built_log, site, "construction-evaluated", "building a lazy list invoked callables: %r" % built_log[:6],
              dict(rp, log=built_log[:20]))
    if exp_err is not None or got_err is not None:
        ctx.check(exp_err == got_err, site, "error-kind",
                  "ordinary list semantics gives %r, LazyList gives %r" % (exp_err or "ok", got_err or "ok"), rp)
        ctx.count("err:" + str(exp_err))
        # a refused operation leaves every list built so far as it was
        for sub, obj in nodes:
            try:
                sexp = ref_eval(sub)
                vals = [safe_obs(obj[k]) for k in range(len(obj))]
            except Exception:      # noqa: BLE001
                continue
            w.take()
            ctx.check(vals == [e[0] for e in sexp], site, "receiver-changed-by-refused-operation",
                      "a list a refused operation was applied to no longer behaves as before", dict(rp, receiver=toks(sub)))
        return "err " + got_err if got_err else None
    # length
    n = len(ll)
    ctx.check(n == len(expect), site, "length", "len %d, ordinary list %d" % (n, len(expect)), rp)
    out = ["ok %d" % n]
    # every element, with the log of that single read
    for j in range(n):
        try:
            v = safe_obs(ll[j])
        except Exception as e:
            ctx.fail(site, "read-raises", "reading element %d raised %s" % (j, type(e).__name__), rp)
            return None
        lg = w.take()
        out.append("%s %s" % (v, fmt_log(lg)))
        if j < len(expect):
            ev, elg = expect[j]
            ctx.check(v == ev, site, "value", "element %d is %r, ordinary list gives %r" % (j, v, ev), dict(rp, index=j))
            ctx.check(subseq(lg, elg), site, "read-log",
                      "reading element %d evaluated %r, its dependencies are %r" % (j, lg, elg), dict(rp, index=j))
    if len(expect) != n:
        return " ".join(out)
    vals = [e[0] for e in expect]
    tk = " ".join(toks(p))
    # a sequence of integer reads (negative, out of range, repeated, numpy integer types): no memo
    idxs, res, seq_log, exp_log = [], [], [], []
    for _ in range(reads_rng.randint(2, 4)):
        i = reads_rng.randint(-n - 1, n)
        idxs += [i, i] if reads_rng.random() < 0.35 else [i]
    for i in idxs:
        r = reads_rng.random()
        key = np.int64(i) if r < 0.2 else (np.int16(i) if r < 0.3 else (bool(i) if r < 0.4 and i in (0, 1) else i))
        try:
            v = safe_obs(ll[key])
            ok = True
        except IndexError:
            ok = False
        except Exception as e:      # noqa: BLE001
            ctx.fail(site, "int-index", "ll[%r] raised %s" % (key, type(e).__name__), dict(rp, index=i))
            ok = False
        seq_log += w.take()
        try:
            ev, elg = expect[i]
            eok = True
        except IndexError:
            eok, elg = False, []
        exp_log += elg
        res.append(str(v) if ok else "E")
        ctx.check(ok == eok and (not ok or v == ev), site, "int-index",
                  "ll[%d]: %s vs ordinary list %s" % (i, v if ok else "IndexError", ev if eok else "IndexError"), dict(rp, index=i))
    ctx.check(subseq(seq_log, exp_log), site, "reads-log",
              "reads %r evaluated %r; the dependency chains of those elements, once per read, are %r" % (idxs, seq_log[:12], exp_log[:12]),
              dict(rp, reads=idxs))
    if extra is not None:
        extra.append(("reads %d %s %s" % (len(idxs), " ".join(str(i) for i in idxs), tk),
                      "ok " + " ".join(res) + " # " + fmt_log(seq_log), dict(rp, reads=idxs)))
    # iteration: every element exactly once, in order
    it = [safe_obs(x) for x in ll]
    it_log = w.take()
    all_log = [x for e in expect for x in e[1]]
    ctx.check(it == vals, site, "iteration", "list(ll) differs from the ordinary list", rp)
    ctx.check(subseq(it_log, all_log), site, "iteration-log",
              "iterating evaluated %r, every element once in order is %r" % (it_log[:12], all_log[:12]), rp)
    if extra is not None:
        extra.append(("iter " + tk, "ok %d%s # %s" % (len(it), "".join(" %s" % v for v in it), fmt_log(it_log)), rp))
    # one of the other ways of reading
    mode = reads_rng.choice(["prefix", "contains", "index", "count", "reversed", "0d"])
    if mode == "prefix":
        k = reads_rng.randint(0, n + 1)
        g = iter(ll)
        got = []
        for _ in range(k):
            try:
                got.append(safe_obs(next(g)))
            except StopIteration:
                break
        lg = w.take()
        ek = min(k, n)
        ctx.check(got == vals[:ek] and subseq(lg, [x for e in expect[:ek] for x in e[1]]), site, "generator-prefix",
                  "consuming %d items gave %r and evaluated %r" % (k, got, lg[:12]), dict(rp, consumed=k))
        obs_s, req = "ok %d%s # %s" % (len(got), "".join(" %s" % v for v in got), fmt_log(lg)), "prefix %d %s" % (k, tk)
    elif mode in ("contains", "index", "count"):
        v = reads_rng.choice(vals) if vals and reads_rng.random() < 0.7 else 987654
        first = vals.index(v) if v in vals else None
        plog = [x for e in (expect if first is None or mode == "count" else expect[:first + 1]) for x in e[1]]
        wrapped = _Obs(ll)
        try:
            if mode == "contains":
                r = v in wrapped
                want, obs_s = (v in vals), "ok %d" % int(r)
            elif mode == "count":
                r = wrapped.count(v)
                want, obs_s = vals.count(v), "ok %d" % r
            else:
                try:
                    r = wrapped.index(v)
                except ValueError:
                    r = None
                want, obs_s = first, "ok %s" % ("none" if r is None else r)
        except Exception as e:      # noqa: BLE001
            ctx.fail(site, "mixin-raises", "%s raised %s" % (mode, type(e).__name__), dict(rp, value=v))
            return " ".join(out)
        lg = w.take()
        ctx.check(r == want and lg == plog, site, "sequence-" + mode,
                  "%s(%d) gave %r (ordinary list %r) and evaluated %r (expected %r)" % (mode, v, r, want, lg[:10], plog[:10]),
                  dict(rp, value=v))
        obs_s, req = obs_s + " # " + fmt_log(lg), "%s %d %s" % (mode, v, tk)
    elif mode == "reversed":
        got = [safe_obs(x) for x in reversed(ll)]
        lg = w.take()
        ctx.check(got == vals[::-1] and subseq(lg, [x for e in expect[::-1] for x in e[1]]), site, "sequence-reversed",
                  "reversed(ll) gave %r and evaluated %r" % (got, lg[:12]), rp)
        obs_s, req = "ok%s # %s" % ("".join(" %s" % v for v in got), fmt_log(lg)), "reversed " + tk
    else:
        # an integer index given as a 0-dimensional integer array: an ordinary list returns the element
        i = reads_rng.randint(-n - 1, n)
        try:
            ev, elg = expect[np.array(i)]
            want = "ok %s %s" % (ev, fmt_log(elg))
        except IndexError:
            want = "err index"
        try:
            got = "ok %s" % safe_obs(ll[np.array(i)])
            got += " " + fmt_log(w.take())
        except IndexError:
            got = "err index"
        except TypeError:
            got = "err type"
        except Exception as e:      # noqa: BLE001
            got = "err other:" + type(e).__name__
        w.take()
        ctx.check(got == want or not JUDGE_ZERO_D, "C19/getitem-0d-array", "refused",
                  "ll[np.array(%d)] gives %r; an ordinary list of the same elements gives %r" % (i, got, want),
                  {"program": rp["program"], "program_tree": rp["program_tree"], "index": i,
                   "python": "ll[np.array(%d)]  # vs  list(ll)[np.array(%d)]" % (i, i)})
        obs_s, req = got, "get0d ? %d %s" % (i, tk)
    if extra is not None:
        extra.append((req, obs_s, rp))
    ctx.count("read-mode:" + mode)
    # receivers behave as before: every intermediate list still equals its own reference
    for sub, obj in nodes[:-1]:
        try:
            sexp = ref_eval(sub)
        except RefErr:
            continue
        rv = None
        try:
            rv = [safe_obs(obj[k]) for k in range(len(obj))]
        except Exception:
            pass
        lg = w.take()
        ctx.check(rv == [e[0] for e in sexp] and subseq(lg, [x for e in sexp for x in e[1]]), site, "receiver-changed",
                  "a list an operation was applied to no longer behaves as before", dict(rp, receiver=toks(sub)))
    return " ".join(out)


class _Obs:
    """view of a lazy list through `obs` for the Sequence mix-ins (which compare elements with ==); the mix-in
    methods themselves are the inherited ones of the wrapped object's class"""

    def __init__(self, ll):
        self.ll = ll

    def __contains__(self, v):
        return type(self.ll).__contains__(_ObsSeq(self.ll), v)

    def index(self, v):
        return type(self.ll).index(_ObsSeq(self.ll), v)

    def count(self, v):
        return type(self.ll).count(_ObsSeq(self.ll), v)


class _ObsSeq:
    def __init__(self, ll):
        self.ll = ll

    def __getitem__(self, i):
        return obs(self.ll[i])

    def __len__(self):
        return len(self.ll)

    def __iter__(self):
        return type(self.ll).__iter__(self)


def generator_case(ctx, rng, lines, pending):
    """as_generator=True of a glob importer: nothing imported until consumed, k items import the first k paths"""
    site = "C19/importer-generator"
    p = ("G", rng.choice(["pk", "pk", "lm", "im", "vd"]), rng.randrange(N_PAT), rng.choice([None, None, 1, 2, 3, 0]),
         rng.random() < 0.5, rng.random() < 0.5)
    w = World()
    CUR[0] = w
    rp = {"program": toks(p), "program_tree": repr(p), "as_generator": True}
    try:
        expect, exp_err = ref_eval(p), None
    except RefErr as e:
        expect, exp_err = None, e.kind
    try:
        g, got_err = call_importer(p, w, as_generator=True), None
    except ValueError:
        g, got_err = None, "value"
    except Exception as e:      # noqa: BLE001
        g, got_err = None, "other:" + type(e).__name__
    ctx.case(("gen",) + p, nontrivial=True, sample={"generator": " ".join(toks(p))})
    ctx.check(not w.take(), site, "construction-evaluated", "creating the generator imported something", rp)
    if not ctx.check(exp_err == got_err, site, "error-kind",
                     "expected %r, importer gave %r" % (exp_err or "ok", got_err or "ok"), rp) or got_err:
        return
    ctx.check(not hasattr(g, "__len__") and hasattr(g, "__next__"), site, "not-a-generator", "as_generator=True did not return a generator", rp)
    k = rng.randint(0, len(expect) + 1)
    got = []
    for _ in range(k):
        try:
            got.append(safe_obs(next(g)))
        except StopIteration:
            break
    lg = w.take()
    ek = min(k, len(expect))
    ctx.check(got == [e[0] for e in expect[:ek]] and subseq(lg, [x for e in expect[:ek] for x in e[1]]), site, "generator-prefix",
              "consuming %d items gave %r and evaluated %r" % (k, got, lg[:12]), dict(rp, consumed=k))
    cid = "g%d" % len(lines)
    lines.append("%s prefix %d %s" % (cid, k, " ".join(toks(p))))
    pending[cid] = ("ok %d%s # %s" % (len(got), "".join(" %s" % v for v in got), fmt_log(lg)), dict(rp, consumed=k), "prefix")
    rest = [safe_obs(x) for x in g]
    lg = w.take()
    ctx.check(rest == [e[0] for e in expect[ek:]] and subseq(lg, [x for e in expect[ek:] for x in e[1]]), site, "generator-rest",
              "the rest of the generator gave %r and evaluated %r" % (rest, lg[:12]), dict(rp, consumed=k))


NONCALLABLE = [5, None, 1.5, 0, True]


def noncallable_case(ctx, rng, lines, pending):
    """ll.map(x) with x neither callable nor iterable is accepted lazily; the read raises TypeError after the wrapped
    callable (and every callable function below x) has been evaluated, and leaves the lists as they were"""
    site = "C19/map-noncallable"
    sub = gen_prog(rng, 5, 3)
    try:
        expect = ref_eval(sub)
    except RefErr:
        return
    if not expect:
        return
    w = World()
    CUR[0] = w
    nodes = []
    try:
        ll = impl_build(sub, w, nodes)
    except Exception:      # noqa: BLE001
        return
    from menpo.base import LazyList
    if not isinstance(ll, LazyList):
        # an operation on lazy lists returned something that is not a lazy list (seeded C19-3): an oracle failure of
        # this case, not a harness crash further down
        ctx.fail(site, "not-a-lazy-list", "the program builds a %s instead of a LazyList" % type(ll).__name__,
                 {"program": toks(sub), "program_tree": repr(sub)})
        return
    chain, p = [], sub
    BAD = 99
    pos = rng.randint(0, 2)
    refused_at_map = False
    for k in range(3):
        if k == pos:
            try:
                ll = ll.map(rng.choice(NONCALLABLE))
            except Exception:      # noqa: BLE001
                # the property's `map` takes "a single callable or one per element": refusing anything else at map time
                # satisfies the text as well as accepting it lazily (what menpo does) - provided nothing was evaluated
                refused_at_map = True
                break
            chain.append(BAD)
            p = ("M", BAD, p)
        elif rng.random() < 0.7:
            f = rng.randrange(4)
            ll = ll.map(w.fn(f))
            chain.append(f)
            p = ("M", f, p)
    rp = {"program": toks(p), "program_tree": repr(p), "non_callable_function_id": BAD}
    ctx.case(("noncallable",) + tuple(toks(p)), nontrivial=True)
    ctx.check(not w.take(), site, "construction-evaluated", "mapping a non-callable evaluated something", rp)
    if refused_at_map:
        ctx.count("map-noncallable:refused-at-map-time")
        return
    ctx.count("map-noncallable:accepted-lazily")
    i = rng.randrange(len(expect))
    v, lg = expect[i]
    for f in chain:
        if f == BAD:
            break
        lg = lg + ["c:%d:%d" % (f, v)]
        v = fn_val(f, v)
    try:
        r = ll[i]
        got = "ok %s" % safe_obs(r)
    except TypeError:
        got = "errx type"
    except Exception as e:      # noqa: BLE001
        got = "err other:" + type(e).__name__
    glog = w.take()
    # judged: the read cannot produce a value (there is no function to apply) and evaluates at most the element's own
    # chain below the non-callable; the exception kind and the exact footprint are compared with the model only
    ctx.check(not got.startswith("ok") and subseq(glog, lg), site, "footprint",
              "reading through a non-callable gave %r and evaluated %r (the element's chain below it is %r)" % (got, glog, lg),
              dict(rp, index=i))
    try:
        vals = [safe_obs(nodes[-1][1][k]) for k in range(len(expect))]
    except Exception as e:      # noqa: BLE001
        vals = "raised " + type(e).__name__
    w.take()
    ctx.check(vals == [e[0] for e in expect], site, "receiver-changed",
              "the mapped list changed after the failed read: %r vs %r" % (vals, [e[0] for e in expect]), rp)
    cid = "x%d" % len(lines)
    lines.append("%s readx 1 %d %d %s" % (cid, BAD, i, " ".join(toks(p))))
    pending[cid] = (got + " " + fmt_log(glog), dict(rp, index=i), "readx")


def special_cases(ctx):
    """error kinds outside the program grammar"""
    from menpo.base import LazyList
    site = "C19/special"
    w = World()
    CUR[0] = w
    ll = LazyList.init_from_index_callable(w.base(0), 3)

    class CallIter(list):
        def __call__(self, x):
            return x
    # Judged: only what the property text states.  An index an ordinary list refuses must be refused (by ANY exception:
    # the text names no exception kinds), nothing may be evaluated and the list must read as before.  Which exception is
    # raised, and what `map` / `+` do with arguments outside the property's grammar (a callable iterable, a generator of
    # callables, a non-iterable right operand), is OBSERVED (evidence notes; the exception kinds of the argument
    # catalogue are tied to the model by the regenerated dispatch tables), never an oracle failure.
    observed = {}
    for what, f, exc, judged in [
            ("ambiguous callable-iterable to map", lambda: ll.map(CallIter([1, 2, 3])), ValueError, False),
            ("non-iterable +", lambda: ll + 5, ValueError, False),
            ("generator of callables to map (no len)", lambda: ll.map(w.fn(k) for k in range(3)), TypeError, False),
            ("float index", lambda: ll[1.5], TypeError, True),
            ("None index", lambda: ll[None], TypeError, True),
            ("slice step 0", lambda: ll[::0], ValueError, True),
            ("slice with float bound", lambda: ll[1.0:], TypeError, True)]:
        try:
            f()
            got = "accepted"
        except Exception as e:      # noqa: BLE001
            got = type(e).__name__
        observed[what] = got
        ctx.case(("special", what), nontrivial=True)
        ctx.count("special:%s:%s" % (what, "as-modelled" if got == exc.__name__ else got))
        if judged:
            ctx.check(got != "accepted", site, "not-refused", what + ": an ordinary list refuses it, the lazy list accepts it",
                      {"case": what})
    ctx.notes["special_arguments_observed"] = observed
    ctx.check(not w.take(), site, "construction-evaluated", "refused / special operations evaluated something", {})
    ctx.check([ll[k] for k in range(3)] == [base_val(0, k) for k in range(3)], site, "receiver-changed",
              "refused / special operations changed the list", {})
    w.take()
    ctx.notes["str_of_lazy_list"] = str(ll)
    ctx.check(len(ll) == 3 and bool(ll) and not w.take(), site, "construction-evaluated",
              "len() / bool() / str() of a lazy list evaluated elements or misreport the length", {})
    # init_from_iterable with and without f
    l2 = LazyList.init_from_iterable([5, 6, 7], f=w.fn(1))
    ctx.check(not w.take(), site, "construction-evaluated", "init_from_iterable evaluated", {})
    ctx.check(l2[1] == fn_val(1, 6) and w.take() == ["c:1:6"], site, "value", "init_from_iterable element", {})
    ctx.case(("special", "init_from_iterable"), nontrivial=True)
    # informational (not judged: pickling is not named by the property)
    import pickle
    note = {}
    for name, mk in [("init_from_iterable(f=abs)", lambda: LazyList.init_from_iterable([1, -2, 3], f=abs)),
                     ("init_from_iterable()", lambda: LazyList.init_from_iterable([1, 2])),
                     ("init_from_index_callable(abs, 3).map(abs)", lambda: LazyList.init_from_index_callable(abs, 3).map(abs))]:
        try:
            back = pickle.loads(pickle.dumps(mk()))
            note[name] = "round trip ok: %r" % (list(back),)
        except Exception as e:      # noqa: BLE001
            note[name] = "cannot be pickled: %s" % type(e).__name__
    ctx.notes["pickling_of_lazy_lists"] = note


def subprograms(p):
    out = [p]
    for x in p[1:]:
        if is_prog(x):
            out += subprograms(x)
    return out


def shrink(ctx):
    """replace each recorded failing program by its smallest failing subprogram (delta debugging over the tree)"""
    out = []
    for site, pattern, text, rp in ctx.failures:
        tree = rp.get("program_tree")
        best = None
        if site == "C19/getitem-0d-array":
            # the smallest demonstration is independent of the program it was first seen on
            from menpo.base import LazyList
            try:
                seen = repr(LazyList.init_from_iterable([10, 11, 12])[np.array(1)])
            except Exception as e:      # noqa: BLE001
                seen = "%s: %s" % (type(e).__name__, e)
            if seen != "11":
                out.append((site, pattern,
                            "LazyList.init_from_iterable([10, 11, 12])[np.array(1)] gives %s; the ordinary list "
                            "[10, 11, 12][np.array(1)] gives 11 (a 0-dimensional integer array is an integer index)" % seen,
                            {"python": "import numpy as np; from menpo.base import LazyList; "
                                       "LazyList.init_from_iterable([10, 11, 12])[np.array(1)]",
                             "observed": seen, "ordinary_list": "[10, 11, 12][np.array(1)] == 11",
                             "first_seen_on": rp.get("program"), "index": rp.get("index"),
                             "proposed_fix": "notes/fixes/C19-getitem-zero-dim-array-index.diff"}))
                continue
        if tree and not rp.get("as_generator") and "non_callable_function_id" not in rp:
            for sub in sorted(subprograms(eval(tree)), key=lambda q: len(toks(q))):
                for s in range(4):
                    c = ctx.scratch()
                    try:
                        run_program(c, sub, random.Random(s))
                    except Exception:      # noqa: BLE001
                        continue
                    hit = [f for f in c.failures if f[1] == pattern]
                    if hit:
                        best = hit[0]
                        break
                if best is not None:
                    break
        if best is not None:
            rp = dict(best[3], minimised_from=rp.get("program"))
            text = best[2]
        out.append((site, pattern, text, rp))
    ctx.failures[:] = out


# ---------------------------------------------------------------- heap histories: operations on aliased list objects

def heap_history(ctx, rng, lines, pending):
    """a sequence of operations whose operands are earlier list objects (aliasing, re-use, refused operations) with
    reads and iterations in between; afterwards EVERY list object is re-read and compared with the ordinary-list
    reference and with the model; the log of the whole history is compared too"""
    from menpo.base import LazyList
    site = "C19/heap"
    w = World()
    CUR[0] = w
    objs, refs, ops_tok = [], [], []
    exp_log = []
    n_ops = rng.randint(3, 10)
    for _ in range(n_ops):
        kind = rng.choice(["hb", "hm", "he", "hsi", "hss", "hr", "ha", "hp", "hc", "hi", "hg"]) if objs else rng.choice(["hb", "hi", "hg"])
        a = rng.randrange(len(objs)) if objs else 0
        try:
            if kind == "hb":
                b, n = rng.randrange(3), rng.randint(0, 5)
                tok, new, ref = ["hb", b, n], (lambda: LazyList.init_from_index_callable(w.base(b), n)), \
                    [(base_val(b, i), ["a:%d:%d" % (b, i)]) for i in range(n)]
            elif kind == "hi":
                q = ("I", rng.choice([None, 0, 2, IDENT]), tuple(rng.randint(-9, 9) for _ in range(rng.randint(0, 4))), "list")
                tok, new, ref = ["hi"] + toks(q)[1:], (lambda: impl_build(q, w, [])), ref_eval(q)
            elif kind == "hg":
                q = ("G", rng.choice(["pk", "lm", "im"]), rng.randrange(N_PAT), rng.choice([None, None, 2, 0]), rng.random() < 0.5, False)
                tok, new = ["hg"] + toks(q)[1:], (lambda: impl_build(q, w, []))
                try:
                    ref = ref_eval(q)
                except RefErr as e:
                    ref = e.kind
            elif kind == "hm":
                f = rng.choice([0, 1, 2, 3, IDENT])
                tok, new, ref = ["hm", f, a], (lambda: objs[a].map(w.fn(f))), \
                    [(fn_val(f, v), lg + ["c:%d:%d" % (f, v)]) for v, lg in refs[a]]
            elif kind == "he":
                m = len(refs[a]) if rng.random() < 0.85 else len(refs[a]) + 1
                fs = [rng.randrange(4) for _ in range(m)]
                tok, new = ["he", m] + fs + [a], (lambda: objs[a].map([w.fn(f) for f in fs]))
                ref = [(fn_val(f, v), lg + ["c:%d:%d" % (f, v)]) for f, (v, lg) in zip(fs, refs[a])] if m == len(refs[a]) else "value"
            elif kind == "hsi":
                n = len(refs[a])
                ints = [rng.randint(-n, n - 1) if n and rng.random() < 0.95 else n + 1 for _ in range(rng.randint(0, 4))]
                tok, new = ["hsi", len(ints)] + ints + [a], (lambda: objs[a][list(ints)])
                try:
                    ref = [refs[a][i] for i in ints]
                except IndexError:
                    ref = "index"
            elif kind == "hss":
                n = len(refs[a])
                bd = lambda: None if rng.random() < 0.3 else rng.randint(-n - 2, n + 2)
                sl = (bd(), bd(), rng.choice([None, 1, 2, -1, -2, 3, 0]))
                tok, new = ["hss"] + ["N" if x is None else x for x in sl] + [a], (lambda: objs[a][slice(*sl)])
                ref = refs[a][slice(*sl)] if sl[2] != 0 else "value"
            elif kind == "hr":
                n = rng.randint(-1, 3)
                tok, new, ref = ["hr", n, a], (lambda: objs[a].repeat(n)), [x for x in refs[a] for _ in range(n)]
            elif kind == "ha":
                b = a if rng.random() < 0.3 else rng.randrange(len(objs))
                tok, new, ref = ["ha", a, b], (lambda: objs[a] + objs[b]), refs[a] + refs[b]
            elif kind == "hp":
                vs = [rng.randint(-9, 9) for _ in range(rng.randint(0, 3))]
                tok, new, ref = ["hp", len(vs)] + vs + [a], (lambda: objs[a] + list(vs)), refs[a] + [(v, []) for v in vs]
            else:
                tok, new, ref = ["hc", a], (lambda: objs[a].copy()), list(refs[a])
            ops_tok.append(" ".join(str(x) for x in tok))
            try:
                r = new()
                got_err = None
            except IndexError:
                r, got_err = None, "index"
            except ValueError:
                r, got_err = None, "value"
            exp_err = ref if isinstance(ref, str) else None
            rp = {"ops": list(ops_tok)}
            if not ctx.check(got_err == exp_err, site, "error-kind",
                             "operation %r: ordinary lists give %s, LazyList gives %s" % (ops_tok[-1], exp_err or "ok", got_err or "ok"), rp):
                return
            if got_err is None and not isinstance(r, LazyList):
                ctx.fail(site, "not-a-lazy-list", "operation %r returned a %s instead of a LazyList" % (ops_tok[-1], type(r).__name__), rp)
                return
            if got_err is None:
                objs.append(r)
                refs.append(ref)
            ctx.check(not w.log, site, "construction-evaluated", "operation %r evaluated callables: %r" % (ops_tok[-1], w.log[:5]), rp)
            del w.log[:]
            # reads in between
            while objs and rng.random() < 0.35:
                c = rng.randrange(len(objs))
                if rng.random() < 0.7:
                    n = len(refs[c])
                    i = rng.randint(-n - 1, n)
                    ops_tok.append("rd %d %d" % (c, i))
                    try:
                        v, ok = safe_obs(objs[c][i]), True
                    except IndexError:
                        v, ok = None, False
                    try:
                        (ev, elg), eok = refs[c][i], True
                    except IndexError:
                        (ev, elg), eok = (None, []), False
                    lg = w.take()
                    ctx.check(ok == eok and v == ev and subseq(lg, elg), site, "read-in-history",
                              "objs[%d][%d] gave %r / evaluated %r, expected %r / %r" % (c, i, v, lg, ev, elg), {"ops": list(ops_tok)})
                    exp_log += lg
                else:
                    ops_tok.append("it %d" % c)
                    got = [safe_obs(x) for x in objs[c]]
                    lg = w.take()
                    ctx.check(got == [e[0] for e in refs[c]] and subseq(lg, [x for e in refs[c] for x in e[1]]), site, "iterate-in-history",
                              "list(objs[%d]) gave %r / evaluated %r" % (c, got, lg[:10]), {"ops": list(ops_tok)})
                    exp_log += lg
        except Exception as e:      # noqa: BLE001
            ctx.fail(site, "raises", "operation %r raised %s" % (ops_tok[-1] if ops_tok else kind, type(e).__name__), {"ops": list(ops_tok)})
            return
    rp = {"ops": ops_tok}
    cells = []
    for k, (o, ref) in enumerate(zip(objs, refs)):
        try:
            vals = [safe_obs(o[j]) for j in range(len(o))]
        except Exception as e:      # noqa: BLE001
            ctx.fail(site, "read-raises", "reading list object %d after the history raised %s" % (k, type(e).__name__), rp)
            return
        lg = w.take()
        ctx.check(vals == [e[0] for e in ref] and subseq(lg, [x for e in ref for x in e[1]]), site, "receiver-changed",
                  "list object %d no longer holds / evaluates what the operation that created it returned: %r vs %r" % (
                      k, vals, [e[0] for e in ref]), rp)
        cells.append(" | %d%s" % (len(vals), "".join(" %s" % v for v in vals)))
    ctx.case(("heap", tuple(ops_tok)), nontrivial=len(objs) >= 3, sample={"heap_history": ops_tok})
    ctx.count("heap-history-ops", len(ops_tok))
    cid = "h%d" % len(lines)
    lines.append("%s hist %d %s" % (cid, len(ops_tok), " ".join(ops_tok)))
    pending[cid] = ("ok %d" % len(objs) + "".join(cells) + " # " + fmt_log(exp_log), rp, "hist")


def receiver_write_table():
    """for every operation: the instance attributes of the RECEIVER (and of a second operand) it writes"""
    from menpo.base import LazyList
    w = World()
    table = {}
    mk = lambda: LazyList.init_from_index_callable(w.base(0), 4).map(w.fn(1))
    other = mk()
    acts = {
        "map": lambda r: r.map(w.fn(2)), "map_each": lambda r: r.map([w.fn(0)] * 4), "repeat": lambda r: r.repeat(2),
        "copy": lambda r: r.copy(), "add_lazy": lambda r: r + other, "add_self": lambda r: r + r, "add_plain": lambda r: r + [1, 2],
        "getitem_int": lambda r: r[1], "getitem_slice": lambda r: r[::-1], "getitem_list": lambda r: r[[0, 0, 3]],
        "getitem_array": lambda r: r[np.array([1, 2])], "len": lambda r: len(r), "iter": lambda r: list(r),
        "contains": lambda r: 5 in r, "index": lambda r: r.index(r[2]), "count": lambda r: r.count(1), "reversed": lambda r: list(reversed(r)),
    }
    for name, act in acts.items():
        r = mk()
        table[name] = sorted(set(common.attr_writes(r, lambda: act(r))) | set(common.attr_writes(other, lambda: act(r))))
    return table


def generated(ctx):
    t = extract_c19.live_tables(receiver_write_table())
    ctx.notes["receiver_write_table"] = t["writes"]
    ctx.notes["getitem_dispatch_observed"] = {r["name"]: r["observed"] for r in t["getitem"]}
    ok = common.build_generated(ctx, {extract_c19.GEN_FILE: extract_c19.generated_text(t)}, extract_c19.TARGETS,
                                extract_c19.N_OBLIGATIONS)
    ctx.case(("dispatch-tables",), nontrivial=True)
    if not ok and ctx.broken_obligations:
        ctx.broken_obligations[-1]["obligation"] = "MenpoModel.GenProps.C19 (" + " / ".join(extract_c19.OBLIGATIONS) + ")"
        ctx.broken_obligations[-1]["observed"] = t
    return ok


def generated_src(ctx):
    """the SOURCE TRANSLATION of LazyList and of the list-building importer functions (harness/trans_c19.py): the text
    of the working tree is rewritten into Generated/C19Src.lean and GenProps/C19Src.lean must still prove every
    translated definition equal to the Core definition the theorems are about"""
    files, reasons = trans_c19.generated_files()
    ctx.notes["source_translation"] = {
        "functions": trans_c19.FUNCTIONS, "untranslatable": reasons,
        "obligations": ["MenpoModel.GenProps.C19Src." + t for t in trans_c19.OBLIGATIONS]}
    n0 = len(ctx.broken_obligations)
    ok = common.build_generated(ctx, files, trans_c19.GEN_TARGETS, len(trans_c19.OBLIGATIONS))
    ctx.case(("source-translation",), nontrivial=True)
    if not ok and len(ctx.broken_obligations) > n0:
        b = ctx.broken_obligations[-1]
        b["obligation"] = "MenpoModel.GenProps.C19Src (translated source = Core model): " + " / ".join(trans_c19.OBLIGATIONS)
        b["untranslatable"] = reasons
    return ok


def generated_all(ctx):
    """both regenerated files, ONE `lake build` (one wait for the shared build lock) when everything still proves;
    only a failure is attributed by building the two groups separately.  Returns (ok_tables, ok_src)."""
    t = extract_c19.live_tables(receiver_write_table())
    files, _reasons = trans_c19.generated_files()
    changed = common.write_if_changed(os.path.join(common.LEAN, extract_c19.GEN_FILE), extract_c19.generated_text(t))
    for rel, text in files.items():
        changed = common.write_if_changed(os.path.join(common.LEAN, rel), text) or changed
    ok, _out = common.lake_build(list(extract_c19.TARGETS) + list(trans_c19.GEN_TARGETS))
    if ok:
        ctx.notes["receiver_write_table"] = t["writes"]
        ctx.notes["getitem_dispatch_observed"] = {r["name"]: r["observed"] for r in t["getitem"]}
        ctx.notes["source_translation"] = {
            "functions": trans_c19.FUNCTIONS, "untranslatable": [],
            "obligations": ["MenpoModel.GenProps.C19Src." + x for x in trans_c19.OBLIGATIONS]}
        ctx.gen_obligations += extract_c19.N_OBLIGATIONS + len(trans_c19.OBLIGATIONS)
        ctx.case(("dispatch-tables",), nontrivial=True)
        ctx.case(("source-translation",), nontrivial=True)
        return True, True
    return generated(ctx), generated_src(ctx)


def guarded(ctx, site, rp, fn, *args):
    """run one case; an exception that comes out of menpo code where the property says the call succeeds is an
    oracle failure of that case, anything else is a harness crash (re-raised -> infrastructure error)"""
    import traceback
    try:
        return fn(*args)
    except Exception as e:      # noqa: BLE001
        tb = traceback.extract_tb(e.__traceback__)
        if not any(os.sep + "menpo" + os.sep in fr.filename for fr in tb):
            raise
        where = [fr for fr in tb if os.sep + "menpo" + os.sep in fr.filename][-1]
        ctx.fail(site, "raises", "%s: %s raised in %s:%d (%s)" % (type(e).__name__, e, os.path.basename(where.filename),
                                                                   where.lineno, where.name), rp() if callable(rp) else rp)
        return None


def search(ctx):
    """directed search after a broken tie: many more programs through the oracle only"""
    rng = ctx.rng
    for k in range(6000):
        p = gen_prog(rng, 8, 3)
        guarded(ctx, "C19/program", {"program": toks(p), "program_tree": repr(p)}, run_program, ctx, p, rng)
        ctx.searched += 1
        if k % 5 == 0:
            guarded(ctx, "C19/heap", {}, heap_history, ctx, rng, [], {})
        if k % 1000 == 0:
            video_reader_cases(ctx, 20)
        if k % 25 == 0:
            guarded(ctx, "C19/importer-generator", {}, generator_case, ctx, rng, [], {})
            guarded(ctx, "C19/map-noncallable", {}, noncallable_case, ctx, rng, [], {})
        if ctx.failures:
            return True
    return False


# ------------------------------------------------------------------------------------------------ real video reader
# The importer-built video lists above replace the frame reader by a logging fake.  This family keeps menpo's own
# FFMpegVideoReader (menpo/io/input/video.py: the stateful object behind every lazy list of import_video) and only
# substitutes the two external programs, through the documented MENPO_FFMPEG_CMD / MENPO_FFPROBE_CMD variables, by
# stand-ins that stream frame k as H*W*3 bytes of value k and honour `-ss`.  The clip is larger than a pipe buffer so
# the process is still streaming between two reads (seeded C19-4: a repeated read of the same frame returned the next).

_FAKE_FFMPEG = """#!%(py)s
import os, sys
N, H, W, FPS = %(N)d, %(H)d, %(W)d, %(FPS)d
args = sys.argv[1:]
start = 0
if "-ss" in args:
    start = int(round(float(args[args.index("-ss") + 1]) * FPS))
out = sys.stdout.buffer
try:
    for k in range(start, N):
        out.write(bytes([k]) * (H * W * 3))
        out.flush()
except (BrokenPipeError, OSError):
    pass
os._exit(0)
"""
_FAKE_FFPROBE = """#!%(py)s
print("width=%(W)d")
print("height=%(H)d")
print("avg_frame_rate=%(FPS)d/1")
print("duration=%(dur)r")
print("nb_read_frames=%(N)d")
"""


def video_reader_cases(ctx, n_cases):
    """random programs over a lazy list of REAL FFMpegVideoReader frames against the ordinary list of frame numbers"""
    import shutil
    import stat
    import sys
    import tempfile
    import numpy as np
    import menpo.io as mio
    rng = ctx.rng
    N, H, W, FPS = 48, 64, 64, 25
    tmp = tempfile.mkdtemp(prefix="c19vid_")
    saved = {k: os.environ.get(k) for k in ("MENPO_FFMPEG_CMD", "MENPO_FFPROBE_CMD")}
    import menpo.io.input.video as vid
    standin_reader = vid.FFMpegVideoReader
    if FX[0] is not None and getattr(FX[0], "saved_reader", None) is not None:
        vid.FFMpegVideoReader = FX[0].saved_reader       # menpo's own reader (the fixture put a logging fake there)
    cur, CUR[0] = CUR[0], None
    try:
        fmt = dict(py=sys.executable, N=N, H=H, W=W, FPS=FPS, dur=N / float(FPS))
        for name, text in (("ffmpeg", _FAKE_FFMPEG), ("ffprobe", _FAKE_FFPROBE)):
            path = os.path.join(tmp, name)
            with open(path, "w") as f:
                f.write(text % fmt)
            os.chmod(path, os.stat(path).st_mode | stat.S_IXUSR)
            os.environ["MENPO_" + name.upper() + "_CMD"] = path
        clip = os.path.join(tmp, "clip.avi")
        with open(clip, "wb") as f:
            f.write(b"stand-in")

        def fid(im):
            px = im.pixels
            lo, hi = int(px.min()), int(px.max())
            return lo if lo == hi else ("mixed", lo, hi)

        for c in range(n_cases):
            rp = {"family": "real FFMpegVideoReader behind stand-in ffmpeg/ffprobe", "frames": N}
            try:
                ll = mio.import_video(clip, normalize=False)
                ref = list(range(N))
                if len(ll) != N:
                    ctx.fail("C19/video-reader", "length", "import_video list has length %d, the clip %d frames" % (len(ll), N), rp)
                    continue
                steps, got, want = [], [], []
                cp = None
                for _ in range(rng.randint(4, 9)):
                    kind = rng.choice(["int", "int", "same", "repeat", "fancy", "copy", "add", "back", "iterprefix"])
                    if kind == "int":
                        i = rng.randint(-N, N - 1)
                        steps.append("ll[%d]" % i); got.append(fid(ll[i])); want.append(ref[i])
                    elif kind == "same":
                        i = rng.randint(0, N - 1)
                        k = rng.randint(2, 3)
                        steps.append("ll[%d] x%d" % (i, k)); got += [fid(ll[i]) for _ in range(k)]; want += [ref[i]] * k
                    elif kind == "back":
                        i = rng.randint(1, N - 1)
                        steps.append("ll[%d], ll[%d]" % (i, i - 1)); got += [fid(ll[i]), fid(ll[i - 1])]; want += [ref[i], ref[i - 1]]
                    elif kind == "repeat":
                        a = rng.randint(0, N - 4); b = a + rng.randint(1, 3); k = rng.randint(2, 3)
                        steps.append("list(ll[%d:%d].repeat(%d))" % (a, b, k))
                        got += [fid(x) for x in ll[a:b].repeat(k)]; want += [x for x in ref[a:b] for _ in range(k)]
                    elif kind == "fancy":
                        idx = [rng.randint(0, N - 1) for _ in range(rng.randint(2, 5))]
                        idx.insert(rng.randrange(len(idx)), idx[rng.randrange(len(idx))])   # a repeated index, adjacent or not
                        idx.sort(key=lambda _: rng.random())
                        j = rng.randrange(len(idx)); idx.insert(j, idx[j])                  # certainly adjacent
                        steps.append("list(ll[%r])" % (idx,))
                        got += [fid(x) for x in ll[idx]]; want += [ref[i] for i in idx]
                    elif kind == "copy":
                        cp = ll.copy()
                        i = rng.randint(0, N - 2)
                        steps.append("ll[%d], copy[%d], ll[%d], copy[%d]" % (i, i, i + 1, i + 1))
                        got += [fid(ll[i]), fid(cp[i]), fid(ll[i + 1]), fid(cp[i + 1])]; want += [ref[i], ref[i], ref[i + 1], ref[i + 1]]
                    elif kind == "add":
                        a = rng.randint(0, N - 3)
                        steps.append("list(ll[%d:%d] + ll[%d:%d] + ll[%d:%d])" % (a, a + 1, a, a + 1, a, a + 2))
                        got += [fid(x) for x in (ll[a:a + 1] + ll[a:a + 1] + ll[a:a + 2])]; want += ref[a:a + 1] + ref[a:a + 1] + ref[a:a + 2]
                    else:
                        k = rng.randint(1, 4)
                        it = iter(ll)
                        steps.append("first %d of iter(ll)" % k)
                        got += [fid(next(it)) for _ in range(k)]; want += ref[:k]
                rp["steps"] = steps
                ctx.count("video-reader:ops:%d" % len(steps))
                ctx.case(("video-reader",) + tuple(steps), nontrivial=True, sample={"video_reader_steps": steps} if c == 0 else None)
                ctx.check(got == want, "C19/video-reader", "value",
                          "frames read %r, the ordinary list of frames gives %r (steps %r)" % (got, want, steps), rp)
            except Exception as e:  # an exception out of menpo code is an oracle failure, not a harness crash
                ctx.fail("C19/video-reader", "raises", "%s: %s" % (type(e).__name__, e), rp)
            finally:
                ll = cp = None
    finally:
        vid.FFMpegVideoReader = standin_reader
        CUR[0] = cur
        for k, v in saved.items():
            if v is None:
                os.environ.pop(k, None)
            else:
                os.environ[k] = v
        shutil.rmtree(tmp, ignore_errors=True)


def zero_d_verdict(model_coded, model_repaired, obs):
    """the 0-dimensional index: the implementation must be the dispatch of the tree (repaired, fix 19448fa)"""
    return obs == model_repaired


def run(ctx):
    FX[0] = Fixture()
    try:
        return _run(ctx)
    finally:
        CUR[0] = None
        FX[0].close()
        FX[0] = None


def _run(ctx):
    import time
    t0 = time.time()
    ok_tables, ok_src = generated_all(ctx)
    t1 = t2 = time.time()
    imports, theorems, targets = IMPORTS[:1], list(THEOREMS), list(TARGETS)
    if ok_tables:
        imports, theorems, targets = imports + IMPORTS[1:2], theorems + GEN_THEOREMS, targets + ["MenpoModel.GenProps.C19"]
    if ok_src:
        imports, theorems, targets = imports + IMPORTS[2:4], theorems + SRC_THEOREMS, targets + trans_c19.GEN_TARGETS[1:]
    common.prepare_lean(ctx, PROP, imports, theorems, targets=targets)
    ctx.notes["phase_wall_s"] = {"regenerated_files_and_obligations": round(t1 - t0, 1),
                                 "build_and_audit": round(time.time() - t2, 1)}
    rng = ctx.rng
    n_prog = ctx.n(3000, 80000)
    lines, impl_out, progs, extras = [], {}, {}, {}
    special_cases(ctx)
    for k in range(n_prog):
        p = gen_prog(rng, 10 if k % 4 == 0 else 8, 3)
        extra = []
        obs_s = guarded(ctx, "C19/program", {"program": toks(p), "program_tree": repr(p)}, run_program, ctx, p, rng, extra)
        d = depth(p)
        ctx.count("depth:%d" % d)
        ctx.count("top:" + p[0])
        for q in subprograms(p):
            if q[0] in ("I", "G", "V", "AS"):
                ctx.count("leaf-or-op:" + q[0] + (":" + q[1] if q[0] == "G" else ""))
        tk = toks(p)
        ctx.case(tuple(tk), nontrivial=(d >= 2), sample={"program": " ".join(tk), "implementation": obs_s})
        cid = str(k)
        progs[cid] = p
        impl_out[cid] = obs_s
        lines.append(cid + " all " + " ".join(tk))
        lines.append(cid + "r reflog " + " ".join(tk))
        for j, (req, o, rp) in enumerate(extra):
            eid = "%se%d" % (cid, j)
            if req.startswith("get0d ? "):
                lines.append(eid + "c get0d coded " + req[8:])
                lines.append(eid + "p get0d repaired " + req[8:])
            else:
                lines.append(eid + " " + req)
            extras[eid] = (req, o, rp)
    pend = {}
    for _ in range(ctx.n(600, 15000)):
        guarded(ctx, "C19/heap", {}, heap_history, ctx, rng, lines, pend)
    for _ in range(ctx.n(250, 6000)):
        guarded(ctx, "C19/importer-generator", {}, generator_case, ctx, rng, lines, pend)
    for _ in range(ctx.n(250, 6000)):
        guarded(ctx, "C19/map-noncallable", {}, noncallable_case, ctx, rng, lines, pend)
    video_reader_cases(ctx, ctx.n(25, 400))
    model = common.run_driver(PROP, lines)
    for cid, (o, rp, op) in pend.items():
        if model[cid] != o:
            ctx.mismatch(op, "model %r vs implementation %r" % (model[cid][:300], o[:300]), rp)
    for cid, o in impl_out.items():
        if model[cid] != model[cid + "r"]:
            ctx.mismatch("reflog", "the model's lazy evaluation %r and its provenance reference %r differ" % (
                model[cid][:200], model[cid + "r"][:200]), {"program": toks(progs[cid])})
        if o is None:
            continue  # oracle already failed on this case
        if model[cid] != o:
            ctx.mismatch("all", "model %r vs implementation %r" % (model[cid][:200], o[:200]),
                         {"program": toks(progs[cid]), "program_tree": repr(progs[cid])})
    zero_d = {"coded": 0, "repaired": 0}
    for eid, (req, o, rp) in extras.items():
        if req.startswith("get0d ? "):
            mc, mr = model[eid + "c"], model[eid + "p"]
            if o == mr:
                zero_d["repaired"] += 1
            else:
                # the tree's dispatch is the repaired one (fix 19448fa): the pre-fix behaviour is a broken correspondence
                if o == mc:
                    zero_d["coded"] += 1
                ctx.mismatch("get0d", "model (dispatch of the tree) %r vs implementation %r (pre-fix dispatch: %r)" % (
                    mr[:200], o[:200], mc[:200]), rp)
        elif model[eid] != o:
            ctx.mismatch(req.split()[0], "model %r vs implementation %r" % (model[eid][:300], o[:300]), rp)
    ctx.notes["zero_dimensional_index_dispatch_seen"] = zero_d
    shrink(ctx)
    return ctx.finish(search)


def replay(ctx, path):
    data = json.load(open(path))
    rp = data.get("replay") or (data.get("broken_correspondence") or [{}])[0].get("case", {})
    tree = rp.get("program_tree")
    if tree is None and data.get("site") == "C19/getitem-0d-array":
        from menpo.base import LazyList
        try:
            seen = repr(LazyList.init_from_iterable([10, 11, 12])[np.array(1)])
        except Exception as e:      # noqa: BLE001
            seen = "%s: %s" % (type(e).__name__, e)
        print("implementation:", seen)
        print("ordinary list :", [10, 11, 12][np.array(1)])
        ctx.case(("replay", "0d"))
        ctx.case(("replay2", "0d"))
        ctx.check(seen == "11", "C19/getitem-0d-array", "refused",
                  "LazyList.init_from_iterable([10, 11, 12])[np.array(1)] gives %s, an ordinary list gives 11" % seen, rp)
        return ctx.finish(None)
    if tree is None:
        print("replay file carries no program")
        return 2
    FX[0] = Fixture()
    try:
        p = eval(tree)
        extra = []
        obs_s = run_program(ctx, p, ctx.rng, extra)
        ctx.case(("replay", tree))
        ctx.case(("replay2", tree))
        model = common.run_driver(PROP, ["0 all " + " ".join(toks(p))])
        print("implementation:", obs_s)
        print("model         :", model["0"])
        if obs_s is not None and model["0"] != obs_s:
            ctx.mismatch("all", "model vs implementation differ on the replayed program", {"program": toks(p)})
        return ctx.finish(None)
    finally:
        CUR[0] = None
        FX[0].close()
        FX[0] = None
