"""C02 — the methods behind `Transform.apply(shape)` TRANSLATED from the source text of the current working tree into
Lean on every run (harness/py2lean2.py + harness/py2lean2x.py are the translator; this file is the C02 vocabulary).

Value level (`Generated/C02SrcV.lean`, obligations `GenProps/C02SrcV.lean`): every method becomes one definition whose
calls of other methods are parameters; `srcMethods : VMethods` collects them, `MenpoModel.C02.vApply` resolves every
call through the regenerated method-resolution table.  Obligation: `srcMethods = coreMethods` (field by field, for all
arguments) and the standalone `_apply` plumbing of TransformChain / WithDims / Homogeneous / Affine.

Heap level (`Generated/C02SrcH.lean`, obligations `GenProps/C02SrcH.lean`): the same source text read with the heap
vocabulary (objects are cells, attribute assignment is a write, the closure allocates) — see `heap_items`.
"""
import ast
import os

from . import py2lean2x as X
from .py2lean2 import translate_or_stub, source_ast, Untranslatable

GEN_V = os.path.join("MenpoModel", "Generated", "C02SrcV.lean")
TARGETS_V = ["MenpoModel.Generated.C02SrcV", "MenpoModel.GenProps.C02SrcV"]
TRANSLATED_V = ["Landmarkable.has_landmarks", "Landmarkable.landmarks", "LandmarkManager.n_groups",
                "Shape._transform_inplace", "Shape._transform_self_inplace", "PointCloud._transform_self_inplace",
                "LandmarkManager._transform_inplace", "Transformable._transform_inplace", "Transformable._transform",
                "Transform._apply_batched", "Transform.apply (+ default of batch_size)", "TransformChain._apply",
                "WithDims._apply", "Homogeneous._apply", "Affine._apply", "Affine.linear_component",
                "Affine.translation_component"]
GEN_H = os.path.join("MenpoModel", "Generated", "C02SrcH.lean")
TARGETS_H = ["MenpoModel.Generated.C02SrcH", "MenpoModel.GenProps.C02SrcH"]

MONAD = {}          # the defaults of py2lean2x: Except, forLoopE, reduceE, tryExcept


def _params(fn):
    """(positional parameter names, name of **kwargs or None) of a live function"""
    node, _src = source_ast(fn)
    a = node.args
    return [x.arg for x in a.posonlyargs + a.args], (a.kwarg.arg if a.kwarg else None)


def _args(fn, lean_names):
    """python parameter -> lean term, by POSITION (renaming a parameter is harmless); **kwargs is only ever passed on"""
    pos, kw = _params(fn)
    if len(pos) != len(lean_names):
        raise Untranslatable("signature of %s changed: %s" % (getattr(fn, "__name__", fn), pos))
    m = dict(zip(pos, lean_names))
    if kw:
        m[kw] = "()"
    return m, pos, kw


def live():
    """the live functions (of the working tree under test) that are translated"""
    from menpo.transform.base import Transform, Transformable
    from menpo.transform.base.composable import TransformChain
    from menpo.transform import WithDims
    from menpo.transform.homogeneous.base import Homogeneous
    from menpo.transform.homogeneous.affine import Affine
    from menpo.shape.base import Shape
    from menpo.shape.pointcloud import PointCloud
    from menpo.landmark.base import Landmarkable, LandmarkManager

    def prop(cls, name):
        p = cls.__dict__.get(name)
        return p.fget if isinstance(p, property) else p
    return dict(
        n_groups=prop(LandmarkManager, "n_groups"),
        landmarks=prop(Landmarkable, "landmarks"),
        has_landmarks=prop(Landmarkable, "has_landmarks"),
        shape_inplace=Shape.__dict__.get("_transform_inplace"),
        shape_self=Shape.__dict__.get("_transform_self_inplace"),
        pc_self=PointCloud.__dict__.get("_transform_self_inplace"),
        lm_inplace=LandmarkManager.__dict__.get("_transform_inplace"),
        t_inplace=Transformable.__dict__.get("_transform_inplace"),
        t_transform=Transformable.__dict__.get("_transform"),
        apply_batched=Transform.__dict__.get("_apply_batched"),
        apply=Transform.__dict__.get("apply"),
        chain_apply=TransformChain.__dict__.get("_apply"),
        withdims_apply=WithDims.__dict__.get("_apply"),
        hom_apply=Homogeneous.__dict__.get("_apply"),
        aff_apply=Affine.__dict__.get("_apply"),
        aff_linear=prop(Affine, "linear_component"),
        aff_translation=prop(Affine, "translation_component"),
    )


def _safe(thunk):
    """a thunk whose unexpected failures (a source shape the rule tables never met) are `Untranslatable` too: the function
    then gets its stub and the obligation breaks, the harness does not crash"""
    def run():
        try:
            return thunk()
        except Untranslatable:
            raise
        except Exception as e:                                                      # noqa: BLE001
            raise Untranslatable("%s: %s" % (type(e).__name__, e))
    return run


def _need(fn, what):
    if fn is None or not callable(fn):
        raise Untranslatable("%s is no longer defined where the model expects it" % what)
    return fn


# ===================================================================================================== value level

RAISES = {"NotImplementedError": ".error Err.notImpl", "ValueError": ".error Err.value",
          "AttributeError": ".error Err.attr", "IndexError": ".error Err.index"}
CATCH = {"AttributeError": "(· == Err.attr)", "ValueError": "(· == Err.value)", "IndexError": "(· == Err.index)",
         "NotImplementedError": "(· == Err.notImpl)"}


def value_items():
    """[(lean signature, thunk -> body text, stub body)] for Generated/C02SrcV.lean"""
    L = live()
    items = []

    def add(sig, stub, thunk):
        items.append((sig, _safe(thunk), stub))

    # ---- properties (pure)
    def t_n_groups():
        fn = _need(L["n_groups"], "LandmarkManager.n_groups")
        am, pos, _ = _args(fn, ["self"])
        r = X.Rules2X(expr=[("len($m._landmark_groups)", "(Groups.len {m})")], retx="{e}")
        return X.Translator2X(r).function(fn, am, ind=1)
    add("def srcLandmarkManager_n_groups (self : Groups) : Int :=", "  (-1)", t_n_groups)

    def t_landmarks():
        fn = _need(L["landmarks"], "Landmarkable.landmarks")
        am, pos, _ = _args(fn, ["self"])
        r = X.Rules2X(expr=[("$s._landmarks", "(Shape.lmAttr {s})")],
                      stmt=[("$s._landmarks = LandmarkManager()", "s", "(Shape.setLmAttr {s} (some Groups.nil))")],
                      retx="(({e}).getD Groups.nil)")
        return X.Translator2X(r).function(fn, am, ind=1)
    add("def srcLandmarkable_landmarks (self : Shape) : Groups :=", "  Groups.cons \"untranslatable\" default Groups.nil",
        t_landmarks)

    def t_has_landmarks():
        fn = _need(L["has_landmarks"], "Landmarkable.has_landmarks")
        am, pos, _ = _args(fn, ["self"])
        r = X.Rules2X(expr=[("$s._landmarks", "(Shape.lmAttr {s})"),
                            ("$s.landmarks", "(srcLandmarkable_landmarks {s})"),
                            ("$m.n_groups", "(srcLandmarkManager_n_groups {m})")], retx="{e}")
        return X.Translator2X(r).function(fn, am, ind=1)
    add("def srcLandmarkable_has_landmarks (self : Shape) : Bool :=", "  false", t_has_landmarks)

    # ---- the in-place pass (monadic: a call may raise)
    def t_shape_inplace():
        fn = _need(L["shape_inplace"], "Shape._transform_inplace")
        am, pos, _ = _args(fn, ["self", "transform"])
        r = X.Rules2X(
            expr=[("$s.has_landmarks", "(srcLandmarkable_has_landmarks {s})"),
                  ("$s._transform_self_inplace($t)", "callSelf {s} {t}", "bind")],
            stmt=[("$s.landmarks._transform_inplace($t)", "s", "callM (srcLandmarkable_landmarks {s}) {t}", "bind",
                   "(Shape.withLandmarks {s} {r}.1)"),
                  ("$s._transform_self_inplace($t)", "s", "callSelf {s} {t}", "bind", "{r}.1"),
                  ("$v = $s._transform_self_inplace($t)", "s", "callSelf {s} {t}", "bind", "{r}.1", {"v": "{r}.2"})],
            monad=MONAD, raise_by=RAISES, retx=".ok ({%s}, toPV {e})" % pos[0], endx=".ok ({%s}, PV.none)" % pos[0])
        return X.Translator2X(r).function(fn, am, ind=1)
    add("def srcShape_transform_inplace (callM : Groups → Fn → Except Err (Groups × PV))\n"
        "    (callSelf : Shape → Fn → Except Err (Shape × PV)) (self : Shape) (transform : Fn) : Except Err (Shape × PV) :=",
        "  .error Err.unknown", t_shape_inplace)

    def t_self(key, what):
        def thunk():
            fn = _need(L[key], what)
            am, pos, _ = _args(fn, ["self", "transform"])
            # the closure parameter is called by its (current) python name
            r = X.Rules2X(
                expr=[("%s($x)" % pos[1], "(%s {x})" % am[pos[1]], "bind"), ("$s.points", "(Shape.points {s})")],
                stmt=[("$s.points = $v", "s", "(Shape.setPoints {s} {v})")],
                monad=MONAD, raise_by=RAISES, retx=".ok ({%s}, toPV {e})" % pos[0], endx=".ok ({%s}, PV.none)" % pos[0])
            return X.Translator2X(r).function(fn, am, ind=1)
        return thunk
    add("def srcShape_transform_self_inplace (self : Shape) (transform : Fn) : Except Err (Shape × PV) :=",
        "  .error Err.unknown", t_self("shape_self", "Shape._transform_self_inplace"))
    add("def srcPointCloud_transform_self_inplace (self : Shape) (transform : Fn) : Except Err (Shape × PV) :=",
        "  .error Err.unknown", t_self("pc_self", "PointCloud._transform_self_inplace"))

    def t_lm_inplace():
        fn = _need(L["lm_inplace"], "LandmarkManager._transform_inplace")
        am, pos, _ = _args(fn, ["self", "transform"])
        r = X.Rules2X(
            stmt=[("$g._transform_inplace($t)", "g", "callS {g} {t}", "bind", "{r}.1")],
            iters=[("$s._landmark_groups.values()", "s", "(Groups.values {s})", "(Groups.setValueAt {recv} {i} {x})")],
            monad=MONAD, raise_by=RAISES, retx=".ok ({%s}, toPV {e})" % pos[0], endx=".ok ({%s}, PV.none)" % pos[0])
        return X.Translator2X(r).function(fn, am, ind=1)
    add("def srcLandmarkManager_transform_inplace (callS : Shape → Fn → Except Err (Shape × PV)) (self : Groups)\n"
        "    (transform : Fn) : Except Err (Groups × PV) :=", "  .error Err.unknown", t_lm_inplace)

    def t_t_inplace():
        fn = _need(L["t_inplace"], "Transformable._transform_inplace")
        am, pos, _ = _args(fn, ["self", "transform"])
        r = X.Rules2X(monad=MONAD, raise_by=RAISES, raise_=None, retx=".ok ({%s}, toPV {e})" % pos[0],
                      endx=".ok ({%s}, PV.none)" % pos[0])
        return X.Translator2X(r).function(fn, am, ind=1)
    add("def srcTransformable_transform_inplace (self : PV) (transform : Fn) : Except Err (PV × PV) :=",
        "  .error Err.unknown", t_t_inplace)

    def t_t_transform():
        fn = _need(L["t_transform"], "Transformable._transform")
        am, pos, _ = _args(fn, ["self", "transform"])
        r = X.Rules2X(expr=[("$x.copy()", "callCopy {x}", "bind")],
                      stmt=[("$x._transform_inplace($t)", "x", "callI {x} {t}", "bind", "{r}.1")],
                      monad=MONAD, raise_by=RAISES, retx=".ok ({e})")
        return X.Translator2X(r).function(fn, am, ind=1)
    add("def srcTransformable_transform (callCopy : PV → Except Err PV) (callI : PV → Fn → Except Err (PV × PV))\n"
        "    (self : PV) (transform : Fn) : Except Err PV :=", "  .error Err.unknown", t_t_transform)

    # ---- Transform._apply_batched / apply
    def batched_rules():
        return [("$s._apply($x, **kwargs)", "({s} {x})", "bind"),
                ("$x.shape[0]", "(({x}).length : Int)"),
                ("$x[$a:$b]", "(pySlice {x} {a} {b})"),
                ("range($a, $b, $c)", "(pyRange {a} {b} {c})", "bind"),
                ("np.vstack($l)", "(npVstack {l})", "bind"),
                ("[]", "([] : List Arr)")]

    def t_apply_batched():
        fn = _need(L["apply_batched"], "Transform._apply_batched")
        am, pos, kw = _args(fn, ["self", "x", "batch_size"])
        if kw != "kwargs":
            raise Untranslatable("Transform._apply_batched no longer takes **kwargs")
        r = X.Rules2X(expr=batched_rules(), stmt=[("$l.append($v)", "l", "({l} ++ [{v}])")],
                      monad=MONAD, raise_by=RAISES, retx=".ok ({e})")
        return X.Translator2X(r).function(fn, am, ind=1)
    add("def srcTransform_apply_batched (self : Fn) (x : Arr) (batch_size : Option Int) : Except Err Arr :=",
        "  .error Err.unknown", t_apply_batched)

    def t_apply():
        fn = _need(L["apply"], "Transform.apply")
        am, pos, kw = _args(fn, ["self", "x", "batch_size"])
        if kw != "kwargs":
            raise Untranslatable("Transform.apply no longer takes **kwargs")
        r = X.Rules2X(expr=[("$s._apply_batched($x, $b, **kwargs)", "BatchArg.run (srcTransform_apply_batched {s}) {x} {b}",
                             "bind"),
                            ("$x._transform($t)", "callT {x} {t}", "bind")],
                      monad=MONAD, raise_by=RAISES, catch=CATCH, closures={"transform": "Fn"}, retx=".ok ({e})")
        tr = X.Translator2X(r)
        node, _ = source_ast(fn)
        # any nested def is a closure over arrays
        for st in node.body:
            if isinstance(st, ast.FunctionDef):
                r.closures[st.name] = "Fn"
        return tr.function(fn, am, ind=1)
    add("def srcTransform_apply (callT : PV → Fn → Except Err PV) (self : Fn) (x : PV) (batch_size : Option Int) :\n"
        "    Except Err PV :=", "  .error Err.unknown", t_apply)

    def t_apply_default():
        fn = _need(L["apply"], "Transform.apply")
        pos, _ = _params(fn)
        d = X.Translator2X(X.Rules2X()).defaults(fn)
        v = d.get(pos[2]) if len(pos) == 3 else None
        if v != "None":
            raise Untranslatable("default of batch_size is %r" % v)
        return "  none"
    add("def srcTransform_apply_default_batch_size : Option Int :=", "  some 0", t_apply_default)

    # ---- `_apply` plumbing of the transform classes the model evaluates itself
    def t_chain():
        fn = _need(L["chain_apply"], "TransformChain._apply")
        am, pos, kw = _args(fn, ["self", "x"])
        r = X.Rules2X(expr=[("$t._apply($x)", "({t} {x})", "bind"), ("$s.transforms", "{s}")],
                      monad=MONAD, raise_by=RAISES, retx=".ok ({e})")
        return X.Translator2X(r).function(fn, am, ind=1, allow_unused=("kwargs",))
    add("def srcTransformChain_apply (self : List Fn) (x : Arr) : Except Err Arr :=", "  .error Err.unknown", t_chain)

    def t_withdims():
        fn = _need(L["withdims_apply"], "WithDims._apply")
        am, pos, kw = _args(fn, ["self", "x"])
        r = X.Rules2X(expr=[("$x[:, $s.dims]", "(colIndex {x} {s})", "bind"), ("$y.ndim", "(NdArr.ndim {y})"),
                            ("$y[:, None]", "(NdArr.newAxis {y})"), ("$y.copy()", "(NdArr.asArr {y})", "bind")],
                      monad=MONAD, raise_by=RAISES, retx=".ok ({e})")
        return X.Translator2X(r).function(fn, am, ind=1, allow_unused=("kwargs",))
    add("def srcWithDims_apply (self : Dims) (x : Arr) : Except Err Arr :=", "  .error Err.unknown", t_withdims)

    def t_hom():
        fn = _need(L["hom_apply"], "Homogeneous._apply")
        am, pos, kw = _args(fn, ["self", "x"])
        r = X.Rules2X(expr=[("np.hstack([$x, np.ones([$x.shape[0], 1])])", "(hstackOnes {x})"),
                            ("$a.dot($m.T)", "(dotT {a} {m})"), ("np.dot($a, $m.T)", "(dotT {a} {m})"),
                            ("($y / $y[:, -1][:, None])[:, :-1]", "(normLast {y})"),
                            ("$s.h_matrix", "{s}")], retx="{e}")
        return X.Translator2X(r).function(fn, am, ind=1, allow_unused=("kwargs",))
    add("def srcHomogeneous_apply (self : Arr) (x : Arr) : Arr :=", "  []", t_hom)

    def t_aff_part(key, what):
        def thunk():
            fn = _need(L[key], what)
            am, pos, _ = _args(fn, ["self"])
            r = X.Rules2X(expr=[("$m[:-1, :-1]", "(sliceLinear {m})"), ("$m[:-1, -1]", "(sliceTranslation {m})"),
                                ("$s.h_matrix", "{s}")], retx="{e}")
            return X.Translator2X(r).function(fn, am, ind=1)
        return thunk
    add("def srcAffine_linear_component (self : Arr) : Arr :=", "  [[0]]", t_aff_part("aff_linear", "Affine.linear_component"))
    add("def srcAffine_translation_component (self : Arr) : List Rat :=", "  [0]",
        t_aff_part("aff_translation", "Affine.translation_component"))

    def t_aff():
        fn = _need(L["aff_apply"], "Affine._apply")
        am, pos, kw = _args(fn, ["self", "x"])
        r = X.Rules2X(expr=[("np.dot($a, $m.T)", "(dotT {a} {m})"), ("$a.dot($m.T)", "(dotT {a} {m})"),
                            ("$s.linear_component", "(srcAffine_linear_component {s})"),
                            ("$s.translation_component", "(srcAffine_translation_component {s})"),
                            ("$a + $b", "(addRow {a} {b})")], retx="{e}")
        return X.Translator2X(r).function(fn, am, ind=1, allow_unused=("kwargs",))
    add("def srcAffine_apply (self : Arr) (x : Arr) : Arr :=", "  []", t_aff)
    return items


HEADER_V = """/- TRANSLATED by harness/trans_c02.py (harness/py2lean2.py, harness/py2lean2x.py) from the SOURCE TEXT of the menpo
   working tree on every run of `./check C02`; do not edit.  One definition per Python method (value level: objects
   are values, an in-place method returns the new state of its receiver and its return value; calls of other methods
   are parameters).  GenProps/C02SrcV.lean proves `srcMethods = coreMethods` and the `_apply` plumbing equalities. -/
import MenpoModel.Core.C02Src

set_option linter.unusedVariables false

namespace MenpoModel.C02.Generated
open MenpoModel.C02

/-- a returned `self` / `None` as a Python value -/
class ToPV (α : Type) where
  toPV : α → PV
export ToPV (toPV)
instance : ToPV Shape := ⟨PV.shape⟩
instance : ToPV Groups := ⟨PV.manager⟩
instance : ToPV PV := ⟨id⟩
"""

FOOTER_V = """
/-- the translated methods, as the record method resolution (`vApply` …) runs over -/
def srcMethods : VMethods where
  hasLandmarks := srcLandmarkable_has_landmarks
  landmarks := srcLandmarkable_landmarks
  nGroups := srcLandmarkManager_n_groups
  shapeInplace := srcShape_transform_inplace
  shapeSelf := srcShape_transform_self_inplace
  pcSelf := srcPointCloud_transform_self_inplace
  lmInplace := srcLandmarkManager_transform_inplace
  tInplace := srcTransformable_transform_inplace
  transform := srcTransformable_transform
  applyBatched := srcTransform_apply_batched
  apply := srcTransform_apply

end MenpoModel.C02.Generated
"""


def value_files():
    """({relative path: text}, [reasons a function could not be translated])"""
    try:
        items = value_items()
    except Exception as e:                                   # noqa: BLE001  (menpo no longer importable as expected)
        items, reason = [], "%s: %s" % (type(e).__name__, e)
        text = HEADER_V.replace("import MenpoModel.Core.C02Src", "/- TRANSLATION FAILED: %s -/\nimport MenpoModel.Core.C02Src"
                                % reason.replace("-/", "- /")) + "\nend MenpoModel.C02.Generated\n"
        return {GEN_V: text}, [reason]
    text, reasons = translate_or_stub(items, HEADER_V, FOOTER_V)
    return {GEN_V: text}, reasons


# ====================================================================================================== heap level

HMONAD = dict(ok="HM.ok ({e})", bind="HM.bind ({m}) fun {x} =>\n{k}", loop="HM.forLoop", effects=True)
HBIND = "HM.bind ({m}) fun {x} =>\n{k}"
HRAISES = {"NotImplementedError": "HM.err Err.notImpl", "ValueError": "HM.err Err.value",
           "AttributeError": "HM.err Err.attr", "IndexError": "HM.err Err.index"}
H_EXPR = [
    ("$x is None", "(Val.isNone {x})"),
    ("$x is not None", "(!(Val.isNone {x}))"),
    ("$s._landmarks", 'getAttr {s} "_landmarks"', "bind"),
    ("$s.points", 'getAttr {s} "points"', "bind"),
    ("$s._landmark_groups", 'getAttr {s} "_landmark_groups"', "bind"),
    ("len($d)", "dictLen {d}", "bind"),
    ("$d.values()", "dictValues {d}", "bind"),
    ("LandmarkManager()", "newManager", "bind"),
    ("$s.landmarks", "srcH_landmarks {s}", "bind"),
    ("$s.has_landmarks", "srcH_has_landmarks {s}", "bind"),
    ("$m.n_groups", "propOn Cls.LandmarkManager srcH_n_groups {m}", "bind"),
]
H_STMT = [
    ("$s._landmarks = $v", None, 'setAttr {s} "_landmarks" {v}'),
    ("$s.points = $v", None, 'setAttr {s} "points" {v}'),
]
TRANSLATED_H = ["LandmarkManager.n_groups", "Landmarkable.landmarks", "Landmarkable.has_landmarks",
                "Shape._transform_inplace", "Shape._transform_self_inplace", "PointCloud._transform_self_inplace",
                "LandmarkManager._transform_inplace", "Transformable._transform_inplace", "Transformable._transform"]


def hrules(expr=(), stmt=(), **kw):
    return X.Rules2X(expr=list(expr) + H_EXPR, stmt=list(stmt) + H_STMT, monad=HMONAD, bind=HBIND, raise_by=HRAISES,
                     raise_=None, retx="HM.ok ({e})", endx="HM.ok (Val.imm 0)", **kw)


def heap_items():
    """[(lean signature, thunk -> body text, stub body)] for Generated/C02SrcH.lean: the same live functions as at value
    level, read with the heap vocabulary (Core/C02SrcH.lean)"""
    L = live()
    items = []
    STUB = "  HM.err Err.unknown"

    def add(sig, thunk):
        items.append((sig, _safe(thunk), STUB))

    def simple(key, what, names, rules):
        def thunk():
            fn = _need(L[key], what)
            am, pos, _ = _args(fn, names)
            return X.Translator2X(rules(am, pos)).function(fn, am, ind=1)
        return thunk

    add("def srcH_n_groups (self : Val) : HM Int :=",
        simple("n_groups", "LandmarkManager.n_groups", ["self"], lambda am, pos: hrules()))
    add("def srcH_landmarks (self : Val) : HM Val :=",
        simple("landmarks", "Landmarkable.landmarks", ["self"],
               lambda am, pos: hrules(expr=[("$s.landmarks", "UNTRANSLATABLE_RECURSION")])))
    add("def srcH_has_landmarks (self : Val) : HM Bool :=",
        simple("has_landmarks", "Landmarkable.has_landmarks", ["self"], lambda am, pos: hrules()))
    add("def srcH_shape_inplace (callM callSelf : Val → Fn → HM Val) (self : Val) (transform : Fn) : HM Val :=",
        simple("shape_inplace", "Shape._transform_inplace", ["self", "transform"], lambda am, pos: hrules(
            expr=[("$s._transform_self_inplace($t)", "callSelf {s} {t}", "bind")],
            stmt=[("$m._transform_inplace($t)", None, "callM {m} {t}"),
                  ("$s._transform_self_inplace($t)", None, "callSelf {s} {t}")])))

    def self_rules(am, pos):
        return hrules(expr=[("%s($x)" % pos[1], "callFn %s {x}" % am[pos[1]], "bind")])
    add("def srcH_shape_self (self : Val) (transform : Fn) : HM Val :=",
        simple("shape_self", "Shape._transform_self_inplace", ["self", "transform"], self_rules))
    add("def srcH_pc_self (self : Val) (transform : Fn) : HM Val :=",
        simple("pc_self", "PointCloud._transform_self_inplace", ["self", "transform"], self_rules))
    add("def srcH_lm_inplace (callS : Val → Fn → HM Val) (self : Val) (transform : Fn) : HM Val :=",
        simple("lm_inplace", "LandmarkManager._transform_inplace", ["self", "transform"], lambda am, pos: hrules(
            stmt=[("$g._transform_inplace($t)", None, "callS {g} {t}")])))
    add("def srcH_t_inplace (self : Val) (transform : Fn) : HM Val :=",
        simple("t_inplace", "Transformable._transform_inplace", ["self", "transform"], lambda am, pos: hrules()))
    add("def srcH_t_transform (callCopy : Val → HM Val) (callI : Val → Fn → HM Val) (self : Val) (transform : Fn) :\n"
        "    HM Val :=",
        simple("t_transform", "Transformable._transform", ["self", "transform"], lambda am, pos: hrules(
            expr=[("$x.copy()", "callCopy {x}", "bind")],
            stmt=[("$x._transform_inplace($t)", None, "callI {x} {t}")])))
    return items


HEADER_H = """/- TRANSLATED by harness/trans_c02.py (harness/py2lean2.py, harness/py2lean2x.py) from the SOURCE TEXT of the menpo
   working tree on every run of `./check C02`; do not edit.  The same methods as Generated/C02SrcV.lean, read with the
   HEAP vocabulary of Core/C02SrcH.lean (objects are cells, attribute assignment is a write, the closure allocates, a
   call may raise and hands the heap back).  GenProps/C02SrcH.lean proves `srcHMethods = coreHMethods`. -/
import MenpoModel.Core.C02SrcH

set_option linter.unusedVariables false

namespace MenpoModel.C02.Generated
open MenpoModel.C02
"""

FOOTER_H = """
/-- the translated methods, as the record method resolution (`hTransform` …) runs over -/
def srcHMethods : HMethods where
  nGroups := srcH_n_groups
  landmarks := srcH_landmarks
  hasLandmarks := srcH_has_landmarks
  shapeInplace := srcH_shape_inplace
  shapeSelf := srcH_shape_self
  pcSelf := srcH_pc_self
  lmInplace := srcH_lm_inplace
  tInplace := srcH_t_inplace
  transform := srcH_t_transform

end MenpoModel.C02.Generated
"""


def heap_files():
    try:
        items = heap_items()
    except Exception as e:                                   # noqa: BLE001
        reason = "%s: %s" % (type(e).__name__, e)
        text = HEADER_H.replace("import MenpoModel.Core.C02SrcH", "/- TRANSLATION FAILED: %s -/\nimport MenpoModel.Core.C02SrcH"
                                % reason.replace("-/", "- /")) + "\nend MenpoModel.C02.Generated\n"
        return {GEN_H: text}, [reason]
    text, reasons = translate_or_stub(items, HEADER_H, FOOTER_H)
    return {GEN_H: text}, reasons


if __name__ == "__main__":
    import sys
    files, why = heap_files() if "heap" in sys.argv[1:] else value_files()
    for rel, text in files.items():
        sys.stdout.write(text)
    if why:
        sys.stderr.write("UNTRANSLATABLE: %s\n" % why)
