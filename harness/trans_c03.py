"""C03 — the isinstance ladder of `Homogeneous._compose_before` / `_compose_after`, TRANSLATED from the source text of
the current working tree into Lean (`Generated/C03Ladder.lean`) on every run; `GenProps/C03Ladder.lean` proves the
translation equal to the hand-written `ladder` the C03 theorems are about, for every fuel, direction and pair of
operands.  (harness/py2lean.py is the translator; this file is the C03 vocabulary.)"""
import os
from . import py2lean

GEN_REL = os.path.join("MenpoModel", "Generated", "C03Ladder.lean")
GEN_TARGETS = ["MenpoModel.Generated.C03Ladder", "MenpoModel.GenProps.C03Ladder"]
N_OBLIGATIONS = 2

FAMILY = ["Homogeneous", "Affine", "Similarity", "Rotation", "Translation", "UniformScale", "NonUniformScale",
          "AlignmentAffine", "AlignmentSimilarity", "AlignmentRotation", "AlignmentTranslation",
          "AlignmentUniformScale"]


def rules(direction):
    other = "after" if direction == "before" else "before"
    expr = [
        ("isinstance($x, type($y))", "isSub tbl {x}.cls {y}.cls"),
        ("isinstance($x, HomogFamilyAlignment)", "isAlign tbl {x}.cls"),
        ("$x.as_non_alignment()", "(⟨stripCls tbl {x}.cls, nonAlignmentMatrix {x}.cls {x}.M⟩ : HT d)"),
        ("$x.copy()", "{x}"),
        # the mutual call: the other method of the same family, one unit of fuel less
        ("$x._compose_%s($y)" % other, "genLadder tbl fuel .%s {x} {y}" % other, "bind"),
        ("$x._compose_%s($y)" % direction, "genLadder tbl fuel .%s {x} {y}" % direction, "bind"),
    ]
    for c in FAMILY:
        expr.append(("isinstance($x, %s)" % c, "isSub tbl {x}.cls .%s" % c))
        expr.append(("%s($x.h_matrix)" % c, "(⟨.%s, {x}.M⟩ : HT d)" % c))
    stmt = [
        ("$x._compose_before_inplace($y)", "x", "(⟨{x}.cls, rawCompose .before {x}.M {y}.M⟩ : HT d)"),
        ("$x._compose_after_inplace($y)", "x", "(⟨{x}.cls, rawCompose .after {x}.M {y}.M⟩ : HT d)"),
    ]
    return py2lean.Rules(expr=expr, stmt=stmt, ret="some {e}", raise_="none")


def translate():
    """(lean text, None) or (None, reason)"""
    from menpo.transform.homogeneous.base import Homogeneous
    try:
        bodies = {}
        for direction in ("before", "after"):
            tr = py2lean.Translator(rules(direction))
            fn = getattr(Homogeneous, "_compose_" + direction)
            bodies[direction] = tr.function(fn, {"self": "s", "t": "t"}, ind=3)
    except py2lean.Untranslatable as e:
        return None, str(e)
    text = """/- TRANSLATED by harness/trans_c03.py (harness/py2lean.py) from the SOURCE TEXT of
   menpo.transform.homogeneous.base.Homogeneous._compose_before / _compose_after of the current working tree
   on every run of `./check C03`; do not edit.  GenProps/C03Ladder.lean proves it equal to `ladder`. -/
import MenpoModel.Core.C03Compose

namespace MenpoModel.Generated.C03
open MenpoModel.C03

variable {d : Nat}

def genLadder (tbl : ClassTable) : Nat → Dir → HT d → HT d → Option (HT d)
  | 0, _, _, _ => none
  | fuel + 1, .before, s, t =>
%s
  | fuel + 1, .after, s, t =>
%s

end MenpoModel.Generated.C03
""" % (bodies["before"], bodies["after"])
    return text, None


def generated_files():
    text, why = translate()
    if text is None:
        # the source no longer fits the vocabulary: emit a file whose obligation cannot be proved, naming the reason
        text = ("/- TRANSLATION FAILED: %s -/\nimport MenpoModel.Core.C03Compose\nnamespace MenpoModel.Generated.C03\n"
                "open MenpoModel.C03\nvariable {d : Nat}\n"
                "def genLadder (_tbl : ClassTable) : Nat → Dir → HT d → HT d → Option (HT d) := fun _ _ _ _ => none\n"
                "end MenpoModel.Generated.C03\n" % why.replace("-/", "- /"))
    return {GEN_REL: text}, why


if __name__ == "__main__":
    print(translate()[0] or translate()[1])


# =====================================================================================================================
# Round 2: the ENTRY POINTS of the composition machinery, translated from source (Generated/C03Entry.lean) and proved
# equal to composeCell / inplaceCell / fromVectorCell / chainAdd / rawCompose / nonAlignmentMatrix / decomposeLeaves /
# scaleFactory by GenProps/C03Entry.lean.  The vocabulary is Core/C03Entry.lean.
# =====================================================================================================================
import ast

ENTRY_REL = os.path.join("MenpoModel", "Generated", "C03Entry.lean")
ENTRY_TARGETS = ["MenpoModel.Generated.C03Entry", "MenpoModel.GenProps.C03Entry"]
ENTRY_OBLIGATIONS = 17


class ERules(py2lean.Rules):
    """py2lean.Rules plus: stmt rules may carry a 4th element "bind" (the new value of the receiver is computed in
    the monad) and a 5th element {metavariable: required lean text} (the rule only applies to that call shape);
    `end`: what a function that falls off its end returns ({name} = current lean name of a python variable);
    `raises`: exception class name -> lean term; `item`: template of one element of a list display;
    `tuples`: [(python pattern, [lean names])] for `a, b, c = <call>` whose results are parameters of the model."""

    def __init__(self, expr=(), stmt=(), end=None, raises=None, item=None, tuples=(), **kw):
        self.stmt_flag = [(s[3] if len(s) > 3 else "") for s in stmt]
        self.stmt_guard = [(s[4] if len(s) > 4 else {}) for s in stmt]
        py2lean.Rules.__init__(self, expr=expr, stmt=[s[:3] for s in stmt], **kw)
        self.end = end
        self.raises = dict(raises or {})
        self.item = item
        self.tuples = [(py2lean._pat(p, "expr"), names) for p, names in tuples]


def _fold(text):
    """truth value of a translated condition that is a literal, else None"""
    t = text.strip()
    for _ in range(8):
        if t.startswith("(") and t.endswith(")") and t[1:-1] in ("true", "false", "!true", "!false"):
            t = t[1:-1]
        if t == "!true":
            t = "false"
        if t == "!false":
            t = "true"
    return True if t == "true" else False if t == "false" else None


class EntryTranslator(py2lean.Translator):
    """py2lean.Translator plus the statement / expression forms the entry points need (to be merged into py2lean):
      * a function may fall off its end (in-place methods): `rules.end`;
      * `import` / `from .. import` inside a function body: dropped;
      * `if` whose translated test is a literal (a keyword argument the call site fixes, `x is None` for an argument
        bound to `none`): only the live branch is translated (specialisation to the call shape);
      * in-place method calls whose new receiver value is monadic (stmt rule flag "bind"), guards on the call shape;
      * a monadic call used as an operand (`a.f(b.g(v))`): hoisted into a bind in front of the statement;
      * `raise Exc(...)` mapped by exception class; list displays; `x is None`; `a, b, c = <external routine>`."""

    def __init__(self, rules):
        py2lean.Translator.__init__(self, rules)
        self._pending = []
        self._tmp = 0

    def function(self, fn, arg_names, ind=2):
        """as py2lean.Translator.function, but a `**kwargs` parameter the body never mentions is accepted"""
        node, src = py2lean.source_ast(fn)
        params = [a.arg for a in node.args.args]
        missing = [p for p in params if p not in arg_names]
        kw = node.args.kwarg.arg if node.args.kwarg else None
        used = {n.id for n in ast.walk(node) if isinstance(n, ast.Name)}
        if missing or node.args.vararg or node.args.kwonlyargs or (kw is not None and kw in used):
            raise py2lean.Untranslatable("signature of %s changed: %s" % (node.name, ast.unparse(node.args)))
        return self.block(list(node.body), dict(arg_names), ind)

    # -------------------------------------------------------------- expressions
    def expr(self, node, scope):
        if (isinstance(node, ast.Call) and isinstance(node.func, ast.Name) and node.func.id == "reduce"
                and len(node.args) == 3 and not node.keywords and isinstance(node.args[0], ast.Lambda)
                and len(node.args[0].args.args) == 2 and not node.args[0].args.defaults):
            lam = node.args[0]
            acc, item = (a.arg for a in lam.args.args)
            sc = dict(scope)
            sc[acc], sc[item] = self.fresh(acc, sc), None
            sc[item] = self.fresh(item, sc)
            body, flag = py2lean.Translator.expr(self, lam.body, sc)
            return "pyReduce (fun %s %s => %s) %s %s" % (sc[acc], sc[item], body, self.pure(node.args[1], scope),
                                                         self.pure(node.args[2], scope)), "bind"
        if isinstance(node, ast.List) and self.r.item is not None:
            return "[" + ", ".join(self.r.item.format(x=self.pure(e, scope)) for e in node.elts) + "]", ""
        if (isinstance(node, ast.Compare) and len(node.ops) == 1 and isinstance(node.ops[0], (ast.Is, ast.IsNot))
                and isinstance(node.comparators[0], ast.Constant) and node.comparators[0].value is None):
            x = self.pure(node.left, scope)
            neg = isinstance(node.ops[0], ast.IsNot)
            if x == "none":
                return ("false" if neg else "true"), ""
            if x.startswith("(some "):
                return ("true" if neg else "false"), ""
            return "(%s%s.isNone)" % ("!" if neg else "", x), ""
        return py2lean.Translator.expr(self, node, scope)

    def pure(self, node, scope):
        e, flag = self.expr(node, scope)
        if flag == "bind":
            if not self._pending:
                raise py2lean.Untranslatable("monadic operand outside a statement: `%s`" % ast.unparse(node))
            tmp = "tmp%d" % self._tmp
            self._tmp += 1
            self._pending[-1].append((e, tmp))
            return tmp
        return e

    # -------------------------------------------------------------- statements
    def block(self, stmts, scope, ind):
        self._pending.append([])
        try:
            text = self._block1(stmts, scope, ind)
        finally:
            pend = self._pending.pop()
        pad = "  " * ind
        for e, tmp in reversed(pend):
            text = "%s(%s).bind fun %s =>\n%s" % (pad, e, tmp, text)
        return text

    def _block1(self, stmts, scope, ind):
        pad = "  " * ind
        if not stmts:
            if self.r.end is None:
                raise py2lean.Untranslatable("control reaches the end of the function without return/raise")
            try:
                return pad + self.r.end.format(**scope)
            except KeyError as e:
                raise py2lean.Untranslatable("end of function: no variable %s" % e)
        st, rest = stmts[0], stmts[1:]
        if isinstance(st, ast.Return) and st.value is None and self.r.end is not None:
            return self._block1([], scope, ind)        # bare `return` = falling off the end
        if isinstance(st, (ast.Import, ast.ImportFrom)):
            return self.block(rest, scope, ind)
        if isinstance(st, ast.If):
            c = self.pure(st.test, scope)
            v = _fold(c)
            if v is not None:
                return self.block(list(st.body if v else st.orelse) + rest, dict(scope), ind)
        if isinstance(st, ast.Raise):
            exc = st.exc
            name = None
            if isinstance(exc, ast.Call) and isinstance(exc.func, ast.Name):
                name = exc.func.id
            elif isinstance(exc, ast.Name):
                name = exc.id
            if name not in self.r.raises:
                raise py2lean.Untranslatable("raise of %r" % name)
            return pad + self.r.raises[name]
        for i, (pat, recv, tmpl) in enumerate(self.r.stmt):
            env = {}
            if py2lean.match(pat, st, env):
                self.used_rules.add(("s", i))
                target = env[recv]
                if not isinstance(target, ast.Name):
                    raise py2lean.Untranslatable("in-place call on a non-variable: `%s`" % ast.unparse(st))
                vals = {k: self.pure(v, scope) for k, v in env.items()}
                for k, want in self.r.stmt_guard[i].items():
                    if vals.get(k) != want:
                        raise py2lean.Untranslatable("call shape changed (`%s`: %s is %s, not %s)" % (
                            ast.unparse(st), k, vals.get(k), want))
                val = tmpl.format(**vals)
                new = self.fresh(target.id, scope)
                sc = dict(scope)
                sc[target.id] = new
                if self.r.stmt_flag[i] == "bind":
                    return pad + self.r.bind.format(m=val, x=new, k=self.block(rest, sc, ind + 1))
                return "%slet %s := %s\n%s" % (pad, new, val, self.block(rest, sc, ind))
        if (isinstance(st, ast.Assign) and len(st.targets) == 1 and isinstance(st.targets[0], ast.Tuple)
                and all(isinstance(e, ast.Name) for e in st.targets[0].elts)):
            for pat, names in self.r.tuples:
                env = {}
                if py2lean.match(pat, st.value, env) and len(names) == len(st.targets[0].elts):
                    for v in env.values():
                        self.pure(v, scope)      # the operands must be in the vocabulary
                    sc = dict(scope)
                    for e, nm in zip(st.targets[0].elts, names):
                        sc[e.id] = nm
                    return self.block(rest, sc, ind)
            raise py2lean.Untranslatable("no rule for `%s`" % ast.unparse(st))
        return py2lean.Translator.block(self, stmts, scope, ind)


def _stub(sig, value, why):
    return "/- TRANSLATION FAILED: %s -/\n%s :=\n  %s\n" % (why.replace("-/", "- /"), sig, value)


def _two(tr_rules, cls, names, argmap, ind=3):
    """bodies of the `before` and the `after` variant of a method (each with the rules of its direction)"""
    out = {}
    for direction in ("before", "after"):
        tr = EntryTranslator(tr_rules(direction))
        out[direction] = tr.function(cls.__dict__[names % direction], argmap, ind=ind)
    return out


def entry_text():
    """(lean text, [reasons of the definitions that could not be translated])"""
    import menpo.transform as mt
    from menpo.transform.base import Transform
    from menpo.transform.base.composable import ComposableTransform, TransformChain
    from menpo.transform.homogeneous.base import Homogeneous
    from menpo.transform.homogeneous import affine as affine_mod, scale as scale_mod
    from . import extract_c03
    fam = extract_c03.family_classes()
    mtab = dict(extract_c03.method_table())
    col = {m: i for i, m in enumerate(extract_c03.METHODS)}
    fam_rows = [k for k in mtab if k.startswith(".fam")]

    def suppliers(meth):
        seen = []
        for k in fam_rows:
            s = mtab[k][col[meth]]
            if s is not None and s not in seen:
                seen.append(s)
        return seen

    def klass(name):
        if name in fam:
            return fam[name]
        for mod in (affine_mod, scale_mod, mt):
            if hasattr(mod, name):
                return getattr(mod, name)
        raise py2lean.Untranslatable("supplier class %s not found" % name)

    failed = []
    parts = []

    def emit(sig, stub_value, make):
        """one definition: `make()` returns the text after `:=` (or the match arms)"""
        try:
            parts.append("%s%s\n" % (sig, make().rstrip("\n")))
        except py2lean.Untranslatable as e:
            failed.append("%s: %s" % (sig.split()[1], e))
            parts.append(_stub(sig, stub_value, str(e)))
        except (KeyError, AttributeError) as e:
            failed.append("%s: %r" % (sig.split()[1], e))
            parts.append(_stub(sig, stub_value, repr(e)))

    HTd = "(%s : HT d)"

    # ---- 1. _set_h_matrix of every class that supplies one, specialised to copy=False, skip_checks=True ----
    seth = suppliers("_set_h_matrix")

    def seth_rules():
        stmt = [("$s._h_matrix = $v", "s", HTd % "⟨{s}.cls, {v}⟩"),
                ("$s._sync_target_from_state()", "s", "{s}")]      # touches the target only
        for c in seth:
            stmt.append(("%s._set_h_matrix($s, $v, copy=$c, skip_checks=$k)" % c, "s", "genSetH_%s {s} {v}" % c, "",
                         {"c": "false", "k": "true"}))
        return ERules(expr=[("$x.copy()", "{x}")], stmt=stmt, end="{self}", ret="{e}")

    for c in seth:
        emit("def genSetH_%s (self : HT d) (value : Mat (d + 1)) : HT d" % c, "⟨.Homogeneous, Mat.one (d + 1)⟩",
             lambda c=c: " :=\n" + EntryTranslator(seth_rules()).function(
                 klass(c).__dict__["_set_h_matrix"],
                 {"self": "self", "value": "value", "copy": "false", "skip_checks": "true"}, ind=1))
    parts.append("def setHBodies : List (Sup × (HT d → Mat (d + 1) → HT d)) :=\n  [%s]\n" % ", ".join(
        "(.%s, genSetH_%s)" % (c, c) for c in seth))

    # ---- 2. Homogeneous._compose_before_inplace / _compose_after_inplace ----
    def hin_rules(direction):
        return ERules(
            expr=[("np.dot($x.h_matrix, $y.h_matrix)", "(Mat.mul {x}.M {y}.M)")],
            stmt=[("$s._set_h_matrix($m, copy=False, skip_checks=True)", "s",
                   "(callMeth mt ._set_h_matrix (.fam {s}.cls) setHBodies).map fun f => f {s} {m}", "bind")],
            end="some {self}", ret="some {e}", raise_="none")

    def two_arms(bodies, a1="self", a2="transform"):
        return "\n  | .before, %s, %s =>\n%s\n  | .after, %s, %s =>\n%s\n" % (a1, a2, bodies["before"], a1, a2, bodies["after"])

    emit("def genHomogInplace (mt : MethodTable) : Dir → HT d → HT d → Option (HT d)", "fun _ _ _ => none",
         lambda: two_arms(_two(hin_rules, Homogeneous, "_compose_%s_inplace", {"self": "self", "transform": "transform"})))

    # ---- 3. TransformChain._compose_*_inplace: `self` stands for the member list ----
    def cin_rules(direction):
        return ERules(stmt=[("$s.transforms.append($t)", "s", "({s} ++ [{t}])"),
                            ("$s.transforms.insert(0, $t)", "s", "({t} :: {s})")], end="{self}", ret="{e}")

    emit("def genChainInplace : Dir → List Nat → Nat → List Nat", "fun _ _ _ => []",
         lambda: two_arms(_two(cin_rules, TransformChain, "_compose_%s_inplace", {"self": "self", "transform": "transform"})))
    parts.append("def inplaceBodies (mt : MethodTable) (dir : Dir) : List (Sup × (Obj → Obj → Except Err Cell)) :=\n"
                 "  [(.Homogeneous, onFam (genHomogInplace mt dir)), (.TransformChain, onChain (genChainInplace dir))]\n")

    # ---- 3b. TransformChain._apply: `g m` stands for the `_apply` of the member with reference m ----
    capply_rules = ERules(expr=[("$t._apply($a)", "g {t} {a}"), ("$s.transforms", "{s}")], ret="{e}")
    emit("def genChainApply (g : Nat → Pt → Option Pt) (self : List Nat) (x : Pt) : Option Pt", "none",
         lambda: " :=\n" + EntryTranslator(capply_rules).function(TransformChain.__dict__["_apply"],
                                                                  {"self": "self", "x": "x"}, ind=1))

    EXC = {"ValueError": ".error .rejected", "NotImplementedError": ".error .notImplemented"}

    def inplace_stmt(direction):
        return ("$s._compose_%s_inplace($t)" % direction, "s",
                "(callObj mt ._compose_%s_inplace (inplaceBodies mt .%s) {s} {t}).map {s}.withCell" % (direction, direction),
                "bind")

    # ---- 4. ComposableTransform._compose_before / _compose_after (copy, then the in-place method) ----
    def naive_rules(direction):
        return ERules(expr=[("$x.copy()", "{x}.copied")], stmt=[inplace_stmt(direction)],
                      ret="{e}.fresh.map (·.cell)", raises=EXC)

    emit("def genNaiveCompose (mt : MethodTable) : Dir → Obj → Obj → Except Err Cell", "fun _ _ _ => .error .fuel",
         lambda: two_arms(_two(naive_rules, ComposableTransform, "_compose_%s", {"self": "self", "transform": "transform"})))

    # ---- 5. Transform.compose_before / compose_after ----
    def tc_rules(direction):
        return ERules(expr=[("TransformChain($l)", "mkChain {l}", "bind")], item="{x}.ref", raises=EXC)

    emit("def genTransformCompose : Dir → Obj → Obj → Except Err Cell", "fun _ _ _ => .error .fuel",
         lambda: two_arms(_two(tc_rules, Transform, "compose_%s", {"self": "self", "transform": "transform"})))
    parts.append("def composeBodies (tbl : ClassTable) (mt : MethodTable) (dir : Dir) : List (Sup × (Obj → Obj → Except Err Cell)) :=\n"
                 "  [(.Homogeneous, onFam (genLadder tbl ladderFuel dir)), (.ComposableTransform, genNaiveCompose mt dir)]\n")

    # ---- 6. ComposableTransform.compose_before / compose_after ----
    def entry_rules(direction):
        return ERules(
            expr=[("isinstance($t, $s.composes_with)", "gateCompose tbl {s}.cell {t}.cell"),
                  ("$s._compose_%s($t)" % direction,
                   "callObj mt ._compose_%s (composeBodies tbl mt .%s) {s} {t}" % (direction, direction), "bind"),
                  ("Transform.compose_%s($s, $t)" % direction, "genTransformCompose .%s {s} {t}" % direction, "bind")],
            ret=".ok {e}", raises=EXC)

    emit("def genEntryCompose (tbl : ClassTable) (mt : MethodTable) : Dir → Obj → Obj → Except Err Cell",
         "fun _ _ _ => .error .fuel",
         lambda: two_arms(_two(entry_rules, ComposableTransform, "compose_%s", {"self": "self", "transform": "transform"})))

    # ---- 7. ComposableTransform.compose_before_inplace / compose_after_inplace ----
    def entryin_rules(direction):
        return ERules(expr=[("isinstance($t, $s.composes_inplace_with)", "gateInplace tbl {s}.cell {t}.cell")],
                      stmt=[inplace_stmt(direction)], end=".ok {self}.cell", ret=".ok {e}", raises=EXC)

    emit("def genEntryInplace (tbl : ClassTable) (mt : MethodTable) : Dir → Obj → Obj → Except Err Cell",
         "fun _ _ _ => .error .fuel",
         lambda: two_arms(_two(entryin_rules, ComposableTransform, "compose_%s_inplace", {"self": "self", "transform": "transform"})))

    # ---- 8. as_non_alignment of every class that supplies one ----
    ana = suppliers("as_non_alignment")
    ana_rules = ERules(expr=[
        ("$x.h_matrix", "{x}.M"), ("$x.rotation_matrix", "(lin {x}.M)"),
        ("$x.translation_component", "(trans {x}.M)"), ("$x.scale", "({x}.M 0 0)"), ("$x.n_dims", "d"),
        ("Affine($m, skip_checks=True)", HTd % "⟨.Affine, {m}⟩"),
        ("Similarity($m, skip_checks=True)", HTd % "⟨.Similarity, {m}⟩"),
        ("Rotation($r, skip_checks=True)", HTd % "⟨.Rotation, mkAffine {r} (zeroVec d)⟩"),
        ("Translation($t)", HTd % "⟨.Translation, mkAffine (Mat.one d) {t}⟩"),
        ("UniformScale($s, $n)", HTd % "⟨.UniformScale, mkAffine (scalarMat {n} {s}) (zeroVec {n})⟩")], ret="{e}")
    for c in ana:
        emit("def genANA_%s (self : HT d) : HT d" % c, "⟨.Homogeneous, Mat.one (d + 1)⟩",
             lambda c=c: " :=\n" + EntryTranslator(ana_rules).function(klass(c).__dict__["as_non_alignment"],
                                                                     {"self": "self"}, ind=1))
    parts.append("def anaBodies : List (Sup × (HT d → HT d)) :=\n  [%s]\n" % ", ".join(
        "(.%s, genANA_%s)" % (c, c) for c in ana))

    # ---- 9. Homogeneous.from_vector, compose_after_from_vector_inplace ----
    fv_rules = ERules(expr=[("$x.copy()", "{x}.copied")],
                      stmt=[("$s._from_vector_inplace($v)", "s", "famFromVec {s} {v}", "bind")], ret="{e}.fresh", raises=EXC)
    emit("def genFromVector (self : Obj) (vector : List Rat) : Except Err Obj", ".error .fuel",
         lambda: " :=\n" + EntryTranslator(fv_rules).function(Homogeneous.__dict__["from_vector"],
                                                              {"self": "self", "vector": "vector"}, ind=1))
    fve_rules = ERules(
        expr=[("$s.from_vector($v)",
               "match callMeth mt .from_vector {s}.cell.kls [(Sup.Homogeneous, genFromVector)] with "
               "| some f => f {s} {v} | none => .error .noMethod", "bind")],
        stmt=[("$s.compose_after_inplace($t)", "s",
               "(callObj mt .compose_after_inplace [(.ComposableTransform, genEntryInplace tbl mt .after)] {s} {t})"
               ".map {s}.withCell", "bind")],
        end=".ok {self}.cell", ret=".ok {e}", raises=EXC)
    emit("def genFromVectorEntry (tbl : ClassTable) (mt : MethodTable) (self : Obj) (vector : List Rat) : Except Err Cell",
         ".error .fuel",
         lambda: " :=\n" + EntryTranslator(fve_rules).function(
             Homogeneous.__dict__["compose_after_from_vector_inplace"], {"self": "self", "vector": "vector"}, ind=1))

    # ---- 10. the Scale factory (called as `Scale(S)` by Affine.decompose: one array argument, n_dims=None) ----
    scale_rules = ERules(expr=[
        ("isinstance($x, Number)", "false"),                 # the argument is an array
        ("np.asarray($x)", "{x}"), ("np.all($x)", "vecAllNonzero {x}"),
        ("np.allclose($x, $x[0])", "uniform"),               # numpy's decision: a Boolean input of the model
        ("$x.shape[0]", "d"), ("$x[0]", "{x}.head"),
        ("UniformScale($s, $n)", HTd % "⟨.UniformScale, mkAffine (scalarMat {n} {s}) (zeroVec {n})⟩"),
        ("NonUniformScale($s)", HTd % "⟨.NonUniformScale, mkAffine (diagMat {s}) (zeroVec d)⟩")],
        ret=".ok {e}", raises=EXC)
    emit("def genScale (scalefactor : Vec d) (uniform : Bool) : Except Err (HT d)", ".error .fuel",
         lambda: " :=\n" + EntryTranslator(scale_rules).function(scale_mod.Scale,
                                                                 {"scale_factor": "scalefactor", "n_dims": "none"}, ind=1))

    # ---- 11. Affine.decompose (numpy's SVD factors are parameters), DiscreteAffine.decompose ----
    dec_rules = ERules(expr=[
        ("$x.translation_component", "(trans {x}.M)"),
        ("Rotation($r)", HTd % "⟨.Rotation, mkAffine {r} (zeroVec d)⟩"),
        ("Translation($t)", HTd % "⟨.Translation, mkAffine (Mat.one d) {t}⟩"),
        ("Scale($s)", "genScale {s} uniform", "bind")],
        tuples=[("np.linalg.svd($x.linear_component)", ["U", "S", "V"])],
        item="Leaf.fam d {x}", ret=".ok {e}", raises=EXC)
    emit("def genDecompose (self : HT d) (U V : Mat d) (S : Vec d) (uniform : Bool) : Except Err (List Leaf)",
         ".error .fuel",
         lambda: " :=\n" + EntryTranslator(dec_rules).function(klass("Affine").__dict__["decompose"], {"self": "self"}, ind=1))
    disc_rules = ERules(expr=[("$x.copy()", "{x}")], item="Leaf.fam d {x}", ret=".ok {e}", raises=EXC)
    emit("def genDecomposeDiscrete (self : HT d) : Except Err (List Leaf)", ".error .fuel",
         lambda: " :=\n" + EntryTranslator(disc_rules).function(klass("DiscreteAffine").__dict__["decompose"],
                                                                {"self": "self"}, ind=1))

    text = ("/- TRANSLATED by harness/trans_c03.py (harness/py2lean.py) from the SOURCE TEXT of the entry points of the\n"
            "   composition machinery of the current working tree (Transform / ComposableTransform / TransformChain /\n"
            "   Homogeneous compose_*, _compose_*, _set_h_matrix, as_non_alignment, from_vector, Affine.decompose, Scale) on\n"
            "   every run of `./check C03`; do not edit.  The lists `…Bodies` name the translated body of each class the\n"
            "   live method table names as a supplier.  GenProps/C03Entry.lean proves the entry points equal to the model. -/\n"
            "import MenpoModel.Core.C03Entry\nimport MenpoModel.Generated.C03Ladder\n\n"
            "namespace MenpoModel.Generated.C03\nopen MenpoModel.C03\n\nvariable {d : Nat}\n\n"
            + "\n".join(parts) + "\nend MenpoModel.Generated.C03\n")
    return text, failed


def entry_generated_files():
    text, failed = entry_text()
    return {ENTRY_REL: text}, failed
