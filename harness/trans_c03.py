"""C03 — the isinstance ladder of `Homogeneous._compose_before` / `_compose_after`, TRANSLATED from the source text of
the current working tree into Lean (`Generated/C03Ladder.lean`) on every run; `GenProps/C03Ladder.lean` proves the
translation equal to the hand-written `ladder` the C03 theorems are about, for every fuel, direction and pair of
operands.  (harness/py2lean.py is the translator; this file is the C03 vocabulary.)"""
import os
from . import py2lean

GEN_REL = os.path.join("MenpoModel", "Generated", "C03Ladder.lean")
GEN_TARGETS = ["MenpoModel.Generated.C03Ladder", "MenpoModel.GenProps.C03Ladder"]
N_OBLIGATIONS = 2

FAMILY = ["Homogeneous", "Affine", "Similarity", "Rotation", "Translation", "UniformScale", "NonUniformScale",
          "AlignmentAffine", "AlignmentSimilarity", "AlignmentRotation", "AlignmentTranslation",
          "AlignmentUniformScale"]


def rules(direction):
    other = "after" if direction == "before" else "before"
    expr = [
        ("isinstance($x, type($y))", "isSub tbl {x}.cls {y}.cls"),
        ("isinstance($x, HomogFamilyAlignment)", "isAlign tbl {x}.cls"),
        ("$x.as_non_alignment()", "(⟨stripCls tbl {x}.cls, nonAlignmentMatrix {x}.cls {x}.M⟩ : HT d)"),
        ("$x.copy()", "{x}"),
        # the mutual call: the other method of the same family, one unit of fuel less
        ("$x._compose_%s($y)" % other, "genLadder tbl fuel .%s {x} {y}" % other, "bind"),
        ("$x._compose_%s($y)" % direction, "genLadder tbl fuel .%s {x} {y}" % direction, "bind"),
    ]
    for c in FAMILY:
        expr.append(("isinstance($x, %s)" % c, "isSub tbl {x}.cls .%s" % c))
        expr.append(("%s($x.h_matrix)" % c, "(⟨.%s, {x}.M⟩ : HT d)" % c))
    stmt = [
        ("$x._compose_before_inplace($y)", "x", "(⟨{x}.cls, rawCompose .before {x}.M {y}.M⟩ : HT d)"),
        ("$x._compose_after_inplace($y)", "x", "(⟨{x}.cls, rawCompose .after {x}.M {y}.M⟩ : HT d)"),
    ]
    return py2lean.Rules(expr=expr, stmt=stmt, ret="some {e}", raise_="none")


def translate():
    """(lean text, None) or (None, reason)"""
    from menpo.transform.homogeneous.base import Homogeneous
    try:
        bodies = {}
        for direction in ("before", "after"):
            tr = py2lean.Translator(rules(direction))
            fn = getattr(Homogeneous, "_compose_" + direction)
            bodies[direction] = tr.function(fn, {"self": "s", "t": "t"}, ind=3)
    except py2lean.Untranslatable as e:
        return None, str(e)
    text = """/- TRANSLATED by harness/trans_c03.py (harness/py2lean.py) from the SOURCE TEXT of
   menpo.transform.homogeneous.base.Homogeneous._compose_before / _compose_after of the current working tree
   on every run of `./check C03`; do not edit.  GenProps/C03Ladder.lean proves it equal to `ladder`. -/
import MenpoModel.Core.C03Compose

namespace MenpoModel.Generated.C03
open MenpoModel.C03

variable {d : Nat}

def genLadder (tbl : ClassTable) : Nat → Dir → HT d → HT d → Option (HT d)
  | 0, _, _, _ => none
  | fuel + 1, .before, s, t =>
%s
  | fuel + 1, .after, s, t =>
%s

end MenpoModel.Generated.C03
""" % (bodies["before"], bodies["after"])
    return text, None


def generated_files():
    text, why = translate()
    if text is None:
        # the source no longer fits the vocabulary: emit a file whose obligation cannot be proved, naming the reason
        text = ("/- TRANSLATION FAILED: %s -/\nimport MenpoModel.Core.C03Compose\nnamespace MenpoModel.Generated.C03\n"
                "open MenpoModel.C03\nvariable {d : Nat}\n"
                "def genLadder (_tbl : ClassTable) : Nat → Dir → HT d → HT d → Option (HT d) := fun _ _ _ _ => none\n"
                "end MenpoModel.Generated.C03\n" % why.replace("-/", "- /"))
    return {GEN_REL: text}, why


if __name__ == "__main__":
    print(translate()[0] or translate()[1])
