"""C03 — the isinstance ladder of `Homogeneous._compose_before` / `_compose_after`, TRANSLATED from the source text of
the current working tree into Lean (`Generated/C03Ladder.lean`) on every run; `GenProps/C03Ladder.lean` proves the
translation equal to the hand-written `ladder` the C03 theorems are about, for every fuel, direction and pair of
operands.  (harness/py2lean.py is the translator; this file is the C03 vocabulary.)"""
import ast
import os
from . import py2lean

GEN_REL = os.path.join("MenpoModel", "Generated", "C03Ladder.lean")
GEN_TARGETS = ["MenpoModel.Generated.C03Ladder", "MenpoModel.GenProps.C03Ladder"]
N_OBLIGATIONS = 2

FAMILY = ["Homogeneous", "Affine", "Similarity", "Rotation", "Translation", "UniformScale", "NonUniformScale",
          "AlignmentAffine", "AlignmentSimilarity", "AlignmentRotation", "AlignmentTranslation",
          "AlignmentUniformScale"]


def _has_rule(tr):
    """does the vocabulary of the translator have a word for this call? (then py2lean_norm does not inline it)"""
    return lambda call: any(py2lean.match(r[0], call, {}) for r in tr.r.expr)


def _inline_procedures_pure_args(stmts, globals_, has_rule, depth=0):
    """(own post-pass on top of harness/py2lean_norm.py) a bare call statement `h(e1, e2)` of a module-level helper of the
    package that returns nothing (it raises, or works in place), whose arguments are CALL-FREE expressions (names,
    attribute chains, constants, comparisons of those: pure, so they may be duplicated) and that binds no local of its
    own, is its body with the parameters replaced - e.g. `_raise_not_vectorizable(n == 7)` is
    `if n == 7: raise NotImplementedError(..)` / `raise ValueError(..)`."""
    import copy
    from . import py2lean_norm as N
    out = []
    for st in stmts:
        if isinstance(st, ast.If):
            st = ast.If(test=st.test, body=_inline_procedures_pure_args(st.body, globals_, has_rule, depth),
                        orelse=_inline_procedures_pure_args(st.orelse, globals_, has_rule, depth))
        elif isinstance(st, ast.For):
            st = ast.For(target=st.target, iter=st.iter,
                         body=_inline_procedures_pure_args(st.body, globals_, has_rule, depth), orelse=st.orelse)
        elif (isinstance(st, ast.Expr) and isinstance(st.value, ast.Call) and isinstance(st.value.func, ast.Name)
              and not st.value.keywords and not has_rule(st.value) and depth < 3):
            h = N._helper(st.value.func.id, globals_)
            if h is not None:
                fnode, hglobals = h
                params = [x.arg for x in fnode.args.args]
                body = N._strip_doc(fnode.body)
                stores = any(isinstance(n, ast.Name) and isinstance(n.ctx, (ast.Store, ast.Del))
                             for b in body for n in ast.walk(b))
                returns = any(isinstance(n, (ast.Return, ast.Yield, ast.YieldFrom)) for b in body for n in ast.walk(b))
                if (len(params) == len(st.value.args) and all(N._no_calls(a) for a in st.value.args)
                        and not stores and not returns):
                    env = dict(zip(params, st.value.args))
                    new = [N._Subst(env).visit(copy.deepcopy(b)) for b in body]
                    out.extend(_inline_procedures_pure_args(new, hglobals, has_rule, depth + 1))
                    continue
        out.append(st)
    return out


def _post_normalise(fn, tr, node):
    f = getattr(fn, "__func__", fn)
    node.body = _inline_procedures_pure_args(list(node.body), getattr(f, "__globals__", {}), _has_rule(tr)) or [ast.Pass()]
    ast.fix_missing_locations(node)
    return node


def _with_temps_fallback(fn, tr, run, node):
    """translate the normalised source; if the vocabulary has no word for it, once more with single-use local
    temporaries replaced by their definitions (`first = xs[0]; np.allclose(xs, first)` is `np.allclose(xs, xs[0])`)"""
    from . import py2lean_norm
    try:
        return run(_post_normalise(fn, tr, node))
    except py2lean.Untranslatable as first:
        try:
            return run(_post_normalise(fn, tr, py2lean_norm.normalised(fn, _has_rule(tr), inline_temps=True)))
        except py2lean.Untranslatable:
            raise first


class NormTranslator(py2lean.Translator):
    """py2lean.Translator on the NORMALISED source (harness/py2lean_norm.py): module-level helper functions the
    vocabulary has no word for are inlined at their call sites, loops over literal tuples unrolled, keyword arguments
    sorted — a tidy-up of the Python that extracts or merges helpers leaves the translated term (provably) the same"""

    def function(self, fn, arg_names, ind=2):
        from . import py2lean_norm
        node = py2lean_norm.normalised(fn, _has_rule(self))
        params = [a.arg for a in node.args.args]
        missing = [p for p in params if p not in arg_names]
        if missing or node.args.vararg or node.args.kwarg or node.args.kwonlyargs:
            raise py2lean.Untranslatable("signature of %s changed: %s" % (node.name, ast.unparse(node.args)))
        return _with_temps_fallback(fn, self, lambda nd: self.block(list(nd.body), dict(arg_names), ind), node)


def rules(direction):
    other = "after" if direction == "before" else "before"
    expr = [
        ("isinstance($x, type($y))", "isSub tbl {x}.cls {y}.cls"),
        ("isinstance($x, HomogFamilyAlignment)", "isAlign tbl {x}.cls"),
        ("$x.as_non_alignment()", "(⟨stripCls tbl {x}.cls, nonAlignmentMatrix {x}.cls {x}.M⟩ : HT d)"),
        ("$x.copy()", "{x}"),
        # the mutual call: the other method of the same family, one unit of fuel less
        ("$x._compose_%s($y)" % other, "genLadder tbl fuel .%s {x} {y}" % other, "bind"),
        ("$x._compose_%s($y)" % direction, "genLadder tbl fuel .%s {x} {y}" % direction, "bind"),
    ]
    for c in FAMILY:
        expr.append(("isinstance($x, %s)" % c, "isSub tbl {x}.cls .%s" % c))
        # the constructor call `C(x.h_matrix)` and its respellings with the keyword arguments written out (sorted by
        # name by the normaliser).  All are the same word of the ladder model: matrices are values (`copy=` either
        # way), and the checks of `skip_checks=False` - the default, `ctorDefaults_ok` - are what
        # `ladder_ctor_justified` / `ladder_ctor_refuses_other_dims` (Props/C03Ctor.lean) say they are.
        word = "(⟨.%s, {x}.M⟩ : HT d)" % c
        expr.append(("%s($x.h_matrix)" % c, word))
        for cp in ("True", "False"):
            expr.append(("%s($x.h_matrix, copy=%s)" % (c, cp), word))
            for sk in ("True", "False"):
                expr.append(("%s($x.h_matrix, copy=%s, skip_checks=%s)" % (c, cp, sk), word))
        for sk in ("True", "False"):
            expr.append(("%s($x.h_matrix, skip_checks=%s)" % (c, sk), word))
    stmt = [
        ("$x._compose_before_inplace($y)", "x", "(⟨{x}.cls, rawCompose .before {x}.M {y}.M⟩ : HT d)"),
        ("$x._compose_after_inplace($y)", "x", "(⟨{x}.cls, rawCompose .after {x}.M {y}.M⟩ : HT d)"),
    ]
    return py2lean.Rules(expr=expr, stmt=stmt, ret="some {e}", raise_="none")


def translate():
    """(lean text, None) or (None, reason)"""
    from menpo.transform.homogeneous.base import Homogeneous
    try:
        bodies = {}
        for direction in ("before", "after"):
            tr = NormTranslator(rules(direction))
            fn = getattr(Homogeneous, "_compose_" + direction)
            bodies[direction] = tr.function(fn, {"self": "s", "t": "t"}, ind=3)
    except py2lean.Untranslatable as e:
        return None, str(e)
    text = """/- TRANSLATED by harness/trans_c03.py (harness/py2lean.py) from the SOURCE TEXT of
   menpo.transform.homogeneous.base.Homogeneous._compose_before / _compose_after of the current working tree
   on every run of `./check C03`; do not edit.  GenProps/C03Ladder.lean proves it equal to `ladder`. -/
import MenpoModel.Core.C03Compose

namespace MenpoModel.Generated.C03
open MenpoModel.C03

variable {d : Nat}

def genLadder (tbl : ClassTable) : Nat → Dir → HT d → HT d → Option (HT d)
  | 0, _, _, _ => none
  | fuel + 1, .before, s, t =>
%s
  | fuel + 1, .after, s, t =>
%s

end MenpoModel.Generated.C03
""" % (bodies["before"], bodies["after"])
    return text, None


def generated_files():
    text, why = translate()
    if text is None:
        # the source no longer fits the vocabulary: emit a file whose obligation cannot be proved, naming the reason
        text = ("/- TRANSLATION FAILED: %s -/\nimport MenpoModel.Core.C03Compose\nnamespace MenpoModel.Generated.C03\n"
                "open MenpoModel.C03\nvariable {d : Nat}\n"
                "def genLadder (_tbl : ClassTable) : Nat → Dir → HT d → HT d → Option (HT d) := fun _ _ _ _ => none\n"
                "end MenpoModel.Generated.C03\n" % why.replace("-/", "- /"))
    return {GEN_REL: text}, why


if __name__ == "__main__":
    print(translate()[0] or translate()[1])


# =====================================================================================================================
# Round 2: the ENTRY POINTS of the composition machinery, translated from source (Generated/C03Entry.lean) and proved
# equal to composeCell / inplaceCell / fromVectorCell / chainAdd / rawCompose / nonAlignmentMatrix / decomposeLeaves /
# scaleFactory by GenProps/C03Entry.lean.  The vocabulary is Core/C03Entry.lean.
# =====================================================================================================================
import ast

ENTRY_REL = os.path.join("MenpoModel", "Generated", "C03Entry.lean")
ENTRY_TARGETS = ["MenpoModel.Generated.C03Entry", "MenpoModel.GenProps.C03Entry"]
ENTRY_OBLIGATIONS = 17


class ERules(py2lean.Rules):
    """py2lean.Rules plus: stmt rules may carry a 4th element "bind" (the new value of the receiver is computed in
    the monad) and a 5th element {metavariable: required lean text} (the rule only applies to that call shape);
    `end`: what a function that falls off its end returns ({name} = current lean name of a python variable);
    `raises`: exception class name -> lean term; `item`: template of one element of a list display;
    `tuples`: [(python pattern, [lean names])] for `a, b, c = <call>` whose results are parameters of the model."""

    def __init__(self, expr=(), stmt=(), end=None, raises=None, item=None, tuples=(), **kw):
        self.stmt_flag = [(s[3] if len(s) > 3 else "") for s in stmt]
        self.stmt_guard = [(s[4] if len(s) > 4 else {}) for s in stmt]
        py2lean.Rules.__init__(self, expr=expr, stmt=[s[:3] for s in stmt], **kw)
        self.end = end
        self.raises = dict(raises or {})
        self.item = item
        self.tuples = [(py2lean._pat(p, "expr"), names) for p, names in tuples]


def _fold(text):
    """truth value of a translated condition that is a literal, else None"""
    t = text.strip()
    for _ in range(8):
        if t.startswith("(") and t.endswith(")") and t[1:-1] in ("true", "false", "!true", "!false"):
            t = t[1:-1]
        if t == "!true":
            t = "false"
        if t == "!false":
            t = "true"
    return True if t == "true" else False if t == "false" else None


class EntryTranslator(py2lean.Translator):
    """py2lean.Translator plus the statement / expression forms the entry points need (to be merged into py2lean):
      * a function may fall off its end (in-place methods): `rules.end`;
      * `import` / `from .. import` inside a function body: dropped;
      * `if` whose translated test is a literal (a keyword argument the call site fixes, `x is None` for an argument
        bound to `none`): only the live branch is translated (specialisation to the call shape);
      * in-place method calls whose new receiver value is monadic (stmt rule flag "bind"), guards on the call shape;
      * a monadic call used as an operand (`a.f(b.g(v))`): hoisted into a bind in front of the statement;
      * `raise Exc(...)` mapped by exception class; list displays; `x is None`; `a, b, c = <external routine>`."""

    def __init__(self, rules):
        py2lean.Translator.__init__(self, rules)
        self._pending = []
        self._tmp = 0

    def function(self, fn, arg_names, ind=2):
        """as py2lean.Translator.function, but a `**kwargs` parameter the body never mentions is accepted"""
        from . import py2lean_norm
        node = py2lean_norm.normalised(fn, _has_rule(self))
        params = [a.arg for a in node.args.args]
        missing = [p for p in params if p not in arg_names]
        kw = node.args.kwarg.arg if node.args.kwarg else None
        used = {n.id for n in ast.walk(node) if isinstance(n, ast.Name)}
        if missing or node.args.vararg or node.args.kwonlyargs or (kw is not None and kw in used):
            raise py2lean.Untranslatable("signature of %s changed: %s" % (node.name, ast.unparse(node.args)))
        return _with_temps_fallback(fn, self, lambda nd: self.block(list(nd.body), dict(arg_names), ind), node)

    # -------------------------------------------------------------- expressions
    def expr(self, node, scope):
        if (isinstance(node, ast.Call) and isinstance(node.func, ast.Name) and node.func.id == "reduce"
                and len(node.args) == 3 and not node.keywords and isinstance(node.args[0], ast.Lambda)
                and len(node.args[0].args.args) == 2 and not node.args[0].args.defaults):
            lam = node.args[0]
            acc, item = (a.arg for a in lam.args.args)
            sc = dict(scope)
            sc[acc], sc[item] = self.fresh(acc, sc), None
            sc[item] = self.fresh(item, sc)
            body, flag = py2lean.Translator.expr(self, lam.body, sc)
            return "pyReduce (fun %s %s => %s) %s %s" % (sc[acc], sc[item], body, self.pure(node.args[1], scope),
                                                         self.pure(node.args[2], scope)), "bind"
        if isinstance(node, ast.List) and self.r.item is not None:
            return "[" + ", ".join(self.r.item.format(x=self.pure(e, scope)) for e in node.elts) + "]", ""
        if (isinstance(node, ast.Compare) and len(node.ops) == 1 and isinstance(node.ops[0], (ast.Is, ast.IsNot))
                and isinstance(node.comparators[0], ast.Constant) and node.comparators[0].value is None):
            x = self.pure(node.left, scope)
            neg = isinstance(node.ops[0], ast.IsNot)
            if x == "none":
                return ("false" if neg else "true"), ""
            if x.startswith("(some "):
                return ("true" if neg else "false"), ""
            return "(%s%s.isNone)" % ("!" if neg else "", x), ""
        if isinstance(node, ast.IfExp):
            # `a if c else b`: a test that is a literal at this call shape selects its arm (as for `if` statements)
            c = self.pure(node.test, scope)
            v = _fold(c)
            if v is not None:
                return self.expr(node.body if v else node.orelse, scope)
            return "(if %s then %s else %s)" % (c, self.pure(node.body, scope), self.pure(node.orelse, scope)), ""
        return py2lean.Translator.expr(self, node, scope)

    def pure(self, node, scope):
        e, flag = self.expr(node, scope)
        if flag == "bind":
            if not self._pending:
                raise py2lean.Untranslatable("monadic operand outside a statement: `%s`" % ast.unparse(node))
            tmp = "tmp%d" % self._tmp
            self._tmp += 1
            self._pending[-1].append((e, tmp))
            return tmp
        return e

    # -------------------------------------------------------------- statements
    def block(self, stmts, scope, ind):
        self._pending.append([])
        try:
            text = self._block1(stmts, scope, ind)
        finally:
            pend = self._pending.pop()
        pad = "  " * ind
        for e, tmp in reversed(pend):
            text = "%s(%s).bind fun %s =>\n%s" % (pad, e, tmp, text)
        return text

    def _block1(self, stmts, scope, ind):
        pad = "  " * ind
        if not stmts:
            if self.r.end is None:
                raise py2lean.Untranslatable("control reaches the end of the function without return/raise")
            try:
                return pad + self.r.end.format(**scope)
            except KeyError as e:
                raise py2lean.Untranslatable("end of function: no variable %s" % e)
        st, rest = stmts[0], stmts[1:]
        if isinstance(st, ast.Return) and st.value is None and self.r.end is not None:
            return self._block1([], scope, ind)        # bare `return` = falling off the end
        if isinstance(st, (ast.Import, ast.ImportFrom)):
            return self.block(rest, scope, ind)
        if isinstance(st, ast.If):
            c = self.pure(st.test, scope)
            v = _fold(c)
            if v is not None:
                return self.block(list(st.body if v else st.orelse) + rest, dict(scope), ind)
        if isinstance(st, ast.Raise):
            exc = st.exc
            name = None
            if isinstance(exc, ast.Call) and isinstance(exc.func, ast.Name):
                name = exc.func.id
            elif isinstance(exc, ast.Name):
                name = exc.id
            if name not in self.r.raises:
                raise py2lean.Untranslatable("raise of %r" % name)
            return pad + self.r.raises[name]
        for i, (pat, recv, tmpl) in enumerate(self.r.stmt):
            env = {}
            if py2lean.match(pat, st, env):
                self.used_rules.add(("s", i))
                target = env[recv]
                if not isinstance(target, ast.Name):
                    raise py2lean.Untranslatable("in-place call on a non-variable: `%s`" % ast.unparse(st))
                vals = {k: self.pure(v, scope) for k, v in env.items()}
                for k, want in self.r.stmt_guard[i].items():
                    if vals.get(k) != want:
                        raise py2lean.Untranslatable("call shape changed (`%s`: %s is %s, not %s)" % (
                            ast.unparse(st), k, vals.get(k), want))
                val = tmpl.format(**vals)
                new = self.fresh(target.id, scope)
                sc = dict(scope)
                sc[target.id] = new
                if self.r.stmt_flag[i] == "bind":
                    return pad + self.r.bind.format(m=val, x=new, k=self.block(rest, sc, ind + 1))
                return "%slet %s := %s\n%s" % (pad, new, val, self.block(rest, sc, ind))
        if (isinstance(st, ast.Assign) and len(st.targets) == 1 and isinstance(st.targets[0], ast.Tuple)
                and all(isinstance(e, ast.Name) for e in st.targets[0].elts)):
            for pat, names in self.r.tuples:
                env = {}
                if py2lean.match(pat, st.value, env) and len(names) == len(st.targets[0].elts):
                    for v in env.values():
                        self.pure(v, scope)      # the operands must be in the vocabulary
                    sc = dict(scope)
                    for e, nm in zip(st.targets[0].elts, names):
                        sc[e.id] = nm
                    return self.block(rest, sc, ind)
            raise py2lean.Untranslatable("no rule for `%s`" % ast.unparse(st))
        return py2lean.Translator.block(self, stmts, scope, ind)


def _stub(sig, value, why):
    return "/- TRANSLATION FAILED: %s -/\n%s :=\n  %s\n" % (why.replace("-/", "- /"), sig, value)


def _two(tr_rules, cls, names, argmap, ind=3):
    """bodies of the `before` and the `after` variant of a method (each with the rules of its direction)"""
    out = {}
    for direction in ("before", "after"):
        tr = EntryTranslator(tr_rules(direction))
        out[direction] = tr.function(cls.__dict__[names % direction], argmap, ind=ind)
    return out


def entry_text():
    """(lean text, [reasons of the definitions that could not be translated])"""
    import menpo.transform as mt
    from menpo.transform.base import Transform
    from menpo.transform.base.composable import ComposableTransform, TransformChain
    from menpo.transform.homogeneous.base import Homogeneous
    from menpo.transform.homogeneous import affine as affine_mod, scale as scale_mod
    from . import extract_c03
    fam = extract_c03.family_classes()
    mtab = dict(extract_c03.method_table())
    col = {m: i for i, m in enumerate(extract_c03.METHODS)}
    fam_rows = [k for k in mtab if k.startswith(".fam")]

    def suppliers(meth):
        seen = []
        for k in fam_rows:
            s = mtab[k][col[meth]]
            if s is not None and s not in seen:
                seen.append(s)
        return seen

    def klass(name):
        if name in fam:
            return fam[name]
        for mod in (affine_mod, scale_mod, mt):
            if hasattr(mod, name):
                return getattr(mod, name)
        raise py2lean.Untranslatable("supplier class %s not found" % name)

    failed = []
    parts = []

    def emit(sig, stub_value, make):
        """one definition: `make()` returns the text after `:=` (or the match arms)"""
        try:
            parts.append("%s%s\n" % (sig, make().rstrip("\n")))
        except py2lean.Untranslatable as e:
            failed.append("%s: %s" % (sig.split()[1], e))
            parts.append(_stub(sig, stub_value, str(e)))
        except (KeyError, AttributeError) as e:
            failed.append("%s: %r" % (sig.split()[1], e))
            parts.append(_stub(sig, stub_value, repr(e)))

    HTd = "(%s : HT d)"

    # ---- 1. _set_h_matrix of every class that supplies one, specialised to copy=False, skip_checks=True ----
    seth = suppliers("_set_h_matrix")

    def seth_rules():
        stmt = [("$s._h_matrix = $v", "s", HTd % "⟨{s}.cls, {v}⟩"),
                ("$s._sync_target_from_state()", "s", "{s}")]      # touches the target only
        for c in seth:
            stmt.append(("%s._set_h_matrix($s, $v, copy=$c, skip_checks=$k)" % c, "s", "genSetH_%s {s} {v}" % c, "",
                         {"c": "false", "k": "true"}))
        return ERules(expr=[("$x.copy()", "{x}")], stmt=stmt, end="{self}", ret="{e}")

    for c in seth:
        emit("def genSetH_%s (self : HT d) (value : Mat (d + 1)) : HT d" % c, "⟨.Homogeneous, Mat.one (d + 1)⟩",
             lambda c=c: " :=\n" + EntryTranslator(seth_rules()).function(
                 klass(c).__dict__["_set_h_matrix"],
                 {"self": "self", "value": "value", "copy": "false", "skip_checks": "true"}, ind=1))
    parts.append("def setHBodies : List (Sup × (HT d → Mat (d + 1) → HT d)) :=\n  [%s]\n" % ", ".join(
        "(.%s, genSetH_%s)" % (c, c) for c in seth))

    # ---- 2. Homogeneous._compose_before_inplace / _compose_after_inplace ----
    def hin_rules(direction):
        return ERules(
            expr=[("np.dot($x.h_matrix, $y.h_matrix)", "(Mat.mul {x}.M {y}.M)")],
            stmt=[("$s._set_h_matrix($m, copy=False, skip_checks=True)", "s",
                   "(callMeth mt ._set_h_matrix (.fam {s}.cls) setHBodies).map fun f => f {s} {m}", "bind")],
            end="some {self}", ret="some {e}", raise_="none")

    def two_arms(bodies, a1="self", a2="transform"):
        return "\n  | .before, %s, %s =>\n%s\n  | .after, %s, %s =>\n%s\n" % (a1, a2, bodies["before"], a1, a2, bodies["after"])

    emit("def genHomogInplace (mt : MethodTable) : Dir → HT d → HT d → Option (HT d)", "fun _ _ _ => none",
         lambda: two_arms(_two(hin_rules, Homogeneous, "_compose_%s_inplace", {"self": "self", "transform": "transform"})))

    # ---- 3. TransformChain._compose_*_inplace: `self` stands for the member list ----
    def cin_rules(direction):
        return ERules(stmt=[("$s.transforms.append($t)", "s", "({s} ++ [{t}])"),
                            ("$s.transforms.insert(0, $t)", "s", "({t} :: {s})")], end="{self}", ret="{e}")

    emit("def genChainInplace : Dir → List Nat → Nat → List Nat", "fun _ _ _ => []",
         lambda: two_arms(_two(cin_rules, TransformChain, "_compose_%s_inplace", {"self": "self", "transform": "transform"})))
    parts.append("def inplaceBodies (mt : MethodTable) (dir : Dir) : List (Sup × (Obj → Obj → Except Err Cell)) :=\n"
                 "  [(.Homogeneous, onFam (genHomogInplace mt dir)), (.TransformChain, onChain (genChainInplace dir))]\n")

    # ---- 3b. TransformChain._apply: `g m` stands for the `_apply` of the member with reference m ----
    #      (py2lean2: `functools.reduce` with a lambda and an explicit `for` loop are the same left fold over the
    #      members; the running point is `Option Pt`: a member that cannot be applied ends the application)
    def capply():
        from . import py2lean2 as P2x
        r = P2x.Rules2M(expr=[("$t._apply($a)", "(({a}).bind (g {t}))"), ("$s.transforms", "{s}"),
                              ("reduce($f, $xs, $init)", "(List.foldl {f} {init} {xs})")], ret="{e}", raise_=None)

        class T(P2x.Translator2M):
            def function(self, fn, arg_names, ind=2, allow_unused=()):
                from . import py2lean_norm
                node = py2lean_norm.normalised(fn, _has_rule(self))
                params = [a.arg for a in node.args.args]
                if [p for p in params if p not in arg_names] or node.args.vararg or node.args.kwonlyargs:
                    raise py2lean.Untranslatable("signature of %s changed: %s" % (node.name, ast.unparse(node.args)))
                return self.block(list(node.body), dict(arg_names), ind, self.top_ctx())
        return " :=\n" + T(r).function(TransformChain.__dict__["_apply"], {"self": "self", "x": "(some x)"}, ind=1)
    emit("def genChainApply (g : Nat → Pt → Option Pt) (self : List Nat) (x : Pt) : Option Pt", "none", capply)

    EXC = {"ValueError": ".error .rejected", "NotImplementedError": ".error .notImplemented"}

    def inplace_stmt(direction):
        return ("$s._compose_%s_inplace($t)" % direction, "s",
                "(callObj mt ._compose_%s_inplace (inplaceBodies mt .%s) {s} {t}).map {s}.withCell" % (direction, direction),
                "bind")

    # ---- 4. ComposableTransform._compose_before / _compose_after (copy, then the in-place method) ----
    def naive_rules(direction):
        return ERules(expr=[("$x.copy()", "{x}.copied")], stmt=[inplace_stmt(direction)],
                      ret="{e}.fresh.map (·.cell)", raises=EXC)

    emit("def genNaiveCompose (mt : MethodTable) : Dir → Obj → Obj → Except Err Cell", "fun _ _ _ => .error .fuel",
         lambda: two_arms(_two(naive_rules, ComposableTransform, "_compose_%s", {"self": "self", "transform": "transform"})))

    # ---- 5. Transform.compose_before / compose_after ----
    def tc_rules(direction):
        return ERules(expr=[("TransformChain($l)", "mkChain {l}", "bind")], item="{x}.ref", raises=EXC)

    emit("def genTransformCompose : Dir → Obj → Obj → Except Err Cell", "fun _ _ _ => .error .fuel",
         lambda: two_arms(_two(tc_rules, Transform, "compose_%s", {"self": "self", "transform": "transform"})))
    parts.append("def composeBodies (tbl : ClassTable) (mt : MethodTable) (dir : Dir) : List (Sup × (Obj → Obj → Except Err Cell)) :=\n"
                 "  [(.Homogeneous, onFam (genLadder tbl ladderFuel dir)), (.ComposableTransform, genNaiveCompose mt dir)]\n")

    # ---- 6. ComposableTransform.compose_before / compose_after ----
    def entry_rules(direction):
        return ERules(
            expr=[("isinstance($t, $s.composes_with)", "gateCompose tbl {s}.cell {t}.cell"),
                  ("$s._compose_%s($t)" % direction,
                   "callObj mt ._compose_%s (composeBodies tbl mt .%s) {s} {t}" % (direction, direction), "bind"),
                  ("Transform.compose_%s($s, $t)" % direction, "genTransformCompose .%s {s} {t}" % direction, "bind")],
            ret=".ok {e}", raises=EXC)

    emit("def genEntryCompose (tbl : ClassTable) (mt : MethodTable) : Dir → Obj → Obj → Except Err Cell",
         "fun _ _ _ => .error .fuel",
         lambda: two_arms(_two(entry_rules, ComposableTransform, "compose_%s", {"self": "self", "transform": "transform"})))

    # ---- 7. ComposableTransform.compose_before_inplace / compose_after_inplace ----
    def entryin_rules(direction):
        return ERules(expr=[("isinstance($t, $s.composes_inplace_with)", "gateInplace tbl {s}.cell {t}.cell")],
                      stmt=[inplace_stmt(direction)], end=".ok {self}.cell", ret=".ok {e}", raises=EXC)

    emit("def genEntryInplace (tbl : ClassTable) (mt : MethodTable) : Dir → Obj → Obj → Except Err Cell",
         "fun _ _ _ => .error .fuel",
         lambda: two_arms(_two(entryin_rules, ComposableTransform, "compose_%s_inplace", {"self": "self", "transform": "transform"})))

    # ---- 8. as_non_alignment of every class that supplies one ----
    ana = suppliers("as_non_alignment")
    ana_rules = ERules(expr=[
        ("$x.h_matrix", "{x}.M"), ("$x.rotation_matrix", "(lin {x}.M)"),
        ("$x.translation_component", "(trans {x}.M)"), ("$x.scale", "({x}.M 0 0)"), ("$x.n_dims", "d"),
        ("Affine($m, skip_checks=True)", HTd % "⟨.Affine, {m}⟩"),
        ("Similarity($m, skip_checks=True)", HTd % "⟨.Similarity, {m}⟩"),
        ("Rotation($r, skip_checks=True)", HTd % "⟨.Rotation, mkAffine {r} (zeroVec d)⟩"),
        ("Translation($t)", HTd % "⟨.Translation, mkAffine (Mat.one d) {t}⟩"),
        ("UniformScale($s, $n)", HTd % "⟨.UniformScale, mkAffine (scalarMat {n} {s}) (zeroVec {n})⟩")], ret="{e}")
    for c in ana:
        emit("def genANA_%s (self : HT d) : HT d" % c, "⟨.Homogeneous, Mat.one (d + 1)⟩",
             lambda c=c: " :=\n" + EntryTranslator(ana_rules).function(klass(c).__dict__["as_non_alignment"],
                                                                     {"self": "self"}, ind=1))
    parts.append("def anaBodies : List (Sup × (HT d → HT d)) :=\n  [%s]\n" % ", ".join(
        "(.%s, genANA_%s)" % (c, c) for c in ana))

    # ---- 9. Homogeneous.from_vector, compose_after_from_vector_inplace ----
    fv_rules = ERules(expr=[("$x.copy()", "{x}.copied")],
                      stmt=[("$s._from_vector_inplace($v)", "s", "famFromVec {s} {v}", "bind")], ret="{e}.fresh", raises=EXC)
    emit("def genFromVector (self : Obj) (vector : List Rat) : Except Err Obj", ".error .fuel",
         lambda: " :=\n" + EntryTranslator(fv_rules).function(Homogeneous.__dict__["from_vector"],
                                                              {"self": "self", "vector": "vector"}, ind=1))
    fve_rules = ERules(
        expr=[("$s.from_vector($v)",
               "match callMeth mt .from_vector {s}.cell.kls [(Sup.Homogeneous, genFromVector)] with "
               "| some f => f {s} {v} | none => .error .noMethod", "bind")],
        stmt=[("$s.compose_after_inplace($t)", "s",
               "(callObj mt .compose_after_inplace [(.ComposableTransform, genEntryInplace tbl mt .after)] {s} {t})"
               ".map {s}.withCell", "bind")],
        end=".ok {self}.cell", ret=".ok {e}", raises=EXC)
    emit("def genFromVectorEntry (tbl : ClassTable) (mt : MethodTable) (self : Obj) (vector : List Rat) : Except Err Cell",
         ".error .fuel",
         lambda: " :=\n" + EntryTranslator(fve_rules).function(
             Homogeneous.__dict__["compose_after_from_vector_inplace"], {"self": "self", "vector": "vector"}, ind=1))

    # ---- 10. the Scale factory (called as `Scale(S)` by Affine.decompose: one array argument, n_dims=None) ----
    scale_rules = ERules(expr=[
        ("isinstance($x, Number)", "false"),                 # the argument is an array
        ("np.asarray($x)", "{x}"), ("np.all($x)", "vecAllNonzero {x}"),
        ("np.allclose($x, $x[0])", "uniform"),               # numpy's decision: a Boolean input of the model
        ("$x.shape[0]", "d"), ("$x[0]", "{x}.head"),
        ("UniformScale($s, $n)", HTd % "⟨.UniformScale, mkAffine (scalarMat {n} {s}) (zeroVec {n})⟩"),
        ("NonUniformScale($s)", HTd % "⟨.NonUniformScale, mkAffine (diagMat {s}) (zeroVec d)⟩")],
        ret=".ok {e}", raises=EXC)
    emit("def genScale (scalefactor : Vec d) (uniform : Bool) : Except Err (HT d)", ".error .fuel",
         lambda: " :=\n" + EntryTranslator(scale_rules).function(scale_mod.Scale,
                                                                 {"scale_factor": "scalefactor", "n_dims": "none"}, ind=1))

    # ---- 11. Affine.decompose (numpy's SVD factors are parameters), DiscreteAffine.decompose ----
    dec_rules = ERules(expr=[
        ("$x.translation_component", "(trans {x}.M)"),
        ("Rotation($r)", HTd % "⟨.Rotation, mkAffine {r} (zeroVec d)⟩"),
        ("Translation($t)", HTd % "⟨.Translation, mkAffine (Mat.one d) {t}⟩"),
        ("Scale($s)", "genScale {s} uniform", "bind")],
        tuples=[("np.linalg.svd($x.linear_component)", ["U", "S", "V"])],
        item="Leaf.fam d {x}", ret=".ok {e}", raises=EXC)
    emit("def genDecompose (self : HT d) (U V : Mat d) (S : Vec d) (uniform : Bool) : Except Err (List Leaf)",
         ".error .fuel",
         lambda: " :=\n" + EntryTranslator(dec_rules).function(klass("Affine").__dict__["decompose"], {"self": "self"}, ind=1))
    disc_rules = ERules(expr=[("$x.copy()", "{x}")], item="Leaf.fam d {x}", ret=".ok {e}", raises=EXC)
    emit("def genDecomposeDiscrete (self : HT d) : Except Err (List Leaf)", ".error .fuel",
         lambda: " :=\n" + EntryTranslator(disc_rules).function(klass("DiscreteAffine").__dict__["decompose"],
                                                                {"self": "self"}, ind=1))

    text = ("/- TRANSLATED by harness/trans_c03.py (harness/py2lean.py) from the SOURCE TEXT of the entry points of the\n"
            "   composition machinery of the current working tree (Transform / ComposableTransform / TransformChain /\n"
            "   Homogeneous compose_*, _compose_*, _set_h_matrix, as_non_alignment, from_vector, Affine.decompose, Scale) on\n"
            "   every run of `./check C03`; do not edit.  The lists `…Bodies` name the translated body of each class the\n"
            "   live method table names as a supplier.  GenProps/C03Entry.lean proves the entry points equal to the model. -/\n"
            "import MenpoModel.Core.C03Entry\nimport MenpoModel.Core.PyLoop\nimport MenpoModel.Generated.C03Ladder\n"
            "set_option linter.unusedVariables false\n\n"
            "namespace MenpoModel.Generated.C03\nopen MenpoModel.C03\n\nvariable {d : Nat}\n\n"
            + "\n".join(parts) + "\nend MenpoModel.Generated.C03\n")
    return text, failed


def entry_generated_files():
    text, failed = entry_text()
    return {ENTRY_REL: text}, failed


# =====================================================================================================================
# Round 3: the NUMPY-LEVEL BODIES of the homogeneous family, translated from source with harness/py2lean2.py
# (Generated/C03Src.lean) and proved equal to `fromVec`, `ctorMat` / `ctorRotation` / `ctorTranslation` /
# `ctorUniformScale` / `ctorNonUniformScale` / `identityOf` by GenProps/C03Src.lean.  Vocabulary: Core/C03Src.lean.
#   properties      Homogeneous.n_dims, Affine.linear_component / translation_component, Rotation.rotation_matrix,
#                   UniformScale.scale, NonUniformScale.scale
#   setters         Homogeneous / Affine / AlignmentAffine ._set_h_matrix (copy and skip_checks as variables),
#                   Rotation / AlignmentRotation .set_rotation_matrix
#   constructors    __init__ of the seven non-alignment classes, the seven init_identity
#   vector form     _from_vector_inplace of the ten classes that define one
# plus the method resolution of `__init__`, `set_rotation_matrix`, `init_identity` and the properties
# (Generated.C03.methodTable2, obligation `methodTable2_ok`) and the defaults of `copy` / `skip_checks`.
# =====================================================================================================================
from . import py2lean2 as P2

SRC_REL = os.path.join("MenpoModel", "Generated", "C03Src.lean")
SRC_TARGETS = ["MenpoModel.Generated.C03Src", "MenpoModel.GenProps.C03Src"]
SRC_OBLIGATIONS = 44
METHODS2 = ["__init__", "set_rotation_matrix", "init_identity", "n_dims", "linear_component", "translation_component",
            "rotation_matrix", "scale"]
SRC_EXC = {"ValueError": ".error .shape", "NotImplementedError": ".error .notImplemented"}


class SrcTranslator(P2.Translator2M):
    """Translator2M on a copy of the function's AST in which the keyword arguments of every call are sorted by name
    (`f(x, skip_checks=True, copy=False)` and `f(x, copy=False, skip_checks=True)` are the same call: the patterns are
    written in sorted order)."""

    def function(self, fn, arg_names, ind=2, allow_unused=()):
        from . import py2lean_norm
        node = py2lean_norm.normalised(fn, _has_rule(self))
        for n in ast.walk(node):
            if isinstance(n, ast.Call) and any(k.arg is None for k in n.keywords):
                raise P2.Untranslatable("call with **kwargs: `%s`" % ast.unparse(n))
        a = node.args
        params = [x.arg for x in a.posonlyargs + a.args + a.kwonlyargs]
        if a.vararg:
            params.append(a.vararg.arg)
        if a.kwarg:
            params.append(a.kwarg.arg)
        mentioned = {n.id for st in node.body for n in ast.walk(st) if isinstance(n, ast.Name)}
        for p in params:
            if p not in arg_names and not (p in allow_unused and p not in mentioned):
                raise P2.Untranslatable("signature of %s changed: %s" % (node.name, ast.unparse(node.args)))
        return _with_temps_fallback(fn, self, lambda nd: self.block(list(nd.body), dict(arg_names), ind, self.top_ctx()),
                                    node)


def _float3(n, d):
    return "(%d : Rat)" % n if d == 1 else "((%d : Rat) / %d)" % (n, d)


def _lean_bool(text, what):
    if text == "True":
        return "true"
    if text == "False":
        return "false"
    raise P2.Untranslatable("default of %s is `%s`, not a Boolean literal" % (what, text))


def method_table2():
    """[(family class, [supplier of each of METHODS2 or None])] read from the live MROs"""
    from . import extract_c03
    fam = extract_c03.family_classes()
    names = [n for n in extract_c03.ORDER if n in fam] + sorted(n for n in fam if n not in extract_c03.ORDER)
    return [(n, [next((k.__name__ for k in fam[n].__mro__ if m in k.__dict__), None) for m in METHODS2])
            for n in names]


def _plain(f):
    """the function behind a method / classmethod / property of a class __dict__"""
    if isinstance(f, property):
        return f.fget
    return getattr(f, "__func__", f)


def src_items():
    """[(lean signature ending in `:=`, thunk -> body, stub body)] in definition order"""
    from . import extract_c03
    fam = extract_c03.family_classes()
    T = SrcTranslator

    def fn(cls, name):
        if cls not in fam or name not in fam[cls].__dict__:
            raise P2.Untranslatable("%s.%s is not defined any more" % (cls, name))
        return _plain(fam[cls].__dict__[name])

    def default_of(cls, name, param):
        d = T(P2.Rules2M()).defaults(fn(cls, name))
        if param not in d:
            raise P2.Untranslatable("parameter `%s` of %s.%s has no default" % (param, cls, name))
        return _lean_bool(d[param], "%s.%s(%s)" % (cls, name, param))

    # ---- the numpy words (order: the more specific pattern first)
    NP = [
        ("None", "pyNone"),
        ("$x.copy()", "{x}"),
        ("np.eye($n)", "(Arr2.eye {n})"), ("np.identity($n)", "(Arr2.eye {n})"),
        ("np.asarray($x)", "{x}"), ("np.zeros($n)", "(npZeros {n})"), ("np.ones($n)", "(npOnes {n})"),
        ("np.array($rows)", "(Arr2.ofRows {rows})"),
        ("$s.h_matrix is not None", "({s}.h.isSome)"), ("$s.h_matrix is None", "({s}.h.isNone)"),
        ("$s.h_matrix", "{s}.hm"), ("$s._h_matrix", "{s}.hm"),
        ("$x.shape", "(pyShape {x})"), ("$x.size", "(pySize {x})"), ("np.size($x)", "(pySize {x})"),
        ("len($x)", "(pyLen {x})"),
        ("np.allclose($a, $b)", "(npAllclose {a} {b})"),
        ("$x not in $l", "(!(pyIn {x} {l}))"), ("$x in $l", "(pyIn {x} {l})"),
        ("$a[-1, :-1]", "(Arr2.lastRowInit {a})"), ("$a[:-1, :-1]", "(Arr2.initInit {a})"),
        ("$a[:-1, -1]", "(Arr2.lastColInit {a})"), ("$a[$i, $j]", "(Arr2.at {a} {i} {j})"),
        ("$a.diagonal()", "(Arr2.diagonal {a})"),
        ("$v[:-1]", "(List.dropLast {v})"), ("$v[$i:]", "(pyDrop {v} {i})"), ("$v[$i]", "(pyItem {v} {i})"),
        ("$v.reshape(($a, $b), order='F')", "(npReshapeF {v} {a} {b})", "bind"),
        ("$v.reshape($sh)", "(npReshape {v} {sh})", "bind"),
        ("np.finfo(float).eps", "((1 : Rat) / 4503599627370496)"),
        ("np.dot($a, $b)", "(vdot {a} {b})"),
        ("$p * np.sqrt($k)", "(SVec.mk {k} {p})"), ("np.outer($a, $a)", "(SVec.outerSelf {a})"),
    ]
    PROPS = [("$s.n_dims", "(callNDims t2 nDimsBodies {s})"), ("$s.linear_component", "(genLinearComponent {s})"),
             ("$s.translation_component", "(genTranslationComponent {s})"),
             ("$s.rotation_matrix", "(genRotationMatrix {s})")]
    NPS = [
        ("$s._h_matrix = None", "s", "({s}.clearH)"), ("$s._h_matrix = $v", "s", "({s}.setH {v})"),
        ("$s._sync_target_from_state()", "s", "{s}"),             # writes the target only
        ("$s._h_matrix[:-1, :-1] = $v", "s", "({s}.setLinBlock {v})", "bind"),
        ("$s.h_matrix[:-1, -1] = $v", "s", "({s}.setTransCol {v})", "bind"),
        ("np.fill_diagonal($s.h_matrix, $v)", "s", "({s}.fillDiag {v})", "bind"),
        ("$s.h_matrix[$i, $j] = $v", "s", "({s}.setEntry {i} {j} {v})", "bind"),
        ("$h[:-1, -1] = $v", "h", "(Arr2.setLastColInit {h} {v})", "bind"),
        ("np.fill_diagonal($h, $v)", "h", "(Arr2.fillDiagonal {h} {v})"),
        ("$h[:$k, :] += $m", "h", "(Arr2.addTopRows {h} {k} {m})", "bind"),
        ("$h[:$k, $j] = $v", "h", "(Arr2.setColTop {h} {k} {j} {v})", "bind"),
        ("$h[$i, $j] += $v", "h", "(Arr2.set {h} {i} {j} (Arr2.at {h} {i} {j} + {v}))"),
        ("$h[$i, $j] = $v", "h", "(Arr2.set {h} {i} {j} {v})"),
    ]
    # calls of other translated bodies (keyword arguments in sorted order, see SrcTranslator)
    CALLS = [
        ("$s._set_h_matrix($v, copy=$c, skip_checks=$k)", "s", "(callSetH mt (setHFullBodies mt t2) {s} {v} {c} {k})", "bind"),
        ("Affine._set_h_matrix($s, $v, copy=$c, skip_checks=$k)", "s", "(genSetHFull_Affine mt t2 {s} {v} {c} {k})", "bind"),
        ("Homogeneous.__init__($s, $m, copy=$c, skip_checks=$k)", "s", "(genInit_Homogeneous mt t2 {s} {m} {c} {k})", "bind"),
        ("Affine.__init__($s, $m, copy=$c, skip_checks=$k)", "s", "(genInit_Affine mt t2 {s} {m} {c} {k})", "bind"),
        ("Similarity.__init__($s, $m, copy=$c, skip_checks=$k)", "s", "(genInit_Similarity mt t2 {s} {m} {c} {k})", "bind"),
        ("$s.set_rotation_matrix($v, skip_checks=$k)", "s", "(callSetRot t2 (setRotBodies mt t2) {s} {v} {k})", "bind"),
        ("Rotation.set_rotation_matrix($s, $v, skip_checks=$k)", "s", "(genSetRot_Rotation mt t2 {s} {v} {k})", "bind"),
        ("Similarity._from_vector_inplace($s, $p)", "s", "(genFVI_Similarity mt t2 {s} {p})", "bind"),
        ("Translation._from_vector_inplace($s, $p)", "s", "(genFVI_Translation mt t2 {s} {p})", "bind"),
        ("UniformScale._from_vector_inplace($s, $p)", "s", "(genFVI_UniformScale mt t2 {s} {p})", "bind"),
    ]

    def R(expr=(), stmt=(), **kw):
        kw.setdefault("raise_", None)
        kw.setdefault("raise_by", SRC_EXC)
        kw.setdefault("float_", _float3)
        kw.setdefault("binop", {ast.Div: "({a} / {b})"})
        return P2.Rules2M(expr=list(expr) + NP, stmt=list(stmt) + NPS, **kw)

    INPLACE = dict(ret=".ok {self}", end=".ok {self}")        # an in-place method: what matters is the receiver afterwards
    out = []
    STUB = ".error .fuel"

    def item(sig, stub, cls, name, rules, args, **kw):
        out.append((sig, lambda: T(rules()).function(fn(cls, name), args, ind=1, **kw), stub))

    # ---- properties
    item("def genNDims (self : DObj) : Int :=", "-1", "Homogeneous", "n_dims", lambda: R(ret="{e}"), {"self": "self"})
    out.append(("def nDimsBodies : List (Sup × (DObj → Int)) :=",
                lambda: "  [(.Homogeneous, genNDims), (.Targetable, targetNDims)]", "[]"))
    item("def genLinearComponent (self : DObj) : Arr2 :=", "Arr2.empty", "Affine", "linear_component",
         lambda: R(ret="{e}"), {"self": "self"})
    item("def genTranslationComponent (self : DObj) : List Rat :=", "[]", "Affine", "translation_component",
         lambda: R(ret="{e}"), {"self": "self"})
    item("def genRotationMatrix (self : DObj) : Arr2 :=", "Arr2.empty", "Rotation", "rotation_matrix",
         lambda: R(PROPS, ret="{e}"), {"self": "self"})
    item("def genUScale (self : DObj) : Rat :=", "0", "UniformScale", "scale", lambda: R(ret="{e}"), {"self": "self"})
    item("def genNUScale (self : DObj) : List Rat :=", "[]", "NonUniformScale", "scale", lambda: R(ret="{e}"),
         {"self": "self"})

    # ---- _set_h_matrix of every class that supplies one, with copy / skip_checks as variables
    mtab = dict(extract_c03.method_table())
    col = {m: i for i, m in enumerate(extract_c03.METHODS)}

    def suppliers(meth):
        seen = []
        for k in mtab:
            if k.startswith(".fam"):
                s = mtab[k][col[meth]]
                if s is not None and s not in seen:
                    seen.append(s)
        return seen

    SETH_ARGS = {"self": "self", "value": "value", "copy": "copy", "skip_checks": "skipchecks"}
    seth = suppliers("_set_h_matrix")
    for c in seth:
        item("def genSetHFull_%s (mt : MethodTable) (t2 : MethodTable2) (self : DObj) (value : Arr2) (copy skipchecks : Bool) : Except Err DObj :=" % c, STUB,
             c, "_set_h_matrix", lambda: R(PROPS, CALLS[1:2], **INPLACE), SETH_ARGS)
    out.append(("def setHFullBodies (mt : MethodTable) (t2 : MethodTable2) : List (Sup × (DObj → Arr2 → Bool → Bool → Except Err DObj)) :=",
                lambda: "  [%s]" % ", ".join("(.%s, genSetHFull_%s mt t2)" % (c, c) for c in seth), "[]"))

    # ---- set_rotation_matrix
    t2 = dict(method_table2())
    col2 = {m: i for i, m in enumerate(METHODS2)}

    def suppliers2(meth):
        seen = []
        for k, row in t2.items():
            s = row[col2[meth]]
            if s is not None and s not in seen:
                seen.append(s)
        return seen

    setrot = suppliers2("set_rotation_matrix")
    for c in setrot:
        item("def genSetRot_%s (mt : MethodTable) (t2 : MethodTable2) (self : DObj) (value : Arr2) (skipchecks : Bool) : Except Err DObj :=" % c, STUB,
             c, "set_rotation_matrix", lambda: R(PROPS, CALLS[6:7], **INPLACE),
             {"self": "self", "value": "value", "skip_checks": "skipchecks"})
    out.append(("def setRotBodies (mt : MethodTable) (t2 : MethodTable2) : List (Sup × (DObj → Arr2 → Bool → Except Err DObj)) :=",
                lambda: "  [%s]" % ", ".join("(.%s, genSetRot_%s mt t2)" % (c, c) for c in setrot), "[]"))

    # ---- __init__ of the seven non-alignment classes
    MAT_ARGS = {"self": "self", "h_matrix": "hmatrix", "copy": "copy", "skip_checks": "skipchecks"}
    MAT_SIG = "def genInit_%s (mt : MethodTable) (t2 : MethodTable2) (self : DObj) (hmatrix : Arr2) (copy skipchecks : Bool) : Except Err DObj :="
    item(MAT_SIG % "Homogeneous", STUB, "Homogeneous", "__init__", lambda: R(PROPS, CALLS[0:1], **INPLACE), MAT_ARGS)
    item(MAT_SIG % "Affine", STUB, "Affine", "__init__", lambda: R(PROPS, CALLS[2:3], **INPLACE), MAT_ARGS)
    item(MAT_SIG % "Similarity", STUB, "Similarity", "__init__", lambda: R(PROPS, CALLS[3:4], **INPLACE), MAT_ARGS)
    out.append(("def initMatBodies (mt : MethodTable) (t2 : MethodTable2) : List (Sup × (DObj → Arr2 → Bool → Bool → Except Err DObj)) :=",
                lambda: "  [(.Homogeneous, genInit_Homogeneous mt t2), (.Affine, genInit_Affine mt t2), "
                        "(.Similarity, genInit_Similarity mt t2)]", "[]"))
    item("def genInit_Rotation (mt : MethodTable) (t2 : MethodTable2) (self : DObj) (rotationmatrix : Arr2) "
         "(skipchecks : Bool) : Except Err DObj :=", STUB, "Rotation", "__init__",
         lambda: R(PROPS, [CALLS[4], CALLS[5]], **INPLACE),
         {"self": "self", "rotation_matrix": "rotationmatrix", "skip_checks": "skipchecks"})
    item("def genInit_Translation (mt : MethodTable) (t2 : MethodTable2) (self : DObj) (translation : List Rat) (skipchecks : Bool) : "
         "Except Err DObj :=", STUB, "Translation", "__init__", lambda: R(PROPS, CALLS[4:5], **INPLACE),
         {"self": "self", "translation": "translation", "skip_checks": "skipchecks"})
    item("def genInit_UniformScale (mt : MethodTable) (t2 : MethodTable2) (self : DObj) (scale : Rat) (ndims : Int) (skipchecks : Bool) : "
         "Except Err DObj :=", STUB, "UniformScale", "__init__", lambda: R(PROPS, CALLS[4:5], **INPLACE),
         {"self": "self", "scale": "scale", "n_dims": "ndims", "skip_checks": "skipchecks"})
    item("def genInit_NonUniformScale (mt : MethodTable) (t2 : MethodTable2) (self : DObj) (scale : List Rat) (skipchecks : Bool) : "
         "Except Err DObj :=", STUB, "NonUniformScale", "__init__", lambda: R(PROPS, CALLS[3:4], **INPLACE),
         {"self": "self", "scale": "scale", "skip_checks": "skipchecks"})

    # ---- init_identity: constructor calls with the LIVE defaults of copy / skip_checks
    def ctor_rules():
        dc = default_of("Homogeneous", "__init__", "copy")
        dk = default_of("Homogeneous", "__init__", "skip_checks")
        return R([
            ("Homogeneous($m)", "(callInitMat t2 (initMatBodies mt t2) .Homogeneous {m} %s %s)" % (dc, dk), "bind"),
            ("cls($m, copy=$c, skip_checks=$k)", "(callInitMat t2 (initMatBodies mt t2) cls {m} {c} {k})", "bind"),
            ("Rotation($m)", "(genInit_Rotation mt t2 (DObj.new .Rotation) {m} %s)"
             % default_of("Rotation", "__init__", "skip_checks"), "bind"),
            ("Translation($v)", "(genInit_Translation mt t2 (DObj.new .Translation) {v} %s)"
             % default_of("Translation", "__init__", "skip_checks"), "bind"),
            ("UniformScale($s, $n)", "(genInit_UniformScale mt t2 (DObj.new .UniformScale) {s} {n} %s)"
             % default_of("UniformScale", "__init__", "skip_checks"), "bind"),
            ("NonUniformScale($v)", "(genInit_NonUniformScale mt t2 (DObj.new .NonUniformScale) {v} %s)"
             % default_of("NonUniformScale", "__init__", "skip_checks"), "bind")], ret=".ok {e}")

    ident = suppliers2("init_identity")
    for c in ident:
        item("def genIdentity_%s (mt : MethodTable) (t2 : MethodTable2) (cls : HCls) (ndims : Int) : Except Err DObj :=" % c,
             STUB, c, "init_identity", ctor_rules, {"cls": "cls", "n_dims": "ndims"})
    out.append(("def identityBodies (mt : MethodTable) (t2 : MethodTable2) : List (Sup × (HCls → Int → Except Err DObj)) :=",
                lambda: "  [%s]" % ", ".join("(.%s, genIdentity_%s mt t2)" % (c, c) for c in ident), "[]"))

    # ---- as_non_alignment once more, this time THROUGH the translated constructors and properties (round 2 translated it
    #      over constructor words; here `Affine(m, skip_checks=True)` runs genInit_Affine, `self.rotation_matrix` runs
    #      genRotationMatrix, ...)
    def ana_rules():
        dc = default_of("Homogeneous", "__init__", "copy")
        return R([
            ("Affine($m, skip_checks=$k)", "(callInitMat t2 (initMatBodies mt t2) .Affine {m} %s {k})" % dc, "bind"),
            ("Similarity($m, skip_checks=$k)", "(callInitMat t2 (initMatBodies mt t2) .Similarity {m} %s {k})" % dc, "bind"),
            ("Rotation($m, skip_checks=$k)", "(genInit_Rotation mt t2 (DObj.new .Rotation) {m} {k})", "bind"),
            ("Translation($v)", "(genInit_Translation mt t2 (DObj.new .Translation) {v} %s)"
             % default_of("Translation", "__init__", "skip_checks"), "bind"),
            ("UniformScale($s, $n)", "(genInit_UniformScale mt t2 (DObj.new .UniformScale) {s} {n} %s)"
             % default_of("UniformScale", "__init__", "skip_checks"), "bind"),
            ("$s.scale", "(genUScale {s})")] + PROPS, ret=".ok {e}")

    ana = suppliers("as_non_alignment")
    for c in ana:
        item("def genANA2_%s (mt : MethodTable) (t2 : MethodTable2) (self : DObj) : Except Err DObj :=" % c, STUB,
             c, "as_non_alignment", ana_rules, {"self": "self"})
    out.append(("def ana2Bodies (mt : MethodTable) (t2 : MethodTable2) : List (Sup × (DObj → Except Err DObj)) :=",
                lambda: "  [%s]" % ", ".join("(.%s, genANA2_%s mt t2)" % (c, c) for c in ana), "[]"))

    # ---- _from_vector_inplace of every class that supplies one
    fvi = suppliers("_from_vector_inplace")
    order = [c for c in ["Translation", "UniformScale", "NonUniformScale", "Homogeneous", "Affine", "Similarity", "Rotation"]
             if c in fvi] + [c for c in fvi if c.startswith("Alignment")]
    order += [c for c in fvi if c not in order]
    for c in order:
        pname = P2.source_ast(fn(c, "_from_vector_inplace"))[0].args.args[1].arg \
            if c in fam and "_from_vector_inplace" in fam[c].__dict__ else "p"
        item("def genFVI_%s (mt : MethodTable) (t2 : MethodTable2) (self : DObj) (p : List Rat) : Except Err DObj :=" % c,
             STUB, c, "_from_vector_inplace", lambda: R(PROPS, [CALLS[0], CALLS[5]] + CALLS[7:], **INPLACE),
             {"self": "self", pname: "p"})
    out.append(("def fviBodies (mt : MethodTable) (t2 : MethodTable2) : List (Sup × (DObj → List Rat → Except Err DObj)) :=",
                lambda: "  [%s]" % ", ".join("(.%s, genFVI_%s mt t2)" % (c, c) for c in order), "[]"))

    # ---- Homogeneous._compose_before_inplace / _compose_after_inplace once more, on TYPED matrices (Core/C03Dtype.lean):
    #      which dtype the product has and that it is stored as it is.  A cast (`.astype(self.h_matrix.dtype)`) has a
    #      word too, so that such a change is translated and then refuted by the obligation instead of being refused.
    def typed_rules():
        return P2.Rules2M(
            expr=[("np.dot($x.h_matrix, $y.h_matrix)", "(TMat.dot {x} {y})"),
                  ("$m.astype($s.h_matrix.dtype)", "(TMat.astype {m} {s}.dt)"), ("$m.copy()", "{m}")],
            stmt=[("$s._set_h_matrix($m, copy=$c, skip_checks=$k)", "s", "{m}")],      # stores the array it is given
            raise_=None, raise_by=SRC_EXC, ret="{self}", end="{self}")

    def typed_body():
        from menpo.transform.homogeneous.base import Homogeneous
        arms = []
        for direction in ("before", "after"):
            f = Homogeneous.__dict__["_compose_%s_inplace" % direction]
            arms.append("  | .%s, self, transform =>\n%s" % (
                direction, T(typed_rules()).function(f, {"self": "self", "transform": "transform"}, ind=2)))
        return "\n".join(arms)
    out.append(("def genInplaceT {d : Nat} : Dir → TMat (d + 1) → TMat (d + 1) → TMat (d + 1)", typed_body,
                "  | _, self, _ => ⟨.float64, self.M⟩"))

    # ---- the second method table and the defaults
    def table2():
        rows = []
        for n, sup in method_table2():
            rows.append("  (.%s, [%s])" % (n, ", ".join("none" if s is None else "some .%s" % s for s in sup)))
        return "  [\n" + ",\n".join(rows) + "]"
    out.append(("def methodTable2 : MethodTable2 :=", table2, "[]"))

    def defaults():
        rows = []
        for c, m in (("Homogeneous", "__init__"), ("Affine", "__init__"), ("Similarity", "__init__"),
                     ("Homogeneous", "_set_h_matrix"), ("Affine", "_set_h_matrix"), ("AlignmentAffine", "_set_h_matrix")):
            rows.append('("%s.%s", %s, %s)' % (c, m, default_of(c, m, "copy"), default_of(c, m, "skip_checks")))
        for c, m in (("Rotation", "__init__"), ("Translation", "__init__"), ("UniformScale", "__init__"),
                     ("NonUniformScale", "__init__"), ("Rotation", "set_rotation_matrix"),
                     ("AlignmentRotation", "set_rotation_matrix")):
            rows.append('("%s.%s", true, %s)' % (c, m, default_of(c, m, "skip_checks")))
        return "  [" + ",\n   ".join(rows) + "]"
    out.append(("def ctorDefaults : List (String × Bool × Bool) :=", defaults, "[]"))
    return out


SRC_HEADER = """/- TRANSLATED by harness/trans_c03.py (harness/py2lean2.py) from the SOURCE TEXT of menpo/transform/homogeneous/*.py of
   the current working tree on every run of `./check C03`: the properties, `_set_h_matrix` / `set_rotation_matrix`,
   the constructors with their checks, `init_identity` and `_from_vector_inplace` of the homogeneous family, the method
   resolution of `__init__` / `set_rotation_matrix` / `init_identity` / the properties, the defaults of `copy` and
   `skip_checks`.  Do not edit.  GenProps/C03Src.lean proves the definitions equal to the model. -/
import MenpoModel.Core.C03Src
import MenpoModel.Core.C03Dtype
set_option linter.unusedVariables false

namespace MenpoModel.Generated.C03
open MenpoModel.C03 MenpoModel.C03.Src
"""
SRC_FOOTER = "end MenpoModel.Generated.C03\n"


def src_generated_files():
    """({relative path: text}, [reasons of the definitions that could not be translated])"""
    try:
        items = src_items()
    except (P2.Untranslatable, KeyError, AttributeError, IndexError) as e:
        items, pre = [], ["src_items: %r" % (e,)]
    else:
        pre = []
    safe = []
    for sig, thunk, stub in items:
        def wrapped(thunk=thunk):
            try:
                return thunk()
            except (KeyError, AttributeError, IndexError) as e:
                raise P2.Untranslatable(repr(e))
        safe.append((sig, wrapped, stub))
    text, reasons = P2.translate_or_stub(safe, SRC_HEADER, SRC_FOOTER)
    return {SRC_REL: text}, pre + reasons
