"""C03 — regenerated class table (DESIGN.md 2.3b, Appendix 13 item 1).

Introspects the *live* classes of menpo.transform (nothing is parsed from source text) and emits
lean/MenpoModel/Generated/C03Classes.lean: for every homogeneous-family class its family ancestors in
MRO order, the alignment flag, `composes_inplace_with`, `composes_with` (read from populated 2-D and 3-D
instances, restricted to the family) and the class `as_non_alignment()` (alignment classes) resp. `copy()`
returns.  `lean/MenpoModel/GenProps/C03.lean` obliges the table to equal `expectedClassTable`, the table all
C03 theorems are about.

Run as a script (`/venv/bin/python -m harness.extract_c03`, cwd /verif, menpo importable) to rewrite the file.
"""
import os

# canonical order = constructor order of `HCls` in Core/C03Compose.lean
ORDER = ["Homogeneous", "Affine", "Similarity", "Rotation", "Translation", "UniformScale", "NonUniformScale",
         "AlignmentAffine", "AlignmentSimilarity", "AlignmentRotation", "AlignmentTranslation",
         "AlignmentUniformScale"]
GEN_REL = os.path.join("MenpoModel", "Generated", "C03Classes.lean")
GEN_TARGETS = ["MenpoModel.Generated.C03Classes", "MenpoModel.GenProps.C03"]
N_OBLIGATIONS = 5

# method table (columns = `Meth.all` of Core/C03Compose.lean, rows = the classes composition is exercised on)
METHODS = ["compose_before", "compose_after", "compose_before_inplace", "compose_after_inplace",
           "_compose_before", "_compose_after", "_compose_before_inplace", "_compose_after_inplace",
           "compose_after_from_vector_inplace", "from_vector", "_from_vector_inplace",
           "_apply", "copy", "decompose", "as_non_alignment", "_set_h_matrix"]
OTHER_CLASSES = ["TransformChain", "WithDims", "ThinPlateSplines", "PiecewiseAffine"]


def family_classes():
    """every class exported by menpo.transform, or defined in a menpo.transform module, that is a
    subclass of Homogeneous"""
    import menpo.transform as mt
    from menpo.transform.homogeneous.base import Homogeneous
    fam = {}
    for c in vars(mt).values():
        if isinstance(c, type) and issubclass(c, Homogeneous):
            fam[c.__name__] = c
    todo = [Homogeneous]
    while todo:
        c = todo.pop()
        for s in c.__subclasses__():
            if s.__module__.startswith("menpo.transform") and s.__name__ not in fam:
                fam[s.__name__] = s
            todo.append(s)
    return fam


def _clouds(d):
    import numpy as np
    from menpo.shape import PointCloud
    if d == 2:
        src = np.array([[0.0, 0.0], [1.0, 0.0], [0.0, 1.0], [2.0, 3.0], [-1.0, 2.0]])
        lin = np.array([[0.6, -0.8], [0.8, 0.6]])
    else:
        src = np.array([[0.0, 0.0, 0.0], [1.0, 0.0, 0.5], [0.0, 1.0, 1.0], [2.0, 3.0, -1.0], [-1.0, 2.0, 2.0]])
        lin = np.array([[0.6, -0.8, 0.0], [0.8, 0.6, 0.0], [0.0, 0.0, 1.0]])
    tgt = src.dot(lin.T) * 1.5 + 0.25
    return PointCloud(src), PointCloud(tgt)


def make_instance(cls, d):
    """a populated instance of a family class in dimension d (None if the class is unknown here)"""
    import numpy as np
    n = cls.__name__
    src, tgt = _clouds(d)
    try:
        if n in ("Homogeneous", "Affine", "Similarity"):
            return cls(np.eye(d + 1))
        if n == "Rotation":
            return cls(np.eye(d))
        if n == "Translation":
            return cls(np.arange(1.0, d + 1))
        if n == "UniformScale":
            return cls(2.0, d)
        if n == "NonUniformScale":
            return cls(np.arange(1.0, d + 1))
        if n.startswith("Alignment"):
            return cls(src, tgt)
    except Exception:
        return None
    return None


def _names(x, fam):
    xs = x if isinstance(x, tuple) else (x,)
    out = []
    for c in xs:
        if isinstance(c, type) and fam.get(c.__name__) is c:
            out.append(c.__name__)
        else:
            out.append("<%s>" % getattr(c, "__name__", repr(c)))  # outside the family: not a constructor
    return out


def extract(d):
    """rows (dicts) in canonical order, unknown classes last"""
    from menpo.transform.homogeneous.base import HomogFamilyAlignment
    fam = family_classes()
    names = [n for n in ORDER if n in fam] + sorted(n for n in fam if n not in ORDER)
    rows = []
    for n in names:
        c = fam[n]
        inst = make_instance(c, d)
        row = dict(cls=n, ancestors=[k.__name__ for k in c.__mro__ if fam.get(k.__name__) is k],
                   is_alignment=bool(issubclass(c, HomogFamilyAlignment)))
        if inst is None:
            row.update(inplace=["<no-instance>"], composes=["<no-instance>"], strip="<no-instance>")
        else:
            row["inplace"] = _names(inst.composes_inplace_with, fam)
            row["composes"] = _names(inst.composes_with, fam)
            try:
                r = inst.as_non_alignment() if row["is_alignment"] else inst.copy()
                row["strip"] = type(r).__name__
            except Exception as e:
                row["strip"] = "<raises-%s>" % type(e).__name__
        rows.append(row)
    return rows


def method_table():
    """[(row name in Lean, [supplier class name or None per METHODS])]: the class of the MRO whose __dict__ defines
    the method, exactly as attribute lookup resolves it"""
    import menpo.transform as mt
    fam = family_classes()
    rows = []
    names = [n for n in ORDER if n in fam] + sorted(n for n in fam if n not in ORDER)
    for n in names + OTHER_CLASSES:
        c = fam[n] if n in fam else getattr(mt, n)
        sup = []
        for m in METHODS:
            sup.append(next((k.__name__ for k in c.__mro__ if m in k.__dict__), None))
        rows.append((".fam .%s" % n if n in fam else ".%s" % n, sup))
    return rows


def other_gates():
    """[(lean class, composes_with, composes_inplace_with)] for the classes outside the family, read from live
    instances: "some true" = the attribute is the class Transform itself (every object is an instance), "none" = the
    object has no such attribute, "some false" = anything else (a narrower class: the model has no word for it)"""
    import numpy as np
    import menpo.transform as mt
    from menpo.transform.base import Transform
    from menpo.shape import PointCloud
    src = PointCloud(np.array([[0.0, 0.0], [1.0, 0.0], [0.0, 1.0], [1.0, 1.5]]))
    tgt = PointCloud(np.array([[0.0, 0.1], [1.0, 0.0], [0.2, 1.0], [1.0, 1.0]]))
    inst = {"TransformChain": lambda: mt.TransformChain([]), "WithDims": lambda: mt.WithDims([0, 1]),
            "ThinPlateSplines": lambda: mt.ThinPlateSplines(src, tgt),
            "PiecewiseAffine": lambda: mt.PiecewiseAffine(src, tgt)}
    rows = []
    for n in OTHER_CLASSES:
        try:
            o = inst[n]()
        except Exception:
            rows.append((".%s" % n, "some false", "some false"))
            continue
        vals = []
        for attr in ("composes_with", "composes_inplace_with"):
            try:
                v = getattr(o, attr)
            except AttributeError:
                vals.append("none")
                continue
            except Exception:
                vals.append("some false")
                continue
            vals.append("some true" if v is Transform else "some false")
        rows.append((".%s" % n, vals[0], vals[1]))
    return rows


def _lean_list(xs):
    return "[" + ", ".join(xs) + "]"


def render(rows2, rows3):
    def tbl(rows):
        out = []
        for r in rows:
            out.append("  ⟨%s, %s, %s, %s, %s, %s⟩" % (
                r["cls"], _lean_list(r["ancestors"]), "true" if r["is_alignment"] else "false",
                _lean_list(r["inplace"]), _lean_list(r["composes"]), r["strip"]))
        return "[\n" + ",\n".join(out) + "]"
    def mtbl(rows):
        return "[\n" + ",\n".join("  (%s, [%s])" % (k, ", ".join("none" if x is None else "some .%s" % x for x in sup))
                                  for k, sup in rows) + "]"
    return ("/- GENERATED by harness/extract_c03.py from the live classes of menpo.transform — do not edit.\n"
            "   Rewritten (only when its content changes) by every `./check C03`. -/\n"
            "import MenpoModel.Core.C03Compose\n\n"
            "namespace MenpoModel.Generated.C03\n"
            "open MenpoModel.C03 MenpoModel.C03.HCls\n\n"
            "/-- number of homogeneous-family classes found in menpo.transform -/\n"
            "def familySize : Nat := %d\n\n"
            "/-- read from populated 2-D instances -/\n"
            "def classTable : ClassTable := %s\n\n"
            "/-- read from populated 3-D instances -/\n"
            "def classTable3 : ClassTable := %s\n\n"
            "/-- per class, the supplier of each method of `Meth.all` (the class of the MRO that defines it) -/\n"
            "def methodTable : MethodTable := %s\n\n"
            "/-- per class outside the family: (composes_with, composes_inplace_with) of a live instance -\n"
            "`some true`: the class Transform itself, `none`: no such attribute -/\n"
            "def otherGates : List (Kls × Option Bool × Option Bool) := [%s]\n\n"
            "end MenpoModel.Generated.C03\n" % (len(rows2), tbl(rows2), tbl(rows3), mtbl(method_table()),
                                                ", ".join("(%s, %s, %s)" % r for r in other_gates())))


def wire(rows):
    """the table in the driver's wire format (`T n row*`)"""
    def l(xs):
        return "%d %s" % (len(xs), " ".join(xs)) if xs else "0"
    toks = ["T", str(len(rows))]
    for r in rows:
        toks += [r["cls"], l(r["ancestors"]), "1" if r["is_alignment"] else "0", l(r["inplace"]),
                 l(r["composes"]), r["strip"]]
    return " ".join(toks)


def generated_files():
    rows2, rows3 = extract(2), extract(3)
    return {GEN_REL: render(rows2, rows3)}, rows2, rows3


if __name__ == "__main__":
    import sys
    here = os.path.dirname(os.path.abspath(__file__))
    root = os.path.dirname(here)
    sys.path.insert(0, os.environ.get("MENPO_REPO", "/repo"))
    files, _, _ = generated_files()
    for rel, text in files.items():
        p = os.path.join(root, "lean", rel)
        os.makedirs(os.path.dirname(p), exist_ok=True)
        old = open(p).read() if os.path.exists(p) else None
        if old != text:
            open(p, "w").write(text)
            print("rewrote", p)
        else:
            print("unchanged", p)
