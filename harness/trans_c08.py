"""C08 — the alignment machinery TRANSLATED from the source text of the current working tree into Lean
(`Generated/C08Src.lean`) on every run; `GenProps/C08Src.lean` proves each translated definition equal to the Core
definition the C08 theorems are about (for all arguments), and `GenProps/C08SrcProps.lean` states the property for the
translated definitions themselves.  harness/py2lean2.py is the translator; this file holds

  (1) `TranslatorX` / `RulesX` — generic additions to `Translator2` that the alignment code needs (kept here so that the
      shared file is not touched while other builders use it; nothing in it is specific to C08; py2lean2's own
      `Translator2M`, appended by another builder at the same time, overlaps with the first two items):
        * `import` / `from .. import` inside a function body: dropped;
        * statement rules with a 4th element "bind": the receiver's new value is computed in the exception monad
          (`self._verify_target(t)`, `Alignment.__init__(self, s, t)`, `t.set_target(x)`), and a monadic call used as an
          operand of any statement is hoisted into a bind in front of it;
        * `a.x, a.y = e1, e2` (tuple assignment to attributes / subscripts: all right-hand sides first);
        * `a.x += e` on an attribute;
        * *scratch attributes as locals*: `self.v = …` for attributes that the model does not keep (named by the caller)
          become local variables of the function; `self.v = None` declarations of them are dropped;
        * `for x in <obj>.<attr>: <in-place statements on x>` = the attribute is re-bound to the list of the updated
          elements (`mapExcept`);
        * `[f(x) for x in xs]` with `f` monadic (`mapExcept`);
        * `x is None` / `x is not None` on optional values; values the rules declare non-null (`RulesX.nonnull`) keep
          that type through local assignments: `t = self.target; if t is None: …` is `if false` (so a temporary that
          replaces a repeated attribute read does not change the translation's type);
        * `assert <int>` (truthiness of an integer: rule flag "int");
        * `return e` / falling off the end of a method that mutates its receiver: `ret` / `end` templates may mention
          `{self}` (the current Lean name of the receiver) and so may every rule template;
        * an `if` whose translated test is the literal `true` / `false` (a keyword argument the call site fixes):
          only the live branch is translated;
        * normalisations before translation, each exact for Python's semantics: keyword arguments of a callee with a
          known signature made positional (`f(a, y=c, x=b)` = `f(a, b, c)`); `xs = []; for t in it: xs.append(E)` =
          `xs = [E for t in it]`; a local that aliases a mutable-array attribute (`h = self.h_matrix`) replaced by the
          attribute when nothing re-binds it;
        * INLINING of menpo helper functions for which no rule exists: a module-level helper called as an expression
          (`_norm_ratio(source, target)`) or a function / unbound method called as a statement on a receiver
          (`Translation._from_vector_inplace(self, p)`) is translated in place from ITS source text, parameters bound to
          the arguments - helpers shared by several functions are thereby translated at every use.
  (2) the C08 vocabulary (rules) and the list of functions to translate, resolved through the live MROs.  The rules are
      kept compositional - one rule per call, never a rule for a nested expression where the parts have a meaning of
      their own (`x.centre()`, `x.norm()`, `a - b`, `a / b`, `optimal_rotation_matrix(…)`, `Rotation(r)`,
      `scale_about_centre(c, r)`) - so that hoisting a sub-expression into a local, or inlining one, keeps the source
      translatable (refactorings/C08-1).
"""
import ast
import inspect
import os
from fractions import Fraction

from . import py2lean2
from .py2lean2 import Untranslatable, match, _pat

GEN_REL = os.path.join("MenpoModel", "Generated", "C08Src.lean")
GEN_TARGETS = ["MenpoModel.Generated.C08Src", "MenpoModel.GenProps.C08Src", "MenpoModel.GenProps.C08SrcProps"]


# =====================================================================================================================
# (1) generic additions to py2lean2.Translator2
# =====================================================================================================================

def _sort_keywords(node):
    """keyword arguments in alphabetical order (patterns and source alike: `f(a=1, b=2)` is `f(b=2, a=1)`)"""
    for n in ast.walk(node):
        if isinstance(n, ast.Call) and len(n.keywords) > 1 and all(k.arg is not None for k in n.keywords):
            n.keywords.sort(key=lambda k: k.arg)
    return node


class RulesX(py2lean2.Rules2):
    """Rules2 plus: stmt rules may carry a 4th element "bind"; `scratch`: attribute names of the receiver `recv_name`
    that are local variables of the function being translated; `drop`: statement patterns that do nothing in the model
    (dropped); `notnone`: names known not to be None (specialisation of a function to a call shape); expr rules may be
    flagged "bind" (monadic: hoisted) or "int" (an integer: true when non-zero in a test)."""

    def __init__(self, expr=(), stmt=(), scratch=(), recv_name="self", drop=(), notnone=(), nonnull=(), alias_attrs=(),
                 chain_attrs=(), **kw):
        self.stmt_flag = [(s[3] if len(s) > 3 else "") for s in stmt]
        py2lean2.Rules2.__init__(self, expr=expr, stmt=[s[:3] for s in stmt], **kw)
        self.scratch = set(scratch)
        self.recv_name = recv_name
        self.drop = [_pat(p, "stmt") for p in drop]
        self.notnone = set(notnone)      # python names known not to be None (specialisation to a call shape)
        self.alias_attrs = tuple(alias_attrs)   # attributes holding a mutable array: `h = x.attr` makes `h` an alias
        self.chain_attrs = tuple(chain_attrs)   # read-only attributes: `p = x.attr` is `x.attr` wherever `p` is used
        # expressions whose value is never None (their Lean type is not an Option); a local bound to one of them - or
        # to another such local - inherits that: `t = self.target; if t is None: …` is `if false`
        self.nonnull = [_sort_keywords(_pat(p, "expr")) for p in nonnull]
        for pat, _t, _f in self.expr:
            _sort_keywords(pat)
        for pat, _r, _t in self.stmt:
            _sort_keywords(pat)
        for pat in self.drop:
            _sort_keywords(pat)


def _fold(text):
    """truth value of a translated condition that is a literal, else None"""
    t = text.strip()
    for _ in range(8):
        if t.startswith("(") and t.endswith(")") and t[1:-1] in ("true", "false", "!true", "!false"):
            t = t[1:-1]
        if t == "!true":
            t = "false"
        if t == "!false":
            t = "true"
    return True if t == "true" else False if t == "false" else None


class _Scratch(ast.NodeTransformer):
    """`recv.attr` -> the local name `recv__attr` for the scratch attributes"""

    def __init__(self, recv, attrs):
        self.recv, self.attrs = recv, attrs

    def visit_Attribute(self, node):
        self.generic_visit(node)
        if isinstance(node.value, ast.Name) and node.value.id == self.recv and node.attr in self.attrs:
            return ast.copy_location(ast.Name(id="%s__%s" % (self.recv, node.attr), ctx=node.ctx), node)
        return node


def _resolve(node, glob):
    """the live object a Name / dotted Attribute denotes in the globals of the function being translated, or None"""
    if isinstance(node, ast.Name):
        return glob.get(node.id)
    if isinstance(node, ast.Attribute):
        base = _resolve(node.value, glob)
        if base is None:
            return None
        try:
            return getattr(base, node.attr, None)
        except Exception:
            return None
    return None


def _kw_to_positional(node, glob):
    """`f(a, y=c, x=b)` -> `f(a, b, c)` for the leading parameters of a callee whose signature is known (a function,
    `Cls.__init__`, or a class called as constructor): Python binds them identically"""
    for n in ast.walk(node):
        if not isinstance(n, ast.Call) or not n.keywords or any(k.arg is None for k in n.keywords) \
                or any(isinstance(a, ast.Starred) for a in n.args):
            continue
        obj = _resolve(n.func, glob)
        try:
            if inspect.isclass(obj):
                params = list(inspect.signature(obj.__init__).parameters.values())[1:]
            elif inspect.isfunction(obj):
                params = list(inspect.signature(obj).parameters.values())
            else:
                continue
        except (TypeError, ValueError):
            continue
        params = [q for q in params if q.kind in (q.POSITIONAL_ONLY, q.POSITIONAL_OR_KEYWORD)]
        kws = {k.arg: k for k in n.keywords}
        i = len(n.args)
        while i < len(params) and params[i].name in kws and params[i].default is inspect.Parameter.empty:
            k = kws.pop(params[i].name)
            n.args.append(k.value)
            n.keywords.remove(k)
            i += 1
    return node


def _loops_to_comprehensions(stmts):
    """`xs = []` directly followed by `for t in it: xs.append(E)`  ->  `xs = [E for t in it]` (E does not mention xs)"""
    out = []
    i = 0
    while i < len(stmts):
        st = stmts[i]
        nxt = stmts[i + 1] if i + 1 < len(stmts) else None
        if (isinstance(st, ast.Assign) and len(st.targets) == 1 and isinstance(st.targets[0], ast.Name)
                and isinstance(st.value, ast.List) and not st.value.elts and isinstance(nxt, ast.For) and not nxt.orelse
                and len(nxt.body) == 1 and isinstance(nxt.body[0], ast.Expr) and isinstance(nxt.body[0].value, ast.Call)):
            c = nxt.body[0].value
            name = st.targets[0].id
            if (isinstance(c.func, ast.Attribute) and c.func.attr == "append" and isinstance(c.func.value, ast.Name)
                    and c.func.value.id == name and len(c.args) == 1 and not c.keywords
                    and not any(isinstance(x, ast.Name) and x.id == name for x in ast.walk(c.args[0]))
                    and not any(isinstance(x, ast.Name) and x.id == name for x in ast.walk(nxt.iter))):
                comp = ast.ListComp(elt=c.args[0], generators=[ast.comprehension(target=nxt.target, iter=nxt.iter, ifs=[], is_async=0)])
                out.append(ast.fix_missing_locations(ast.copy_location(
                    ast.Assign(targets=[ast.Name(id=name, ctx=ast.Store())], value=comp), st)))
                i += 2
                continue
        for fld in ("body", "orelse"):
            if isinstance(getattr(st, fld, None), list) and not isinstance(st, (ast.FunctionDef, ast.ClassDef)):
                setattr(st, fld, _loops_to_comprehensions(getattr(st, fld)))
        out.append(st)
        i += 1
    return out


class _Subst(ast.NodeTransformer):
    def __init__(self, name, expr):
        self.name, self.expr = name, expr

    def visit_Name(self, node):
        if node.id == self.name:
            new = ast.parse(ast.unparse(self.expr), mode="eval").body
            for x in ast.walk(new):
                if hasattr(x, "ctx") and x is new:
                    x.ctx = node.ctx
            return ast.copy_location(new, node)
        return node


def _alias_subst(body, attrs):
    """`h = obj.<attr>` for a mutable-array attribute: `h` is another name of the same array, so every later use of
    `h` (in-place writes included) is a use of `obj.<attr>`.  Done only when `h` is assigned once, the statement is at
    the top level of the function and nothing in the function re-binds such an attribute (no `x.<attr> = …`, no
    `_set_h_matrix` / `__init__` call): then the substitution is exact."""
    if not attrs:
        return body
    mod = ast.Module(body=body, type_ignores=[])
    for n in ast.walk(mod):
        if isinstance(n, (ast.Assign, ast.AugAssign)):
            tg = n.targets if isinstance(n, ast.Assign) else [n.target]
            for t in tg:
                for x in ([t] if not isinstance(t, (ast.Tuple, ast.List)) else t.elts):
                    if isinstance(x, ast.Attribute) and x.attr in attrs:
                        return body
        if isinstance(n, ast.Call) and isinstance(n.func, ast.Attribute) and (
                "set_h_matrix" in n.func.attr or n.func.attr == "__init__"):
            return body
    out = list(body)
    for i, st in enumerate(list(out)):
        if (isinstance(st, ast.Assign) and len(st.targets) == 1 and isinstance(st.targets[0], ast.Name)
                and isinstance(st.value, ast.Attribute) and st.value.attr in attrs and isinstance(st.value.value, ast.Name)):
            name = st.targets[0].id
            stores = [x for x in ast.walk(mod) if isinstance(x, ast.Name) and x.id == name and isinstance(x.ctx, ast.Store)]
            if len(stores) != 1:
                continue
            sub = _Subst(name, st.value)
            out = [ast.fix_missing_locations(sub.visit(x)) for j, x in enumerate(out) if x is not st]
            return _alias_subst(out, attrs)
    return out


def _chain_subst(body, attrs):
    """`pts = source.points` for a read-only attribute chain of a name that is never re-bound: every later use of `pts`
    is a use of `source.points`.  Done only when `pts` is assigned once, the root name is never assigned in the
    function and nothing in the function assigns an attribute of that name (`x.points = …`): then the substitution is
    exact, and rules that fix WHICH object an expression is read from (`R2LogR2RBF(source.points)`) still see it."""
    if not attrs:
        return body
    mod = ast.Module(body=body, type_ignores=[])
    for n in ast.walk(mod):
        if isinstance(n, ast.Attribute) and n.attr in attrs and isinstance(n.ctx, ast.Store):
            return body
    stores = {}
    for x in ast.walk(mod):
        if isinstance(x, ast.Name) and isinstance(x.ctx, ast.Store):
            stores[x.id] = stores.get(x.id, 0) + 1
    for st in list(body):
        if (isinstance(st, ast.Assign) and len(st.targets) == 1 and isinstance(st.targets[0], ast.Name)
                and isinstance(st.value, ast.Attribute) and st.value.attr in attrs
                and isinstance(st.value.value, ast.Name) and stores.get(st.targets[0].id) == 1
                and stores.get(st.value.value.id, 0) == 0):
            sub = _Subst(st.targets[0].id, st.value)
            out = [ast.fix_missing_locations(sub.visit(x)) for x in body if x is not st]
            return _chain_subst(out, attrs)
    return body


class TranslatorX(py2lean2.Translator2):
    def __init__(self, rules):
        py2lean2.Translator2.__init__(self, rules)
        self._pending = []
        self._tmp = 0
        self._glob = [{}]
        self._inlining = []

    # ------------------------------------------------------------------------------------------ helper inlining
    def _inline(self, node, scope):
        """a call of a private helper FUNCTION of a menpo module (found in the globals of the function being
        translated) for which no rule exists: its body is translated in place, parameters bound to the arguments"""
        if not (isinstance(node, ast.Call) and isinstance(node.func, ast.Name)):
            return None
        fn = self._glob[-1].get(node.func.id)
        if not inspect.isfunction(fn) or not getattr(fn, "__module__", "").startswith("menpo.") \
                or fn in self._inlining or len(self._inlining) > 3:
            return None
        try:
            sig = inspect.signature(fn)
            ba = sig.bind(*node.args, **{k.arg: k.value for k in node.keywords if k.arg})
        except (TypeError, ValueError):
            return None
        if any(k.arg is None for k in node.keywords) or len(ba.arguments) != len(sig.parameters):
            return None          # (defaults of the helper: not handled)
        fnode, _src = py2lean2.source_ast(fn)
        lets, sc = [], {}
        used = dict(scope)
        for pname, arg in ba.arguments.items():
            if not isinstance(arg, ast.AST):
                return None
            val = self.pure(arg, scope)
            new = self.fresh(pname, used)
            used["\0tmp" + new] = new
            sc[pname] = new
            if self._nonnull(arg, scope):
                sc["\0nn:" + pname] = "\0"
            lets.append("let %s := %s" % (new, val))

        def no_end(_s, _i):
            raise Untranslatable("helper %s falls off its end" % fn.__name__)
        ctx = py2lean2._Ctx(exit_=lambda v, s_, i: "  " * i + v, end=no_end)
        self._glob.append(fn.__globals__)
        self._inlining.append(fn)
        saved_ret, self.r.ret = self.r.ret, "{e}"
        try:
            body = [_sort_keywords(_kw_to_positional(st, fn.__globals__)) for st in fnode.body]
            body = _loops_to_comprehensions(body)
            text = self.block(body, sc, 0, ctx)
        finally:
            self.r.ret = saved_ret
            self._inlining.pop()
            self._glob.pop()
        return "(" + "; ".join(lets) + ";\n" + text + ")"

    # ------------------------------------------------------------------------------------------ templates
    def _fmt(self, tmpl, env, scope):
        vals = {k: self.pure(v, scope) for k, v in env.items()}
        if "self" not in vals and self.r.recv_name in scope:
            vals["self"] = scope[self.r.recv_name]
        try:
            return tmpl.format(**vals)
        except KeyError as e:
            raise Untranslatable("template needs %s" % e)

    # ------------------------------------------------------------------------------------------ expressions
    def expr(self, node, scope):
        for i, (pat, tmpl, flag) in enumerate(self.r.expr):
            env = {}
            if match(pat, node, env):
                self.used_rules.add(i)
                return self._fmt(tmpl, env, scope), flag
        if (isinstance(node, ast.Compare) and len(node.ops) == 1 and isinstance(node.ops[0], (ast.Is, ast.IsNot))
                and isinstance(node.comparators[0], ast.Constant) and node.comparators[0].value is None):
            neg = isinstance(node.ops[0], ast.IsNot)
            if self._nonnull(node.left, scope):
                return ("true" if neg else "false"), ""
            x = self.pure(node.left, scope)
            if x == "none":
                return ("false" if neg else "true"), ""
            return "(%s).%s" % (x, "isSome" if neg else "isNone"), ""
        if isinstance(node, ast.ListComp) and len(node.generators) == 1 and not node.generators[0].ifs:
            g = node.generators[0]
            item = self.fresh("it", scope)
            sc = dict(scope)
            sc["\0tmp" + item] = item
            lines, sc = self.bind_target(g.target, item, sc)
            self._pending.append([])
            try:
                body, flag = self.expr(node.elt, sc)
            finally:
                pend = self._pending.pop()
            if flag == "bind" or pend:
                it = self.pure(g.iter, scope)
                inner = body if flag == "bind" else ".ok (%s)" % body
                for e, tmp in reversed(pend):
                    inner = "(%s).bind fun %s => %s" % (e, tmp, inner)
                return "mapExcept (fun %s => %s%s) %s" % (item, "".join(l + "; " for l in lines), inner, it), "bind"
        if isinstance(node, ast.Constant) and isinstance(node.value, float):
            fr = Fraction(repr(node.value))
            return "((%d : Rat) / %d)" % (fr.numerator, fr.denominator), ""
        inl = self._inline(node, scope)
        if inl is not None:
            return inl, ""
        return py2lean2.Translator2.expr(self, node, scope)

    def _nonnull(self, node, scope):
        """the expression is known not to be None: a name the call shape fixes, a local bound to a non-null value, or
        an expression the rules declare non-null"""
        if isinstance(node, ast.Name):
            return node.id in self.r.notnone or ("\0nn:" + node.id) in scope
        return any(match(pat, node, {}) for pat in self.r.nonnull)

    def pure(self, node, scope):
        e, flag = self.expr(node, scope)
        if flag == "bind":
            if not self._pending:
                raise Untranslatable("monadic operand outside a statement: `%s`" % ast.unparse(node))
            tmp = "tmp%d" % self._tmp
            self._tmp += 1
            self._pending[-1].append((e, tmp))
            return tmp
        return e

    def cond(self, node, scope):
        """a test: integers are true when non-zero"""
        e, flag = self.expr(node, scope)
        if flag == "int":
            return "(%s != 0)" % e
        if flag == "bind":
            return self.pure(node, scope)
        return e

    # ------------------------------------------------------------------------------------------ statements
    def block(self, stmts, scope, ind, ctx):
        self._pending.append([])
        try:
            text = self._block1(stmts, scope, ind, ctx)
        finally:
            pend = self._pending.pop()
        pad = "  " * ind
        for e, tmp in reversed(pend):
            text = "%s(%s).bind fun %s =>\n%s" % (pad, e, tmp, text)
        return text

    def _block1(self, stmts, scope, ind, ctx):
        pad = "  " * ind
        if not stmts:
            return ctx.end(scope, ind)
        st, rest = stmts[0], stmts[1:]
        if isinstance(st, (ast.Import, ast.ImportFrom)):
            return self.block(rest, scope, ind, ctx)
        for pat in self.r.drop:
            if match(pat, st, {}):
                return self.block(rest, scope, ind, ctx)
        # a.x += e on an attribute
        if isinstance(st, ast.AugAssign) and not isinstance(st.target, ast.Name):
            load = ast.parse(ast.unparse(st.target), mode="eval").body
            st = ast.Assign(targets=[st.target], value=ast.BinOp(left=load, op=st.op, right=st.value))
            return self.block([st] + rest, scope, ind, ctx)
        # tuple assignment with attribute / subscript targets: right-hand sides first
        if (isinstance(st, ast.Assign) and len(st.targets) == 1 and isinstance(st.targets[0], (ast.Tuple, ast.List))
                and (not all(isinstance(e, ast.Name) for e in st.targets[0].elts)
                     or (isinstance(st.value, (ast.Tuple, ast.List)) and len(st.value.elts) == len(st.targets[0].elts)))):
            tg = st.targets[0].elts
            if not (isinstance(st.value, (ast.Tuple, ast.List)) and len(st.value.elts) == len(tg)):
                raise Untranslatable("tuple assignment `%s`" % ast.unparse(st))
            if all(isinstance(v, ast.Constant) for v in st.value.elts):
                new = [ast.Assign(targets=[t], value=v) for t, v in zip(tg, st.value.elts)]
            else:
                tmps = ["tup%d_%d" % (self._tmp, i) for i in range(len(tg))]
                self._tmp += 1
                new = [ast.Assign(targets=[ast.Name(id=n, ctx=ast.Store())], value=v) for n, v in zip(tmps, st.value.elts)]
                new += [ast.Assign(targets=[t], value=ast.Name(id=n, ctx=ast.Load())) for t, n in zip(tg, tmps)]
            return self.block(new + rest, scope, ind, ctx)
        # declaration of a scratch attribute: `self.v = None`
        if (isinstance(st, ast.Assign) and len(st.targets) == 1 and isinstance(st.targets[0], ast.Name)
                and st.targets[0].id.startswith(self.r.recv_name + "__")
                and isinstance(st.value, ast.Constant) and st.value.value is None):
            return self.block(rest, scope, ind, ctx)
        if isinstance(st, ast.If):
            c = self.cond(st.test, scope)
            v = _fold(c)
            if v is not None:
                return self.block(list(st.body if v else st.orelse) + rest, dict(scope), ind, ctx)
            a = self.block(list(st.body) + rest, dict(scope), ind + 1, ctx)
            b = self.block(list(st.orelse) + rest, dict(scope), ind + 1, ctx)
            return "%sif %s then\n%s\n%selse\n%s" % (pad, c, a, pad, b)
        if isinstance(st, ast.Assert):
            c = self.cond(st.test, scope)
            a = self.block(rest, dict(scope), ind + 1, ctx)
            b = ctx.exit(self.r.raise_by.get("AssertionError", self.r.raise_), scope, ind + 1)
            return "%sif %s then\n%s\n%selse\n%s" % (pad, c, a, pad, b)
        if isinstance(st, ast.Return) and st.value is not None:
            e, flag = self.expr(st.value, scope)
            if flag != "bind":
                e = self._ret(e, scope)
            return ctx.exit(e, scope, ind)
        if isinstance(st, ast.Return) and st.value is None and ctx.brk is None:
            return ctx.end(scope, ind)
        for i, (pat, recv, tmpl) in enumerate(self.r.stmt):
            env = {}
            if match(pat, st, env):
                self.used_rules.add(("s", i))
                target = env[recv]
                if not isinstance(target, ast.Name):
                    raise Untranslatable("in-place statement on a non-variable: `%s`" % ast.unparse(st))
                val = self._fmt(tmpl, env, scope)
                new = self.fresh(target.id, scope)
                sc = dict(scope)
                sc[target.id] = new
                if self.r.stmt_flag[i] == "bind":
                    return pad + self.r.bind.format(m=val, x=new, k=self.block(rest, sc, ind + 1, ctx))
                return "%slet %s := %s\n%s" % (pad, new, val, self.block(rest, sc, ind, ctx))
        # `Cls.method(obj, args…)` / `helper(obj, args…)` as a statement, no rule: a menpo function that updates its first
        # parameter in place - its body is translated in place and the receiver re-bound to the result
        if (isinstance(st, ast.Expr) and isinstance(st.value, ast.Call) and st.value.args
                and isinstance(st.value.args[0], ast.Name) and not st.value.keywords):
            fn = _resolve(st.value.func, self._glob[-1])
            if inspect.isfunction(fn) and getattr(fn, "__module__", "").startswith("menpo.") \
                    and fn not in self._inlining and len(self._inlining) <= 3:
                fnode, _src = py2lean2.source_ast(fn)
                params = [a.arg for a in fnode.args.args]
                if len(params) == len(st.value.args) and not (fnode.args.vararg or fnode.args.kwarg or fnode.args.kwonlyargs):
                    recv = st.value.args[0].id
                    lets, sc = [], {}
                    used = dict(scope)
                    for pname, arg in zip(params, st.value.args):
                        new = self.fresh(pname, used)
                        used["\0tmp" + new] = new
                        sc[pname] = new
                        lets.append("let %s := %s" % (new, self.pure(arg, scope)))
                    first = params[0]
                    ctx2 = py2lean2._Ctx(exit_=lambda v, s_, i: "  " * i + v, end=lambda s_, i: "  " * i + s_[first])
                    self._glob.append(fn.__globals__)
                    self._inlining.append(fn)
                    saved = (self.r.ret, self.r.recv_name)
                    self.r.ret, self.r.recv_name = "{e}", first
                    try:
                        body = [_sort_keywords(_kw_to_positional(x, fn.__globals__)) for x in fnode.body]
                        body = _alias_subst(_loops_to_comprehensions(body), self.r.alias_attrs)
                        text = self.block(body, sc, ind + 1, ctx2)
                    finally:
                        self.r.ret, self.r.recv_name = saved
                        self._inlining.pop()
                        self._glob.pop()
                    newr = self.fresh(recv, scope)
                    sc2 = dict(scope)
                    sc2[recv] = newr
                    return "%slet %s := (%s;\n%s)\n%s" % (pad, newr, "; ".join(lets), text, self.block(rest, sc2, ind, ctx))
        if isinstance(st, ast.Assign) and len(st.targets) == 1 and isinstance(st.targets[0], ast.Name):
            e, flag = self.expr(st.value, scope)
            if flag != "bind":
                lines, sc = self.bind_target(st.targets[0], e, scope)
                key = "\0nn:" + st.targets[0].id
                if self._nonnull(st.value, scope):
                    sc[key] = "\0"
                else:
                    sc.pop(key, None)
                return "".join(pad + l + "\n" for l in lines) + self.block(rest, sc, ind, ctx)
        if isinstance(st, ast.For):
            m = self._inplace_map(st, rest, scope, ind, ctx)
            if m is not None:
                return m
        return py2lean2.Translator2.block(self, stmts, scope, ind, ctx)

    def _names(self, scope):
        """python name -> current lean name, for `ret` / `end` templates (`{self}` = the receiver)"""
        vals = {k: v for k, v in scope.items() if k.isidentifier()}
        if self.r.recv_name in scope:
            vals["self"] = scope[self.r.recv_name]
        return vals

    def _ret(self, e, scope):
        vals = self._names(scope)
        vals["e"] = e
        try:
            return self.r.ret.format(**vals)
        except KeyError as k:
            raise Untranslatable("return template needs %s" % k)

    def _inplace_map(self, st, rest, scope, ind, ctx):
        """`for x in <lvalue>: <statements that only update x in place>`  ->  <lvalue> = mapExcept (fun x => ..) <lvalue>"""
        if st.orelse or not isinstance(st.target, ast.Name):
            return None
        x = st.target.id
        try:
            names = self.assigned_names(st.body)
        except Untranslatable:
            return None
        if names != [x] or x in scope:
            return None
        if self._has(st.body, (ast.Return, ast.Break, ast.Continue), True):
            return None
        pad = "  " * ind
        it = self.pure(st.iter, scope)
        item = self.fresh(x, scope)
        sc = dict(scope)
        sc[x] = item
        inner = py2lean2._Ctx(exit_=lambda v, s, i: "  " * i + v, end=lambda s, i: "  " * i + ".ok " + s[x])
        body = self.block(list(st.body), sc, ind + 2, inner)
        res = self.fresh(x + "s", scope)
        sc2 = dict(scope)
        sc2["\0tmp" + res] = res
        # write the list back through the assignment rule of the iterable
        store = ast.Assign(targets=[ast.parse(ast.unparse(st.iter), mode="eval").body],
                           value=ast.Name(id="\0res", ctx=ast.Load()))
        sc2["\0res"] = res
        k = self.block([store] + rest, sc2, ind + 1, ctx)
        return "%s(mapExcept (fun %s =>\n%s) %s).bind fun %s =>\n%s" % (pad, item, body, it, res, k)

    def top_ctx(self):
        def end(scope, ind):
            if self.r.end is None:
                raise Untranslatable("control reaches the end of the function without return/raise")
            vals = self._names(scope)
            try:
                return "  " * ind + self.r.end.format(**vals)
            except KeyError as k:
                raise Untranslatable("end template needs %s" % k)
        return py2lean2._Ctx(exit_=lambda v, s, i: "  " * i + v, end=end)

    def function(self, fn, arg_names, ind=2, allow_unused=()):
        node, _src = py2lean2.source_ast(fn)
        a = node.args
        params = [x.arg for x in a.posonlyargs + a.args + a.kwonlyargs]
        if a.vararg:
            params.append(a.vararg.arg)
        if a.kwarg:
            params.append(a.kwarg.arg)
        mentioned = {n.id for st in node.body for n in ast.walk(st) if isinstance(n, ast.Name)}
        for p in params:
            if p not in arg_names and not (p in allow_unused and p not in mentioned):
                raise Untranslatable("signature of %s changed: %s" % (node.name, ast.unparse(node.args)))
        for p in arg_names:
            if p not in params:
                raise Untranslatable("signature of %s changed: no parameter %r" % (node.name, p))
        glob = getattr(inspect.unwrap(fn), "__globals__", {})
        self._glob = [glob]
        body = [_sort_keywords(_kw_to_positional(st, glob)) for st in node.body]
        body = _loops_to_comprehensions(body)
        body = _alias_subst(body, self.r.alias_attrs)
        body = _chain_subst(body, self.r.chain_attrs)
        if self.r.scratch:
            tr = _Scratch(self.r.recv_name, self.r.scratch)
            body = [ast.fix_missing_locations(tr.visit(st)) for st in body]
        return self.block(body, dict(arg_names), ind, self.top_ctx())


def lean_default(text):
    """the Lean literal of a Python default value (True / False / None / int / float)"""
    v = ast.literal_eval(text)
    if v is True:
        return "true"
    if v is False:
        return "false"
    if v is None:
        return "none"
    if isinstance(v, int):
        return "%d" % v
    if isinstance(v, float):
        fr = Fraction(repr(v))
        return "((%d : Rat) / %d)" % (fr.numerator, fr.denominator)
    raise Untranslatable("default value %s" % text)


# =====================================================================================================================
# (2) the C08 vocabulary
# =====================================================================================================================

EXC = {"ValueError": ".error .valueError", "NotImplementedError": ".error .notImplementedError",
       "AssertionError": ".error .assertionError", "IndexError": ".error .indexError"}

OBJ = "Obj Pts A"
# model class -> implementation classes (the first one names the model class in the dispatchers)
MODEL_CLASSES = [("affine", "AlignmentAffine"), ("similarity", "AlignmentSimilarity"), ("rotation", "AlignmentRotation"),
                 ("translation", "AlignmentTranslation"), ("uniformScale", "AlignmentUniformScale"),
                 ("tps", "ThinPlateSplines"), ("pwa", "CachedPWA")]
TPS_SCRATCH = ("k", "p", "v", "y")
PWA_SCRATCH = ("ti", "tij", "tik", "s", "sij", "sik", "_applied_points", "_iab")


def live_classes():
    import menpo.transform as mt
    from menpo.transform.piecewiseaffine.base import PythonPWA, CachedPWA, AbstractPWA
    from menpo.transform.base.alignment import Alignment
    from menpo.transform.homogeneous.base import Homogeneous, HomogFamilyAlignment
    from menpo.transform.groupalign.base import MultipleAlignment
    from menpo.base import Targetable
    cl = {n: getattr(mt, n) for n in ("AlignmentAffine", "AlignmentSimilarity", "AlignmentRotation", "AlignmentTranslation",
                                      "AlignmentUniformScale", "ThinPlateSplines", "Affine", "Similarity", "Rotation",
                                      "Translation", "UniformScale", "GeneralizedProcrustesAnalysis")}
    cl.update(PythonPWA=PythonPWA, CachedPWA=CachedPWA, AbstractPWA=AbstractPWA, Alignment=Alignment,
              Homogeneous=Homogeneous, HomogFamilyAlignment=HomogFamilyAlignment, MultipleAlignment=MultipleAlignment,
              Targetable=Targetable)
    return cl


def supplier(cls, meth):
    """the class whose __dict__ supplies `meth` to `cls` (live MRO), or None"""
    for k in cls.__mro__:
        if meth in vars(k):
            return k
    return None


def raw(cls, meth):
    """the plain function behind `cls.__dict__[meth]` (staticmethod / property unwrapped)"""
    f = vars(cls)[meth]
    if isinstance(f, (staticmethod, classmethod)):
        return f.__func__
    if isinstance(f, property):
        return f.fget
    return f


# ---------------------------------------------------------------------------------------------------------- rules

def obj_expr():
    """expressions over an alignment object `Obj`, its point sets and the fits of `Ext`"""
    return [
        ("$x.target is None", "false"),                 # Alignment.__init__ binds _target before anything reads it
        ("self.n_dims", "genNDims e {self}"),
        ("self.n_points", "genNPoints e {self}"),
        ("$x.target", "{x}.target"), ("$x._target", "{x}.target"),
        ("$x.source", "{x}.source"), ("$x._source", "{x}.source"),
        ("$x.n_dims", "e.nDims {x}"), ("$x.n_points", "e.nPoints {x}"),
        ("$s.apply($s.source)", "alignedSource e {s}"),
        ("$s.aligned_source()", "genAlignedSource e {s}"),
        ("$s._new_target_from_state()", "genNewTargetFromState e {s}"),
        # the fits (C07's subject): which one, of which point sets, with which option
        ("$x._build_alignment_h_matrix($s, $t)", "e.affineOf {s} {t}"),
        ("procrustes_alignment($s, $t, rotation=$r, allow_mirror=$m)", "(⟨e.procrustes {r} {m} {s} {t}⟩ : Hom)"),
        ("optimal_rotation_matrix($s, $t, allow_mirror=$m)", "e.rotationOf {m} {s} {t}"),
        # `target.centre() - source.centre()`, `target.norm() / source.norm()`: the operands may be hoisted into locals
        ("$x.centre()", "(CentreOf.mk {x})"),       # (distinct projections `.c` / `.n`: a centre is not a norm)
        ("$x.norm()", "(NormOf.mk {x})"),
        # remembered options; matrices
        ("$x.rotation", "attrFlag {x}.rotation genDefault_procrustes_rotation"),
        ("$x.allow_mirror", "attrFlag {x}.allowMirror genDefault_procrustes_allow_mirror"),
        ("$x.min_singular_val", "({x}.minSV.getD genDefault_tps_min_singular_val)"),
        ("$x.h_matrix", "{x}.h"), ("$x._h_matrix", "{x}.h"),
        ("np.asarray($x)", "{x}"),
        ("np.eye($x.shape[0] + 1)", "eye"), ("np.eye($n + 1)", "eye"),
        # a kernel held in a local (`kernel.apply(points)` before / instead of `self.kernel.apply(points)`)
        ("$k.apply($p)", "np.kernel (({k}).getD 0) {p}"),
    ]


def obj_stmt():
    D = "(e.nDims {self}.source)"
    return [
        ("$s._target = $v", "s", "{{ {s} with target := {v} }}"),
        ("$s._source = $v", "s", "{{ {s} with source := {v} }}"),
        ("$s.rotation = $v", "s", "{{ {s} with rotation := some {v} }}"),
        ("$s.allow_mirror = $v", "s", "{{ {s} with allowMirror := some {v} }}"),
        ("$s.min_singular_val = $v", "s", "{{ {s} with minSV := some {v} }}"),
        ("$s.kernel = $v", "s", "{{ {s} with kernel := {v} }}"),
        ("$s._h_matrix = None", "s", "{s}.setH eye"),
        ("$s._h_matrix = $v", "s", "{s}.setH {v}"),
        # in-place writes into the matrix an object holds
    ] + [r for attr in ("h_matrix", "_h_matrix") for r in (
        ("$s.%s[:-1, -1] = $v" % attr, "s", "{s}.setH (setLastCol (e.nDims {s}.source) {v} {s}.h)"),
        ("$s.%s[:-1, :-1] = $v" % attr, "s", "{s}.setH (setBlock (e.nDims {s}.source) {v} {s}.h)"),
        ("np.fill_diagonal($s.%s, $v)" % attr, "s", "{s}.setH (fillDiag (e.nDims {s}.source) {v} {s}.h)"),
        ("$s.%s[-1, -1] = 1" % attr, "s", "{s}.setH (setCorner (e.nDims {s}.source) {s}.h)"))] + [
        # ... and into a local array (arrays of an alignment have the dimension of its source)
        ("$h[:-1, -1] = $v", "h", "setLastCol %s {v} {h}" % D),
        ("np.fill_diagonal($h, $v)", "h", "fillDiag %s {v} {h}" % D),
        ("$h[-1, -1] = 1", "h", "setCorner %s {h}" % D),
        # methods of the translated family
        ("$s._verify_target($t)", "s", "(genVerifyTarget e {s} {t}).map fun _ => {s}", "bind"),
        ("$s._target_setter($t)", "s", "genTargetSetter {s} {t}"),
        ("$s._target_setter_with_verification($t)", "s", "genTargetSetterWithVerification e {s} {t}", "bind"),
        ("$s._sync_state_from_target()", "s", "genSync np e {s}", "bind"),
        ("$s._sync_target_from_state()", "s", "genSyncTargetFromState e {s}", "bind"),
        ("$s._verify_source_and_target($a, $b)", "s", "(genVerifySourceAndTarget e {a} {b}).map fun _ => {s}", "bind"),
        ("$s._build_coefficients()", "s", "genBuildCoefficients np {s}"),
        ("$s._rebuild_target_vectors()", "s", "genRebuildTargetVectors np {s}"),
        # the two shape-checking setters of the homogeneous parents (vocabulary: Core/C08Py.lean)
        ("Affine._set_h_matrix($s, $v, copy=$c, skip_checks=$k)", "s", "affineSetH e {s} {v} {c} {k}", "bind"),
        ("Rotation.set_rotation_matrix($s, $v, skip_checks=$k)", "s", "rotationSetR e {s} {v} {k}"),
        # virtual calls: the dispatchers are generated from the live MROs
        ("$s._set_h_matrix($v, copy=$c, skip_checks=$k)", "s", "genVirtSetH e {s} {v} {c} {k}", "bind"),
        ("$s._set_h_matrix($v, skip_checks=$k, copy=$c)", "s", "genVirtSetH e {s} {v} {c} {k}", "bind"),
        ("$s.set_rotation_matrix($v, skip_checks=$k)", "s", "genVirtSetRot e {s} {v} {k}", "bind"),
    ]


def init_stmt(cl):
    """`Base.__init__(self, …)` calls, resolved through the live classes to the translated constructor"""
    table = {id(raw(cl["Alignment"], "__init__")): "genInit_Alignment e {s} {a} {b}"}
    out = []
    for name in ("Alignment", "HomogFamilyAlignment"):
        sup = supplier(cl[name], "__init__")
        tmpl = table.get(id(raw(sup, "__init__"))) if sup is not None and sup is not object else None
        if tmpl:
            out.append(("%s.__init__($s, $a, $b)" % name, "s", tmpl, "bind"))
    for name in ("Affine", "Similarity"):
        if supplier(cl[name], "__init__") is cl[name]:
            out.append(("%s.__init__($s, $h, copy=$c, skip_checks=$k)" % name, "s",
                        "genInit_%s e {s} {h} {c} {k}" % name, "bind"))
    for name, sup_name in (("Affine", "Homogeneous"),):
        if supplier(cl[sup_name], "__init__") is cl[sup_name]:
            out.append(("%s.__init__($s, $h, copy=$c, skip_checks=$k)" % sup_name, "s",
                        "genInit_%s e {s} {h} {c} {k}" % sup_name, "bind"))
    if supplier(cl["Rotation"], "__init__") is cl["Rotation"]:
        out.append(("Rotation.__init__($s, $r)", "s", "genInit_Rotation e {s} {r}", "bind"))
        out.append(("Rotation.__init__($s, $r, skip_checks=$k)", "s", "genInit_Rotation e {s} {r} {k}", "bind"))
    if supplier(cl["Translation"], "__init__") is cl["Translation"]:
        out.append(("Translation.__init__($s, $t)", "s", "genInit_Translation e {s} {t}", "bind"))
        out.append(("Translation.__init__($s, $t, skip_checks=$k)", "s", "genInit_Translation e {s} {t} {k}", "bind"))
    if supplier(cl["UniformScale"], "__init__") is cl["UniformScale"]:
        out.append(("UniformScale.__init__($s, $v, $n)", "s", "genInit_UniformScale e {s} {v} {n}", "bind"))
        out.append(("UniformScale.__init__($s, $v, $n, skip_checks=$k)", "s", "genInit_UniformScale e {s} {v} {n} {k}", "bind"))
    # super(C, self).__init__(source, target) of the piecewise-affine classes
    for name in ("PythonPWA", "CachedPWA"):
        mro = cl[name].__mro__
        nxt = next((k for k in mro[1:] if "__init__" in vars(k)), None)
        if nxt is not None and nxt.__name__ in ("AbstractPWA", "PythonPWA"):
            out.append(("super(%s, $s).__init__($a, $b)" % name, "s", "genInit_%s np e {s} {a} {b}" % nxt.__name__, "bind"))
    return out


NP_EXPR = [
    # the truncated pseudo-inverse of `_build_coefficients`, one rule per numpy expression (so that any of them may be
    # hoisted into a local or into a helper function)
    ("sum($s < $m)", "np.nBelow {s} {m}"),
    ("$s.shape[0] - $n", "np.keep {s} {n}"),
    ("1.0 / $s[:$k, None]", "np.invSing {s} {k}"),
    ("$a * $v[:$k, :]", "np.scaleRows {a} {v} {k}"),
    ("$u[:, :$k].dot($x)", "np.leftDot {u} {k} {x}"),
    ("np.linalg.svd($a)", "np.svd {a}"),
    ("$x.target.points[$x.trilist]", "np.take (np.pts {x}.target) {x}.source"),
    ("barycentric_vectors($x.source.points, $x.trilist)", "np.bary (np.pts {x}.source) {x}.source"),
    ("$x.kernel.apply($p)", "np.kernel ({x}.kernel.getD 0) {p}"),
    # kernel 0 = the `R2LogR2RBF` the constructor makes when none is given, CENTRED ON THE SOURCE it is given: the
    # model's kernels are numbers, so the centre is fixed by the pattern (another centre has no rule)
    ("R2LogR2RBF(source.points)", "(some 0)"), ("R2LogR2RBF(self.source.points)", "(some 0)"),
    ("R2LogR2RBF(self._source.points)", "(some 0)"),
    ("isinstance($x, TriMesh)", "np.isTriMesh {x}"),
    ("TriMesh($x.points)", "np.triMesh {x}"),
    ("$a.T.copy()", "np.tr {a}"), ("$a.T", "np.tr {a}"),
    ("$x.points", "np.pts {x}"),
    ("np.hstack([$a, $b])", "np.hcat {a} {b}"),
    ("np.concatenate([$a, $b], axis=1)", "np.hcat {a} {b}"),
    ("np.concatenate([$a, $b], axis=0)", "np.vcat {a} {b}"),
    ("np.ones([$n, 1])", "np.ones {n}"),
    ("np.zeros([$r, $c])", "np.zeros {r} {c}"),
    ("$a.dot($b)", "np.dot {a} {b}"),
    ("$t[:, $j]", "np.col {t} {j}"),
    ("$x.l", "{x}.l"), ("$x.coefficients", "{x}.coef"),
]
NP_STMT = [
    ("$s.l = $v", "s", "{s}.setL {v}"),
    ("$s.coefficients = None", "s", "{s}.setCoef default"),
    ("$s.coefficients = $v", "s", "{s}.setCoef {v}"),
]


def paren(rules):
    """every template becomes a parenthesised term (templates are substituted into applications)"""
    out = []
    for r in rules:
        t = r[1]
        if " " in t and not (t.startswith("(") and t.endswith(")")):
            t = "(" + t + ")"
        out.append((r[0], t) + tuple(r[2:]))
    return out


def obj_rules(cl, end=".ok {self}", ret=".ok ({e})", scratch=(), extra_expr=(), extra_stmt=(), sub=False, drop=()):
    expr = list(extra_expr) + NP_EXPR + obj_expr()
    binop = {ast.Sub: "(np.sub {a} {b})" if sub else "(e.translationOf ({b}).c ({a}).c)",
             ast.Div: "(e.scaleOf ({b}).n ({a}).n)"}
    return RulesX(expr=paren(expr), stmt=list(extra_stmt) + NP_STMT + obj_stmt() + init_stmt(cl), raise_=None,
                  raise_by=EXC, end=end, ret=ret, scratch=scratch, binop=binop, drop=drop,
                  nonnull=("$x.target", "$x._target", "$x.source", "$x._source"), alias_attrs=("h_matrix", "_h_matrix"),
                  chain_attrs=("points",))


# ---------------------------------------------------------------------------------------------------------- the file

HEADER = """/- TRANSLATED by harness/trans_c08.py (harness/py2lean2.py) from the SOURCE TEXT of the alignment machinery of the
   current working tree on every run of `./check C08`; do not edit.
     menpo/base.py                              Targetable.n_dims, n_points, set_target, _target_setter_with_verification,
                                                _verify_target, _sync_target_from_state
     menpo/transform/base/alignment.py          Alignment.__init__, _verify_source_and_target, aligned_source,
                                                _target_setter, _new_target_from_state
     menpo/transform/homogeneous/*.py           __init__ and _sync_state_from_target of the five Alignment* classes, the
                                                overrides of _set_h_matrix / set_rotation_matrix / _from_vector_inplace,
                                                HomogFamilyAlignment.copy / pseudoinverse, the constructors of Homogeneous,
                                                Affine, Similarity, Rotation, Translation, UniformScale, procrustes_alignment
     menpo/transform/thinplatesplines.py        ThinPlateSplines.__init__, _build_coefficients, _sync_state_from_target
     menpo/transform/piecewiseaffine/base.py    AbstractPWA / PythonPWA / CachedPWA.__init__, _rebuild_target_vectors,
                                                _sync_state_from_target
     menpo/transform/groupalign/*.py            MultipleAlignment.__init__, GeneralizedProcrustesAnalysis.__init__,
                                                _recursive_procrustes
   The dispatchers (`genSync`, `genVirtSetH`, `genVirtSetRot`, `genNew`) are generated from the live MROs.
   GenProps/C08Src.lean proves every definition equal to the Core model. -/
import MenpoModel.Core.C08Py

set_option linter.unusedVariables false

namespace MenpoModel.Generated.C08
open MenpoModel.C08

variable {Pts A S : Type} [Inhabited A]

/-- a homogeneous transform that is not an alignment, by its matrix (`procrustes_alignment(…)`) -/
structure Hom where
  h : Mat

/-- `x.centre()` / `x.norm()`, by the point set (the model's fits take the point sets: `target.centre() -
source.centre()` is `translationOf source target`, `target.norm() / source.norm()` is `scaleOf source target`) -/
structure CentreOf (Pts : Type) where
  c : Pts
structure NormOf (Pts : Type) where
  n : Pts

/-- an array the object owns: the result of `a.copy()` / of a computation that allocates (`_h_matrix_pseudoinverse()`).
`HomogFamilyAlignment.copy / pseudoinverse` must bind `_h_matrix` to such a value: a dropped `.copy()` does not type-check -/
structure Owned where
  m : Mat

/-- `x.__class__` / `type(x)` of an alignment: the object it was read from (`cls.__new__(cls)` makes a blank one) -/
structure ClsOf (Pts A : Type) where
  o : Obj Pts A

/-- `type(x.kernel)`: the kind of a kernel; calling it with the points of the inverse's source gives a kernel of the
same kind centred there -/
structure KernelCls where
  kind : Option Nat

/-- `target.norm() / source.norm()` in `procrustes_alignment`, by the two point sets -/
structure RatioOf (Pts : Type) where
  src : Pts
  tgt : Pts
"""

FOOTER = "\nend MenpoModel.Generated.C08\n"

ERR = ".error .notImplementedError"


def build_items(cl):
    """[(name, signature, thunk -> body text, stub body)] in dependency order"""
    items = []
    T = cl["Targetable"]
    AL = cl["Alignment"]
    E = "(e : Ext Pts A)"
    NPE = "(np : Np Pts A) (e : Ext Pts A)"
    SELF = "(self : %s)" % OBJ

    def fam_supplier(meth, classes=None):
        """the one class that supplies `meth` to every class of the family (else Untranslatable)"""
        sups = {supplier(cl[i], meth) for _m, i in MODEL_CLASSES if classes is None or i in classes}
        if len(sups) != 1 or None in sups:
            raise Untranslatable("%s is supplied by %s" % (meth, sorted(getattr(s, "__name__", "-") for s in sups)))
        return sups.pop()

    def fn_item(name, sig, getfn, argmap, rules_thunk, stub, ind=1, allow_unused=()):
        def thunk():
            return TranslatorX(rules_thunk()).function(getfn(), argmap, ind=ind, allow_unused=allow_unused)
        items.append((name, sig, thunk, stub))

    R = lambda **kw: (lambda: obj_rules(cl, **kw))

    # ---- defaults of the option parameters (source text of the defaults, for the obligations about defaults)
    def defaults_item(name, getfn, param, typ, stub):
        def thunk():
            d = TranslatorX(obj_rules(cl)).defaults(getfn())
            if param not in d:
                raise Untranslatable("no default for %s" % param)
            return "  " + lean_default(d[param])
        items.append((name, "def %s : %s :=" % (name, typ), thunk, stub))

    def proc():
        from menpo.transform.homogeneous import similarity
        return similarity.procrustes_alignment

    defaults_item("genDefault_procrustes_rotation", proc, "rotation", "Bool", "false")
    defaults_item("genDefault_procrustes_allow_mirror", proc, "allow_mirror", "Bool", "true")
    defaults_item("genDefault_similarity_rotation", lambda: raw(cl["AlignmentSimilarity"], "__init__"), "rotation", "Bool", "false")
    defaults_item("genDefault_similarity_allow_mirror", lambda: raw(cl["AlignmentSimilarity"], "__init__"), "allow_mirror", "Bool", "true")
    defaults_item("genDefault_rotation_allow_mirror", lambda: raw(cl["AlignmentRotation"], "__init__"), "allow_mirror", "Bool", "true")
    defaults_item("genDefault_tps_min_singular_val", lambda: raw(cl["ThinPlateSplines"], "__init__"), "min_singular_val", "Rat", "0")
    defaults_item("genDefault_tps_kernel", lambda: raw(cl["ThinPlateSplines"], "__init__"), "kernel", "Option Nat", "some 7")
    defaults_item("genDefault_gpa_allow_mirror", lambda: raw(cl["GeneralizedProcrustesAnalysis"], "__init__"), "allow_mirror", "Bool", "true")

    # ---- Targetable / Alignment
    fn_item("genNDims", "def genNDims %s %s : Nat :=" % (E, SELF), lambda: raw(fam_supplier("n_dims"), "n_dims"),
            {"self": "self"}, R(ret="{e}"), "0")
    fn_item("genNPoints", "def genNPoints %s %s : Nat :=" % (E, SELF), lambda: raw(fam_supplier("n_points"), "n_points"),
            {"self": "self"}, R(ret="{e}"), "0")
    fn_item("genVerifyTarget", "def genVerifyTarget %s %s (newtarget : Pts) : Except PyExc Unit :=" % (E, SELF),
            lambda: raw(fam_supplier("_verify_target"), "_verify_target"), {"self": "self", "new_target": "newtarget"},
            R(end=".ok ()"), ERR)
    fn_item("genTargetSetter", "def genTargetSetter %s (newtarget : Pts) : %s :=" % (SELF, OBJ),
            lambda: raw(fam_supplier("_target_setter"), "_target_setter"), {"self": "self", "new_target": "newtarget"},
            R(end="{self}", ret="{e}"), "self")
    fn_item("genTargetSetterWithVerification",
            "def genTargetSetterWithVerification %s %s (newtarget : Pts) : Except PyExc (%s) :=" % (E, SELF, OBJ),
            lambda: raw(fam_supplier("_target_setter_with_verification"), "_target_setter_with_verification"),
            {"self": "self", "new_target": "newtarget"}, R(), ERR)
    fn_item("genAlignedSource", "def genAlignedSource %s %s : Pts :=" % (E, SELF),
            lambda: raw(fam_supplier("aligned_source"), "aligned_source"), {"self": "self"}, R(ret="{e}"), "self.source")
    fn_item("genNewTargetFromState", "def genNewTargetFromState %s %s : Pts :=" % (E, SELF),
            lambda: raw(fam_supplier("_new_target_from_state"), "_new_target_from_state"), {"self": "self"}, R(ret="{e}"),
            "self.source")
    fn_item("genSyncTargetFromState", "def genSyncTargetFromState %s %s : Except PyExc (%s) :=" % (E, SELF, OBJ),
            lambda: raw(fam_supplier("_sync_target_from_state"), "_sync_target_from_state"), {"self": "self"}, R(), ERR)

    # ---- the overrides of the matrix setters, and the virtual calls
    HOM = ("AlignmentAffine", "AlignmentSimilarity", "AlignmentRotation", "AlignmentTranslation", "AlignmentUniformScale")

    def virt(name, sig, meth, args, base_cls, base_tmpl, stub):
        """dispatcher of a virtual call `self.<meth>(…)` over the homogeneous alignment classes: the class's own
        override when the live MRO supplies one (translated as `<name>_<Class>`), else the parent's (vocabulary)"""
        overrides = []
        for m, i in MODEL_CLASSES:
            if i not in HOM:
                continue
            sup = supplier(cl[i], meth)
            if sup is None:
                continue                          # the class has no such method: the call cannot reach it
            if sup is cl[i]:
                overrides.append((m, i))
            elif sup is not cl[base_cls]:
                overrides.append((m, "?" + sup.__name__))      # supplied by a class the vocabulary does not know

        def thunk():
            arms = []
            for m, i in overrides:
                if i.startswith("?"):
                    raise Untranslatable("%s of the %s class is supplied by %s" % (meth, m, i))
                arms.append("  | .%s => %s_%s e self %s" % (m, name, i, args))
            arms.append("  | _ => %s" % base_tmpl)
            return "  match self.cls with\n" + "\n".join(arms)
        return overrides, (name, sig, thunk, stub)

    seth_sig = "%s %s (value : Mat) (copy skipchecks : Bool) : Except PyExc (%s) :=" % (E, SELF, OBJ)
    seth_over, seth_item = virt("genVirtSetH", "def genVirtSetH " + seth_sig, "_set_h_matrix", "value copy skipchecks",
                                "Affine", "affineSetH e self value copy skipchecks", ERR)
    for m, i in seth_over:
        if i and not i.startswith("?"):
            fn_item("genVirtSetH_" + i, "def genVirtSetH_%s %s" % (i, seth_sig), lambda i=i: raw(cl[i], "_set_h_matrix"),
                    {"self": "self", "value": "value", "copy": "copy", "skip_checks": "skipchecks"}, R(), ERR)
    items.append(seth_item)
    setr_sig = "%s %s (value : Mat) (skipchecks : Bool) : Except PyExc (%s) :=" % (E, SELF, OBJ)
    setr_over, setr_item = virt("genVirtSetRot", "def genVirtSetRot " + setr_sig, "set_rotation_matrix", "value skipchecks",
                                "Rotation", ".ok (rotationSetR e self value skipchecks)", ERR)
    for m, i in setr_over:
        if i and not i.startswith("?"):
            fn_item("genVirtSetRot_" + i, "def genVirtSetRot_%s %s" % (i, setr_sig), lambda i=i: raw(cl[i], "set_rotation_matrix"),
                    {"self": "self", "value": "value", "skip_checks": "skipchecks"}, R(), ERR)
    items.append(setr_item)

    # ---- the numerical re-fits of TPS / PWA, as numpy expressions
    fn_item("genBuildCoefficients", "def genBuildCoefficients (np : Np Pts A) %s : %s :=" % (SELF, OBJ),
            lambda: raw(supplier(cl["ThinPlateSplines"], "_build_coefficients"), "_build_coefficients"), {"self": "self"},
            R(end="{self}", ret="{e}", scratch=TPS_SCRATCH), "self")
    fn_item("genRebuildTargetVectors", "def genRebuildTargetVectors (np : Np Pts A) %s : %s :=" % (SELF, OBJ),
            lambda: raw(supplier(cl["CachedPWA"], "_rebuild_target_vectors"), "_rebuild_target_vectors"), {"self": "self"},
            R(end="{self}.setTv (np.pack3 {self__ti} {self__tij} {self__tik})", ret="{e}", scratch=PWA_SCRATCH, sub=True),
            "self")

    # ---- _sync_state_from_target of every supplier, and the dispatcher
    sync_sig = "%s %s : Except PyExc (%s) :=" % (NPE, SELF, OBJ)
    sync_sups = []
    for m, i in MODEL_CLASSES:
        sup = supplier(cl[i], "_sync_state_from_target")
        sync_sups.append((m, sup))
        if sup is not None and sup is not T and not any(n == "genSync_" + sup.__name__ for n, *_ in items):
            scratch = TPS_SCRATCH if m == "tps" else PWA_SCRATCH if m == "pwa" else ()
            fn_item("genSync_" + sup.__name__, "def genSync_%s %s" % (sup.__name__, sync_sig),
                    lambda sup=sup: raw(sup, "_sync_state_from_target"), {"self": "self"}, R(scratch=scratch), ERR)

    def sync_dispatch():
        arms = []
        for m, sup in sync_sups:
            if sup is None or sup is T:
                raise Untranslatable("_sync_state_from_target of the %s class is not overridden" % m)
            arms.append("  | .%s => genSync_%s np e self" % (m, sup.__name__))
        return "  match self.cls with\n" + "\n".join(arms)
    items.append(("genSync", "def genSync " + sync_sig, sync_dispatch, ERR))

    fn_item("genSetTarget", "def genSetTarget %s %s (newtarget : Pts) : Except PyExc (%s) :=" % (NPE, SELF, OBJ),
            lambda: raw(fam_supplier("set_target"), "set_target"), {"self": "self", "new_target": "newtarget"}, R(), ERR)

    # ---- constructors: Alignment, the homogeneous parents, the alignment classes
    fn_item("genVerifySourceAndTarget", "def genVerifySourceAndTarget %s (source target : Pts) : Except PyExc Unit :=" % E,
            lambda: raw(AL, "_verify_source_and_target"), {"source": "source", "target": "target"}, R(end=".ok ()"), ERR)
    fn_item("genInit_Alignment", "def genInit_Alignment %s %s (source target : Pts) : Except PyExc (%s) :=" % (E, SELF, OBJ),
            lambda: raw(AL, "__init__"), {"self": "self", "source": "source", "target": "target"}, R(), ERR)
    hsig = "%s %s (hmatrix : Mat) (copy skipchecks : Bool) : Except PyExc (%s) :=" % (E, SELF, OBJ)
    for name in ("Homogeneous", "Affine", "Similarity"):
        fn_item("genInit_" + name, "def genInit_%s %s" % (name, hsig), lambda name=name: raw(cl[name], "__init__"),
                {"self": "self", "h_matrix": "hmatrix", "copy": "copy", "skip_checks": "skipchecks"}, R(), ERR)

    def dflt(getfn, param):
        def f():
            d = TranslatorX(obj_rules(cl)).defaults(getfn())
            if param not in d:
                raise Untranslatable("no default for %s" % param)
            return lean_default(d[param])
        return f

    def sig_with_defaults(name, fixed, opts, getfn, ret):
        """signature text whose option parameters carry the defaults the source gives them (computed lazily)"""
        def sig():
            parts = []
            for lean, typ, py in opts:
                parts.append("(%s : %s := %s)" % (lean, typ, dflt(getfn, py)()))
            return "def %s %s %s : %s :=" % (name, fixed, " ".join(parts), ret)
        return sig

    EXO = "Except PyExc (%s)" % OBJ

    def lazy_item(name, sigf, stub_sig, getfn, argmap, rules_thunk, stub, allow_unused=()):
        def thunk():
            return TranslatorX(rules_thunk()).function(getfn(), argmap, ind=1, allow_unused=allow_unused)
        items.append((name, (sigf, stub_sig), thunk, stub))

    lazy_item("genInit_Rotation",
              sig_with_defaults("genInit_Rotation", "%s %s (rotationmatrix : Mat)" % (E, SELF),
                                [("skipchecks", "Bool", "skip_checks")], lambda: raw(cl["Rotation"], "__init__"), EXO),
              "def genInit_Rotation %s %s (rotationmatrix : Mat) (skipchecks : Bool := false) : %s :=" % (E, SELF, EXO),
              lambda: raw(cl["Rotation"], "__init__"),
              {"self": "self", "rotation_matrix": "rotationmatrix", "skip_checks": "skipchecks"}, R(), ERR)
    lazy_item("genInit_Translation",
              sig_with_defaults("genInit_Translation", "%s %s (translation : Nat → Rat)" % (E, SELF),
                                [("skipchecks", "Bool", "skip_checks")], lambda: raw(cl["Translation"], "__init__"), EXO),
              "def genInit_Translation %s %s (translation : Nat → Rat) (skipchecks : Bool := false) : %s :=" % (E, SELF, EXO),
              lambda: raw(cl["Translation"], "__init__"),
              {"self": "self", "translation": "translation", "skip_checks": "skipchecks"}, R(), ERR)
    lazy_item("genInit_UniformScale",
              sig_with_defaults("genInit_UniformScale", "%s %s (scale : Rat) (ndims : Nat)" % (E, SELF),
                                [("skipchecks", "Bool", "skip_checks")], lambda: raw(cl["UniformScale"], "__init__"), EXO),
              "def genInit_UniformScale %s %s (scale : Rat) (ndims : Nat) (skipchecks : Bool := false) : %s :=" % (E, SELF, EXO),
              lambda: raw(cl["UniformScale"], "__init__"),
              {"self": "self", "scale": "scale", "n_dims": "ndims", "skip_checks": "skipchecks"}, R(), ERR)
    # alignment classes
    ST = "(source target : Pts)"
    fn_item("genInit_AlignmentAffine", "def genInit_AlignmentAffine %s %s %s : %s :=" % (E, SELF, ST, EXO),
            lambda: raw(cl["AlignmentAffine"], "__init__"), {"self": "self", "source": "source", "target": "target"}, R(), ERR)
    lazy_item("genInit_AlignmentSimilarity",
              sig_with_defaults("genInit_AlignmentSimilarity", "%s %s %s" % (E, SELF, ST),
                                [("rotation", "Bool", "rotation"), ("allowmirror", "Bool", "allow_mirror")],
                                lambda: raw(cl["AlignmentSimilarity"], "__init__"), EXO),
              "def genInit_AlignmentSimilarity %s %s %s (rotation : Bool := true) (allowmirror : Bool := false) : %s :=" % (E, SELF, ST, EXO),
              lambda: raw(cl["AlignmentSimilarity"], "__init__"),
              {"self": "self", "source": "source", "target": "target", "rotation": "rotation", "allow_mirror": "allowmirror"},
              R(), ERR)
    lazy_item("genInit_AlignmentRotation",
              sig_with_defaults("genInit_AlignmentRotation", "%s %s %s" % (E, SELF, ST),
                                [("allowmirror", "Bool", "allow_mirror")], lambda: raw(cl["AlignmentRotation"], "__init__"), EXO),
              "def genInit_AlignmentRotation %s %s %s (allowmirror : Bool := false) : %s :=" % (E, SELF, ST, EXO),
              lambda: raw(cl["AlignmentRotation"], "__init__"),
              {"self": "self", "source": "source", "target": "target", "allow_mirror": "allowmirror"}, R(), ERR)
    fn_item("genInit_AlignmentTranslation", "def genInit_AlignmentTranslation %s %s %s : %s :=" % (E, SELF, ST, EXO),
            lambda: raw(cl["AlignmentTranslation"], "__init__"), {"self": "self", "source": "source", "target": "target"}, R(), ERR)
    fn_item("genInit_AlignmentUniformScale", "def genInit_AlignmentUniformScale %s %s %s : %s :=" % (E, SELF, ST, EXO),
            lambda: raw(cl["AlignmentUniformScale"], "__init__"), {"self": "self", "source": "source", "target": "target"}, R(), ERR)
    lazy_item("genInit_ThinPlateSplines",
              sig_with_defaults("genInit_ThinPlateSplines", "%s %s %s" % (NPE, SELF, ST),
                                [("kernel", "Option Nat", "kernel"), ("minsingularval", "Rat", "min_singular_val")],
                                lambda: raw(cl["ThinPlateSplines"], "__init__"), EXO),
              "def genInit_ThinPlateSplines %s %s %s (kernel : Option Nat := none) (minsingularval : Rat := 0) : %s :=" % (NPE, SELF, ST, EXO),
              lambda: raw(cl["ThinPlateSplines"], "__init__"),
              {"self": "self", "source": "source", "target": "target", "kernel": "kernel", "min_singular_val": "minsingularval"},
              R(scratch=TPS_SCRATCH), ERR)
    for name in ("AbstractPWA", "PythonPWA", "CachedPWA"):
        fn_item("genInit_" + name, "def genInit_%s %s %s %s : %s :=" % (name, NPE, SELF, ST, EXO),
                lambda name=name: raw(cl[name], "__init__"), {"self": "self", "source": "source", "target": "target"},
                R(scratch=PWA_SCRATCH), ERR)
    return items


def new_items(cl):
    """`Cls(source, target, **options)` = `__new__` + `__init__` for every alignment class, with the defaults of the
    source; `genBuild`: the constructor call the model's `build` stands for, class by class"""
    items = []

    def defaults(cls_name):
        return TranslatorX(obj_rules(cl)).defaults(raw(cl[cls_name], "__init__"))

    def need(d, *names):
        for n in names:
            if n not in d:
                raise Untranslatable("no default for %s" % n)

    def new_sim():
        d = defaults("AlignmentSimilarity")
        need(d, "rotation", "allow_mirror")
        return ("def genNew_AlignmentSimilarity (e : Ext Pts A) (source target : Pts) (rotation : Bool := %s) "
                "(allowmirror : Bool := %s) : Except PyExc (Obj Pts A) :=" % (lean_default(d["rotation"]), lean_default(d["allow_mirror"])))
    items.append(("genNew_AlignmentSimilarity",
                  (new_sim, "def genNew_AlignmentSimilarity (e : Ext Pts A) (source target : Pts) (rotation : Bool := false) "
                            "(allowmirror : Bool := true) : Except PyExc (Obj Pts A) :="),
                  lambda: "  genInit_AlignmentSimilarity e (blank .similarity source target) source target rotation allowmirror",
                  ".error .notImplementedError"))

    def build_body():
        # which implementation class the model class stands for is fixed by harness/c08.py: families()
        return ("  match c with\n"
                "  | .affine => genInit_AlignmentAffine e (blank .affine s t) s t\n"
                "  | .similarity => genInit_AlignmentSimilarity e (blank .similarity s t) s t op.rotation op.allowMirror\n"
                "  | .rotation => genInit_AlignmentRotation e (blank .rotation s t) s t op.allowMirror\n"
                "  | .translation => genInit_AlignmentTranslation e (blank .translation s t) s t\n"
                "  | .uniformScale => genInit_AlignmentUniformScale e (blank .uniformScale s t) s t\n"
                "  | .tps => genInit_ThinPlateSplines np e (blank .tps s t) s t (if op.kernel = 0 then none else some op.kernel) op.minSV\n"
                "  | .pwa => genInit_CachedPWA np e (blank .pwa s t) s t")
    items.append(("genBuild", "def genBuild (np : Np Pts A) (e : Ext Pts A) (c : Cls) (op : Opts) (s t : Pts) : Except PyExc (Obj Pts A) :=",
                  build_body, ".error .notImplementedError"))

    def default_opts():
        ds, dr, dt = defaults("AlignmentSimilarity"), defaults("AlignmentRotation"), defaults("ThinPlateSplines")
        need(ds, "rotation", "allow_mirror")
        need(dr, "allow_mirror")
        need(dt, "kernel", "min_singular_val")
        if ds["allow_mirror"] != dr["allow_mirror"]:
            raise Untranslatable("allow_mirror defaults of AlignmentSimilarity and AlignmentRotation differ")
        k = lean_default(dt["kernel"])
        return "  { rotation := %s, allowMirror := %s, kernel := %s, minSV := %s }" % (
            lean_default(ds["rotation"]), lean_default(ds["allow_mirror"]), "0" if k == "none" else "7", lean_default(dt["min_singular_val"]))
    items.append(("genDefaultOpts", "def genDefaultOpts : Opts :=", default_opts, "{ rotation := false }"))
    return items


# ---------------------------------------------------------------------------------------------------------- edits, copies

def edit_items(cl):
    """what may happen to an alignment between two `set_target` calls: `copy`, `pseudoinverse`, the parameter edits
    (`_from_vector_inplace` / `set_rotation_matrix` overrides, the in-place compositions) - the model's `pinv`, `vEdit`"""
    items = []
    E = "(e : Ext Pts A)"
    NPE = "(np : Np Pts A) (e : Ext Pts A)"
    SELF = "(self : %s)" % OBJ
    EXO = "Except PyExc (%s)" % OBJ
    HFA = cl["HomogFamilyAlignment"]
    HOM = cl["Homogeneous"]

    def fn_item(name, sig, getfn, argmap, rules_thunk, stub):
        def thunk():
            return TranslatorX(rules_thunk()).function(getfn(), argmap, ind=1)
        items.append((name, sig, thunk, stub))

    copy_expr = [("$s.__class__", "(ClsOf.mk {s})"),
                 ("$c.__new__($c)", "(blank ({c}).o.cls ({c}).o.source ({c}).o.target : Obj Pts A)"),
                 ("type($x.kernel)", "(KernelCls.mk {x}.kernel)"),
                 ("$c($x.target.points)", "({c}).kind"), ("$c($x._target.points)", "({c}).kind"),
                 ("$x._h_matrix.copy()", "(Owned.mk {x}.h)"), ("$x.h_matrix.copy()", "(Owned.mk {x}.h)"),
                 ("$s.copy()", "genCopy {s}"),
                 ("$s._h_matrix_pseudoinverse()", "(Owned.mk (inv {s}.h))"),
                 # the inverse's kernel: same kind, re-centred on the inverse's source = our target (only that centre
                 # has a rule; the constructor call below must then make that point set the source)

                 ("ThinPlateSplines($x.target, $x.source, kernel=$k, min_singular_val=$m)",
                  "genInit_ThinPlateSplines np e (blank .tps {x}.target {x}.source) {x}.target {x}.source {k} {m}", "bind"),
                 ("np.dot($a.h_matrix, $b.h_matrix)", "mulMat (e.nDims {self}.source) {a}.h {b}.h"),
                 ("np.size($p)", "(1)")]
    copy_stmt = [("$n.__dict__ = $s.__dict__.copy()", "n", "{s}"),
                 ("$s._h_matrix = $v", "s", "{s}.setH ({v}).m"),       # (in copy / pseudoinverse: an owned array only)
                 ("Similarity._from_vector_inplace($s, $p)", "s", "{s}.setH {p}"),
                 ("Translation._from_vector_inplace($s, $p)", "s", "genFromVector_Translation e {s} {p}"),
                 ("UniformScale._from_vector_inplace($s, $p)", "s", "genFromVector_UniformScale e {s} {p}", "bind")]
    R = lambda **kw: (lambda: obj_rules(cl, extra_expr=copy_expr, extra_stmt=copy_stmt, **kw))

    fn_item("genCopy", "def genCopy %s : %s :=" % (SELF, OBJ), lambda: raw(HFA, "copy"), {"self": "self"},
            R(ret="{e}", end="{self}"), "blank self.cls self.target self.source")
    fn_item("genPseudoinverse", "def genPseudoinverse (inv : Mat → Mat) %s : %s :=" % (SELF, OBJ),
            lambda: raw(HFA, "pseudoinverse"), {"self": "self"}, R(ret="{e}", end="{self}"), "self")
    fn_item("genPseudoinverse_ThinPlateSplines", "def genPseudoinverse_ThinPlateSplines %s %s : %s :=" % (NPE, SELF, EXO),
            lambda: raw(cl["ThinPlateSplines"], "pseudoinverse"), {"self": "self"}, R(ret="{e}"), ERR)
    # the parents' parameter setters that are plain array writes
    fn_item("genFromVector_Translation", "def genFromVector_Translation %s %s (p : Nat → Rat) : %s :=" % (E, SELF, OBJ),
            lambda: raw(cl["Translation"], "_from_vector_inplace"), {"self": "self", "p": "p"}, R(ret="{e}", end="{self}"), "self")
    fn_item("genFromVector_UniformScale", "def genFromVector_UniformScale %s %s (p : Rat) : %s :=" % (E, SELF, EXO),
            lambda: raw(cl["UniformScale"], "_from_vector_inplace"), {"self": "self", "p": "p"}, R(), ERR)
    # the overrides of the alignment classes (each re-syncs the target)
    for cname, ptype in (("AlignmentSimilarity", "Mat"), ("AlignmentTranslation", "Nat → Rat"), ("AlignmentUniformScale", "Rat")):
        fn_item("genFromVector_" + cname, "def genFromVector_%s %s %s (p : %s) : %s :=" % (cname, E, SELF, ptype, EXO),
                lambda cname=cname: raw(cl[cname], "_from_vector_inplace"), {"self": "self", "p": "p"}, R(), ERR)
    # Homogeneous._compose_before_inplace / _compose_after_inplace (the operand by its matrix)
    for d in ("before", "after"):
        fn_item("genCompose_%s" % d, "def genCompose_%s %s %s (transform : Hom) : %s :=" % (d, E, SELF, EXO),
                lambda d=d: raw(HOM, "_compose_%s_inplace" % d), {"self": "self", "transform": "transform"}, R(), ERR)

    # procrustes_alignment: which fit is composed in which branch with which option
    def proc():
        from menpo.transform.homogeneous import similarity
        return similarity.procrustes_alignment
    proc_rules = lambda: RulesX(expr=paren([
        ("Translation(-$x.centre(), skip_checks=True)", "pk.negCentre {x}"),
        ("$x.norm()", "(NormOf.mk {x})"),
        ("UniformScale($f, $n, skip_checks=True)", "pk.scale ({f}).src ({f}).tgt {n}"),
        ("Similarity.init_identity($n)", "pk.identity {n}"),
        ("$x.n_dims", "nDims {x}"),
        ("optimal_rotation_matrix($a, $b, allow_mirror=$m)", "pk.optimalRotation {m} ({a}).1 ({b}).1 ({a}).2 ({b}).2"),
        ("Rotation($r, skip_checks=True)", "pk.rotation {r}"),
        ("$p.apply($x)", "(({p}, {x}) : Mat × Pts)"),
        ("$t.pseudoinverse()", "pk.pinv {t}")]),
        stmt=[("$p.compose_before_inplace($t)", "p", "pk.before {p} {t}")], raise_=None, raise_by=EXC, ret="{e}",
        binop={ast.Div: "(RatioOf.mk ({b}).n ({a}).n)"})

    def proc_sig():
        d = TranslatorX(proc_rules()).defaults(proc())
        if "rotation" not in d or "allow_mirror" not in d:
            raise Untranslatable("defaults of procrustes_alignment: %r" % d)
        return ("def genProcrustesAlignment (pk : ProcK Pts) (nDims : Pts → Nat) (source target : Pts) (rotation : Bool := %s) "
                "(allowmirror : Bool := %s) : Mat :=" % (lean_default(d["rotation"]), lean_default(d["allow_mirror"])))
    items.append(("genProcrustesAlignment",
                  (proc_sig, "def genProcrustesAlignment (pk : ProcK Pts) (nDims : Pts → Nat) (source target : Pts) "
                             "(rotation : Bool := false) (allowmirror : Bool := true) : Mat :="),
                  lambda: TranslatorX(proc_rules()).function(
                      proc(), {"source": "source", "target": "target", "rotation": "rotation", "allow_mirror": "allowmirror"}, ind=1),
                  "eye"))
    return items


# ---------------------------------------------------------------------------------------------------------- GPA

GPAOBJ = "PyGpa Pts A S"


def gpa_rules(cl, target_given, end=".ok {self}", ret=".ok ({e})"):
    expr = [
        ("len($x)", "({x}).length"),
        ("$x[0]", "pyIndex {x} 0", "bind"),
        ("PointCloud(sum([s.points for s in $x.sources]) / $x.n_sources)", "gk.meanOf {x}.sources"),
        ("self.n_dims", "{self}.nDims", "int"), ("self.n_points", "{self}.nPoints", "int"),
        ("$x.n_dims", "e.nDims {x}"), ("$x.n_points", "e.nPoints {x}"),
        ("$x.sources", "{x}.sources"), ("$x.n_sources", "{x}.nSources"), ("$x.target", "{x}.target"),
        ("$x.transforms", "{x}.transforms"), ("$x.n_iterations", "{x}.nIterations"),
        ("$x.max_iterations", "{x}.maxIterations"), ("$x.initial_target_scale", "{x}.initialTargetScale"),
        ("AlignmentSimilarity($s, $t, allow_mirror=$m)", "genNew_AlignmentSimilarity e {s} {t} (allowmirror := {m})", "bind"),
        ("$x.norm()", "gk.norm {x}"),
        ("$a / $b", "gk.ratio {a} {b}"),
        ("mean_pointcloud($l)", "gk.meanOf {l}"),
        ("PointCloud($x.points, copy=False)", "{x}"),
        ("$t.aligned_source()", "genAlignedSource e {t}"),
        ("scale_about_centre($c, $r)", "gk.scaleAbout {c} {r}"),
        ("np.linalg.norm($a.points - $b.points)", "gk.dist {a} {b}"),
        ("$d < 1e-6", "gk.below {d}"), ("1e-6 > $d", "gk.below {d}"),
        ("$s._recursive_procrustes()", "genRecursiveProcrustes np e gk fuel {s}", "bind"),
    ]
    fld = [("n_sources", "nSources"), ("n_points", "nPoints"), ("n_dims", "nDims"), ("sources", "sources"),
           ("target", "target"), ("transforms", "transforms"), ("initial_target_scale", "initialTargetScale"),
           ("n_iterations", "nIterations"), ("max_iterations", "maxIterations")]
    stmt = [("$s.converged = $s._recursive_procrustes()", "s",
             "(genRecursiveProcrustes np e gk pyRecursionLimit {s}).map fun p => {{ p.1 with converged := p.2 }}", "bind")]
    stmt += [("$s.%s = $v" % (py, ), "s", "{{ {s} with %s := {v} }}" % lean) for py, lean in fld]
    sup = next((k for k in cl["GeneralizedProcrustesAnalysis"].__mro__[1:] if "__init__" in vars(k)), None)
    if sup is cl["MultipleAlignment"]:
        stmt.append(("super(GeneralizedProcrustesAnalysis, $s).__init__($a, target=$t)", "s",
                     "genInit_MultipleAlignment e gk {s} {a} %s" % ("(some {t})" if target_given else "{t}"), "bind"))
    stmt += [("$r._apply_inplace($x)", "x", "{r} {x}"),
             ("$t.set_target($x)", "t", "genSetTarget np e {t} {x}", "bind")]
    return RulesX(expr=paren(expr), stmt=stmt, raise_=None, raise_by=EXC, end=end, ret=ret,
                  notnone=("target",) if target_given else ())


def gpa_items(cl):
    items = []
    E = "(e : Ext Pts A) (gk : GpaK Pts S)"
    NPE = "(np : Np Pts A) (e : Ext Pts A) (gk : GpaK Pts S)"
    SELF = "(self : %s)" % GPAOBJ
    G = cl["GeneralizedProcrustesAnalysis"]
    M = cl["MultipleAlignment"]

    def two(getfn, argmap, **kw):
        """the body specialised to `target=None` and to a given target, as the two arms of a match"""
        def thunk():
            none = TranslatorX(gpa_rules(cl, False, **kw)).function(getfn(), dict(argmap, target="none"), ind=2)
            some = TranslatorX(gpa_rules(cl, True, **kw)).function(getfn(), dict(argmap, target="target"), ind=2)
            return "  | none =>\n%s\n  | some target =>\n%s" % (none, some)
        return thunk

    items.append(("genInit_MultipleAlignment",
                  "def genInit_MultipleAlignment %s %s (sources : List Pts) : Option Pts → Except PyExc (%s)" % (E, SELF, GPAOBJ),
                  two(lambda: raw(M, "__init__"), {"self": "self", "sources": "sources"}), "  | _ => .error .notImplementedError"))

    def rec():
        body = TranslatorX(gpa_rules(cl, False, ret=".ok ({self}, {e})")).function(
            raw(G, "_recursive_procrustes"), {"self": "self"}, ind=2)
        return "  | 0, _ => .error .recursionError\n  | fuel + 1, self =>\n" + body
    items.append(("genRecursiveProcrustes",
                  "def genRecursiveProcrustes %s : Nat → %s → Except PyExc (%s × Bool)" % (NPE, GPAOBJ, GPAOBJ),
                  rec, "  | _, _ => .error .notImplementedError"))

    def gsig():
        d = TranslatorX(gpa_rules(cl, False)).defaults(raw(G, "__init__"))
        if d.get("target") != "None" or "allow_mirror" not in d:
            raise Untranslatable("defaults of GeneralizedProcrustesAnalysis.__init__: %r" % d)
        return ("def genInit_GeneralizedProcrustesAnalysis %s %s (sources : List Pts) (allowmirror : Bool := %s) : "
                "Option Pts → Except PyExc (%s)" % (NPE, SELF, lean_default(d["allow_mirror"]), GPAOBJ))
    items.append(("genInit_GeneralizedProcrustesAnalysis",
                  (gsig, "def genInit_GeneralizedProcrustesAnalysis %s %s (sources : List Pts) (allowmirror : Bool := true) : "
                         "Option Pts → Except PyExc (%s)" % (NPE, SELF, GPAOBJ)),
                  two(lambda: raw(G, "__init__"), {"self": "self", "sources": "sources", "allow_mirror": "allowmirror"}),
                  "  | _ => .error .notImplementedError"))
    return items


def src_text():
    """(lean text, [reasons of the definitions that could not be translated])"""
    cl = live_classes()
    items = build_items(cl) + new_items(cl) + edit_items(cl) + gpa_items(cl)
    out, reasons = [HEADER], []
    for name, sig, thunk, stub in items:
        stub_sig = None
        if isinstance(sig, tuple):
            sigf, stub_sig = sig
            try:
                sig = sigf()
            except Untranslatable as e:
                reasons.append("%s (signature): %s" % (name, e))
                sig = stub_sig
        try:
            body = thunk()
        except Untranslatable as e:
            reasons.append("%s: %s" % (name, e))
            body = "  /- UNTRANSLATABLE: %s -/\n  %s" % (str(e).replace("-/", "- /"), stub)
        except (KeyError, AttributeError, TypeError) as e:
            reasons.append("%s: %r" % (name, e))
            body = "  /- UNTRANSLATABLE: %s -/\n  %s" % (repr(e).replace("-/", "- /"), stub)
        if not sig.rstrip().endswith(":=") and body.lstrip().startswith("/- UNTRANSLATABLE"):
            body = body.split("-/\n", 1)[0] + "-/\n" + stub          # (match-arm definitions: the stub is an arm)
        out.append(sig + "\n" + body + "\n")
    out.append(FOOTER)
    return "\n".join(out), reasons


def translated_names(text):
    """names of the definitions of the generated file that were translated (not stubs)"""
    import re
    out = []
    for m in re.finditer(r"^def (gen\w+)[^\n]*\n([^\n]*)", text, re.M):
        if "UNTRANSLATABLE" not in m.group(2):
            out.append(m.group(1))
    return out


def failed_theorems(output):
    """names of the obligations `lake build` reports errors in (by file position)"""
    import re
    names = []
    for rel in ("MenpoModel/GenProps/C08Src.lean", "MenpoModel/GenProps/C08SrcProps.lean", GEN_REL):
        try:
            lines = open(os.path.join(os.path.dirname(os.path.dirname(os.path.abspath(__file__))), "lean", rel)).read().splitlines()
        except OSError:
            continue
        for m in re.finditer(re.escape(rel) + r":(\d+):\d+", output):
            ln = int(m.group(1))
            for k in range(min(ln, len(lines)) - 1, -1, -1):
                mm = re.match(r"\s*(?:theorem|def)\s+([\w.]+)", lines[k])
                if mm:
                    nm = ("MenpoModel.Generated.C08." if rel == GEN_REL else "MenpoModel.GenProps.C08Src.") + mm.group(1)
                    if nm not in names:
                        names.append(nm)
                    break
    return " / ".join(names)


def generated_files():
    text, reasons = src_text()
    return {GEN_REL: text}, reasons


if __name__ == "__main__":
    import sys
    sys.path.insert(0, os.environ.get("MENPO_REPO", "/repo"))
    t, why = src_text()
    print(t)
    print("UNTRANSLATABLE:", why, file=sys.stderr)
