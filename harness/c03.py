"""C03 — composition obeys its law, is closed and type-sound, leaves operands intact (DESIGN.md section 6, C03).

Three parties per generated program of compose calls:
  * the real menpo objects (all 12 homogeneous-family classes incl. alignment variants, TransformChain,
    ThinPlateSplines, PiecewiseAffine, WithDims; 2-D and 3-D) driven through the public
    compose_before / compose_after / compose_*_inplace API;
  * the property oracle (independent of the Lean model): the law on probe points, "single family member, never
    a chain, never an alignment", class honesty as a predicate on the result matrix, invertibility, and a
    digest of every pre-existing object before/after each call;
  * the Lean model (Core/C03Compose.lean): the same store and statements as exact rationals; compared are the
    kind / class / matrix / chain member references of every result and of the whole final store.
The class table is regenerated from the live classes on every run (harness/extract_c03.py) and must equal the
table the theorems are about (GenProps/C03.lean).
"""
import json
import os
from fractions import Fraction

from . import common
from . import extract_c03

PROP = "C03"
INFO = dict(
    technique="Lean 4 proof over an executable model of the composition machinery (dimension-generic exact "
              "rational matrices, the isinstance ladder transcribed branch for branch, a reference store for "
              "chains) + class table regenerated from the live classes with `decide` obligations + "
              "model/implementation correspondence on all class pairs and on random programs",
    level_text="Theorems, for every dimension and all parameter values: composition law for compose_before/after "
               "(every pair of the 12 family classes; projective Homogeneous wherever denominators are non-zero; "
               "chains and opaque transforms by structural denotation), result is a single non-alignment family "
               "member whose class invariant really holds and which is invertible, in-place calls are gated "
               "exactly by composes_inplace_with and produce the same map, non-in-place calls leave every "
               "existing store cell unchanged, all of this along every finite program of compose calls "
               "(induction over programs), and Affine.decompose recomposes under the SVD contract.  The class "
               "structure the theorems quantify over is tied to /repo by the regenerated table "
               "(`classTable_ok`), the behaviour by the correspondence, and an independent oracle decides the "
               "property on the real objects.",
    level_note="Trusted: Lean kernel; axioms propext/Classical.choice/Quot.sound; harness/extract_c03.py, this "
               "harness and the driver's parser; numpy's dot/svd (the SVD contract L = U diag(s) V is checked "
               "numerically on every decomposition case); float rounding is outside the model (exact rationals; "
               "comparison 1e-9 relative plus an error bound from the product of operand norms).",
    rule="a case is one statement executed on the real objects (a pair-battery statement or one step of a random "
         "program of 2-8 compose calls over a store of 3-7 atoms) or one decomposition; distinct = distinct "
         "(dimension, operation, operand kinds, operand parameters); non-trivial = both operands are not identity "
         "maps (always, by construction of the generators)",
    partial=["dimension-changing WithDims (3-D to 2-D) is checked by the oracle on the real code only: the Lean "
             "store is typed by one dimension, so model programs only use dimension-preserving WithDims",
             "in-place composition on a chain is proved under the hypothesis that neither the operand nor a member "
             "contains the receiver (Python itself recurses forever on such a chain); the generator respects it",
             "Affine.decompose: the theorem takes numpy's SVD factors as a contract parameter (L = U diag(s) V, "
             "checked numerically per case); the Scale factory's np.allclose decision is modelled as a Boolean input "
             "and cases within 1e-3..1e-9 of the uniform/non-uniform tie are excluded by the generator",
             "honesty of the pieces returned by decompose (Rotation(U) may be a reflection) is not claimed; only "
             "that they recompose"],
    assumptions=["operands are honest and invertible when created (constructor arguments really are rotations, "
                 "non-zero scales, ...; checked on every atom)",
                 "probe points at which a projective Homogeneous operand has a denominator below 1e-3 are skipped"],
    design_ref="DESIGN.md section 6, C03")
IMPORTS = ["MenpoModel.Props.C03"]
NS = "MenpoModel.C03."
THEOREMS = [NS + t for t in [
    "resultCls_sound", "ladder_total", "compose_closed_sound", "compose_before_law", "compose_after_law",
    "compose_law_affine", "compose_family_single", "compose_frame", "inplace_frame", "step_compose_law",
    "inplace_gate", "inplace_law", "inplace_chain_law", "prog_honest", "prog_denotation",
    "decompose_recomposes", "det_lin_mul", "coded_inplace_breaks_honesty", "coded_program_breaks_law"]]

FAMILY = extract_c03.ORDER
BASE = {"AlignmentAffine": "Affine", "AlignmentSimilarity": "Similarity", "AlignmentRotation": "Rotation",
        "AlignmentTranslation": "Translation", "AlignmentUniformScale": "UniformScale"}
OTHERS2 = ["TransformChain", "ThinPlateSplines", "PiecewiseAffine", "WithDims"]
OTHERS3 = ["TransformChain", "WithDims"]
MAG_CAP = 1e5


def F(x):
    return Fraction(x)


def fs(x):
    x = Fraction(x)
    return str(x.numerator) if x.denominator == 1 else "%d/%d" % (x.numerator, x.denominator)


def ff(s):
    return float(Fraction(s))


# ------------------------------------------------------------------------------------------------ recipes
# An atom recipe is a JSON-able dict {"k": kind, "d": dim, ...parameters as exact rational strings...};
# `build(recipe, objs)` constructs the real menpo object.  Chains refer to earlier store indices.

def dy(rng, kmax=16, mexp=2, nonzero=False):
    while True:
        k = rng.randint(-kmax, kmax)
        if nonzero and k == 0:
            continue
        return Fraction(k, 2 ** rng.randint(0, mexp))


def rot_matrix(rng, d):
    """exact rational rotation matrix (list of rows of Fractions)"""
    if d == 2:
        c, s = common.rat_circle(rng, 6)
        if s == 0:
            c, s = Fraction(3, 5), Fraction(4, 5)
        return [[c, -s], [s, c]]
    while True:
        a, b, c, e = [rng.randint(-3, 3) for _ in range(4)]
        n = a * a + b * b + c * c + e * e
        if n and (b or c or e) and a:
            break
    n = Fraction(n)
    return [[(a * a + b * b - c * c - e * e) / n, 2 * (b * c - a * e) / n, 2 * (b * e + a * c) / n],
            [2 * (b * c + a * e) / n, (a * a - b * b + c * c - e * e) / n, 2 * (c * e - a * b) / n],
            [2 * (b * e - a * c) / n, 2 * (c * e + a * b) / n, (a * a - b * b - c * c + e * e) / n]]


def lin_matrix(rng, d):
    """well conditioned exact linear map: unit lower * diagonal * unit upper with small dyadic entries"""
    lo = [[Fraction(int(i == j)) for j in range(d)] for i in range(d)]
    up = [[Fraction(int(i == j)) for j in range(d)] for i in range(d)]
    for i in range(d):
        for j in range(d):
            if i > j:
                lo[i][j] = Fraction(rng.randint(-2, 2), 2)
            if i < j:
                up[i][j] = Fraction(rng.randint(-2, 2), 2)
    dg = [rng.choice([Fraction(1, 2), Fraction(1), Fraction(3, 2), Fraction(2), Fraction(-1), Fraction(-3, 2)])
          for _ in range(d)]
    m = [[sum(lo[i][k] * dg[k] * up[k][j] for k in range(d)) for j in range(d)] for i in range(d)]
    return m


def det_exact(m):
    """exact determinant of a square matrix of Fractions (Gaussian elimination)"""
    a = [list(r) for r in m]
    n, det = len(a), Fraction(1)
    for c in range(n):
        p = next((r for r in range(c, n) if a[r][c] != 0), None)
        if p is None:
            return Fraction(0)
        if p != c:
            a[c], a[p] = a[p], a[c]
            det = -det
        det *= a[c][c]
        for r in range(c + 1, n):
            f = a[r][c] / a[c][c]
            for k in range(c, n):
                a[r][k] -= f * a[c][k]
    return det


def hmat(lin, t, bottom=None):
    d = len(lin)
    rows = [list(lin[i]) + [t[i]] for i in range(d)]
    rows.append(list(bottom) if bottom is not None else [Fraction(0)] * d + [Fraction(1)])
    return rows


def cloud(rng, d):
    """dyadic point set in general position (exactly representable)"""
    import numpy as np
    n = 5 if d == 2 else 6
    base2 = [[0, 0], [4, 0], [0, 4], [4, 5], [-3, 2]]
    base3 = [[0, 0, 0], [4, 0, 1], [0, 4, 2], [4, 5, -3], [-3, 2, 4], [1, -4, -2]]
    base = base2 if d == 2 else base3
    while True:
        pts = [[Fraction(base[i][j]) + Fraction(rng.randint(-3, 3), 4) for j in range(d)] for i in range(n)]
        a = np.array([[float(x) for x in p] for p in pts])
        if np.linalg.svd(a - a.mean(axis=0), compute_uv=False)[-1] > 1.0:
            return pts


def apply_exact(m, p):
    d = len(p)
    return [sum(m[i][j] * p[j] for j in range(d)) + m[i][d] for i in range(d)]


def gen_atom(rng, kind, d, n_existing=0, chainable=None):
    """recipe of a fresh atom of the given kind"""
    r = {"k": kind, "d": d}
    S = lambda rows: [[fs(x) for x in row] for row in rows]
    if kind == "Homogeneous":
        while True:
            bottom = [Fraction(rng.randint(-2, 2), 16) for _ in range(d)] + [Fraction(1)]
            if not any(bottom[:d]):
                bottom[0] = Fraction(1, 16)
            m = hmat(lin_matrix(rng, d), [dy(rng, 8, 1) for _ in range(d)], bottom)
            if abs(det_exact(m)) >= Fraction(1, 4):   # invertible, conditioning bounded on the input
                break
        r["M"] = S(m)
    elif kind == "Affine":
        r["M"] = S(hmat(lin_matrix(rng, d), [dy(rng, 8, 1) for _ in range(d)]))
    elif kind == "Similarity":
        R = rot_matrix(rng, d)
        s = rng.choice([Fraction(1, 2), Fraction(3, 2), Fraction(2), Fraction(-1, 2), Fraction(5, 4)])
        r["M"] = S(hmat([[s * x for x in row] for row in R], [dy(rng, 8, 1) for _ in range(d)]))
    elif kind == "Rotation":
        r["R"] = S(rot_matrix(rng, d))
    elif kind == "Translation":
        t = [dy(rng, 8, 1) for _ in range(d)]
        if not any(t):
            t[0] = Fraction(1)
        r["t"] = [fs(x) for x in t]
    elif kind == "UniformScale":
        r["s"] = fs(rng.choice([Fraction(1, 2), Fraction(3, 2), Fraction(2), Fraction(-2), Fraction(3, 4)]))
    elif kind == "NonUniformScale":
        vals = [Fraction(1, 2), Fraction(3, 2), Fraction(2), Fraction(-1), Fraction(3, 4), Fraction(5, 4)]
        rng.shuffle(vals)
        r["v"] = [fs(x) for x in vals[:d]]
    elif kind.startswith("Alignment"):
        src = cloud(rng, d)
        base = BASE[kind]
        if base == "Affine":
            m = hmat(lin_matrix(rng, d), [dy(rng, 8, 1) for _ in range(d)])
        elif base == "Similarity":
            R = rot_matrix(rng, d)
            s = rng.choice([Fraction(1, 2), Fraction(3, 2), Fraction(2)])
            m = hmat([[s * x for x in row] for row in R], [dy(rng, 8, 1) for _ in range(d)])
        elif base == "Rotation":
            m = hmat(rot_matrix(rng, d), [Fraction(0)] * d)
        elif base == "Translation":
            m = hmat([[Fraction(int(i == j)) for j in range(d)] for i in range(d)],
                     [dy(rng, 8, 1, nonzero=True) for _ in range(d)])
        else:
            s = rng.choice([Fraction(1, 2), Fraction(3, 2), Fraction(2)])
            m = hmat([[s * int(i == j) for j in range(d)] for i in range(d)], [Fraction(0)] * d)
        noise = rng.random() < 0.5
        tgt = [[x + (Fraction(rng.randint(-2, 2), 16) if noise else 0) for x in apply_exact(m, p)] for p in src]
        r["src"], r["tgt"] = S(src), S(tgt)
    elif kind == "TransformChain":
        pool = list(chainable if chainable is not None else range(n_existing))
        k = min(len(pool), rng.choice([1, 2, 2, 3]))
        r["members"] = [rng.choice(pool) for _ in range(k)] if pool else []
    elif kind in ("ThinPlateSplines", "PiecewiseAffine"):
        big = 256 if kind == "PiecewiseAffine" else 8
        src = [[-big, -big], [big, -big], [big, big], [-big, big], [0, 0], [big // 2, 1], [-1, -big // 2]]
        src = [[Fraction(x) for x in p] for p in src]
        tgt = [[x + Fraction(rng.randint(-4, 4), 4) for x in p] for p in src]
        r["src"], r["tgt"] = S(src), S(tgt)
    elif kind == "WithDims":
        perms = [[1, 0]] if d == 2 else [[1, 0, 2], [2, 0, 1], [0, 2, 1]]
        r["dims"] = rng.choice(perms)
    else:
        raise ValueError(kind)
    return r


def build(recipe, objs):
    """the real menpo object of a recipe"""
    import numpy as np
    import menpo.transform as mt
    from menpo.shape import PointCloud
    k = recipe["k"]
    A = lambda rows: np.array([[ff(x) for x in row] for row in rows])
    if k in ("Homogeneous", "Affine", "Similarity"):
        return getattr(mt, k)(A(recipe["M"]))
    if k == "Rotation":
        return mt.Rotation(A(recipe["R"]))
    if k == "Translation":
        return mt.Translation(np.array([ff(x) for x in recipe["t"]]))
    if k == "UniformScale":
        return mt.UniformScale(ff(recipe["s"]), recipe["d"])
    if k == "NonUniformScale":
        return mt.NonUniformScale(np.array([ff(x) for x in recipe["v"]]))
    if k.startswith("Alignment") or k in ("ThinPlateSplines", "PiecewiseAffine"):
        return getattr(mt, k)(PointCloud(A(recipe["src"])), PointCloud(A(recipe["tgt"])))
    if k == "TransformChain":
        return mt.TransformChain([objs[i] for i in recipe["members"]])
    if k == "WithDims":
        return mt.WithDims(list(recipe["dims"]))
    raise ValueError(k)


# ------------------------------------------------------------------------------------------------ the store

class World:
    """the real objects of one program, indexable like the model's store"""

    def __init__(self, d):
        self.d = d
        self.objs = []
        self.recipes = []
        self.mag = []     # upper bound on the norm / Lipschitz constant of each object (product of operand norms)
        self.magi = []    # the same for the inverse: bounds how far an object can have shrunk

    def add_atom(self, recipe):
        o = build(recipe, self.objs)
        self.recipes.append(recipe)
        return self.add(o, atom=True)

    def add(self, o, atom=False, mag=None, magi=None):
        self.objs.append(o)
        if mag is None:
            mag, magi = self.atom_mag(o)
        self.mag.append(mag)
        self.magi.append(magi)
        return len(self.objs) - 1

    def atom_mag(self, o):
        import numpy as np
        if is_family(o):
            try:
                inv = float(np.abs(np.linalg.inv(o.h_matrix)).sum(axis=1).max())
            except Exception:
                inv = float("inf")
            return max(1.0, float(np.abs(o.h_matrix).sum(axis=1).max())), max(1.0, inv)
        if is_chain(o):
            m, mi = 1.0, 1.0
            for t in o.transforms:
                i = self.index_of(t)
                m *= self.mag[i] if i is not None else 4.0
                mi *= self.magi[i] if i is not None else 4.0
            return m, mi
        return 4.0, 4.0

    def index_of(self, o):
        for i, x in enumerate(self.objs):
            if x is o:
                return i
        return None

    def cell(self, i):
        """cell description in the model's vocabulary: ('F', cls, matrix) | ('C', refs) | ('L', i)"""
        o = self.objs[i]
        if is_chain(o):
            return ("C", [self.index_of(t) for t in o.transforms])
        if is_family(o):
            return ("F", type(o).__name__, o.h_matrix.copy())
        return ("L", i)

    def wire_cell(self, i):
        c = self.cell(i)
        if c[0] == "F":
            return "F %s %s" % (c[1], " ".join(common.fq(x) for x in c[2].ravel()))
        if c[0] == "C":
            return "C %d %s" % (len(c[1]), " ".join(str(x) for x in c[1]))
        return "L %d" % c[1]


def is_family(o):
    from menpo.transform.homogeneous.base import Homogeneous
    return isinstance(o, Homogeneous)


def is_chain(o):
    from menpo.transform import TransformChain
    return isinstance(o, TransformChain)


def kind_of(o):
    return type(o).__name__


def reaches(o, target, depth=0):
    if o is target:
        return True
    if is_chain(o) and depth < 50:
        return any(reaches(t, target, depth + 1) for t in o.transforms)
    return False


# ------------------------------------------------------------------------------------------------ oracle parts

def dval(v, depth=0):
    import numpy as np
    if isinstance(v, np.ndarray):
        return ("nd", v.shape, v.dtype.str, v.tobytes())
    if hasattr(v, "points") and isinstance(getattr(v, "points"), np.ndarray):
        return ("pc", type(v).__name__, v.points.shape, v.points.tobytes())
    if isinstance(v, (list, tuple)) and depth < 3:
        return ("seq", tuple(dval(x, depth + 1) for x in v))
    if isinstance(v, (int, float, bool, str, type(None))):
        return ("imm", repr(v))
    return ("obj", type(v).__name__)


def digest(o):
    """state of one object: family = class + matrix (+ alignment source/target), chain = identities of the
    members in order (and of the list object), anything else = its attribute values"""
    if is_chain(o):
        return ("chain", tuple(id(t) for t in o.transforms))
    return (type(o).__name__, tuple((k, dval(v)) for k, v in sorted(o.__dict__.items())))


def probe_points(rng, d, n=7):
    import numpy as np
    return np.array([[float(dy(rng, 12, 2)) for _ in range(d)] for _ in range(n)])


def leaves(o, out=None, depth=0):
    out = [] if out is None else out
    if is_chain(o) and depth < 60:
        for t in o.transforms:
            leaves(t, out, depth + 1)
    else:
        out.append(o)
    return out


def is_projective(o):
    from menpo.transform import Affine
    return is_family(o) and not isinstance(o, Affine)


def seq_apply(first, second, X):
    """what the law prescribes: (`second.apply(first.apply(X'))`, X', smallest projective denominator) where X'
    are the rows of X at which every projective denominator along the way is >= 1e-3 (the denominators are
    found by walking the leaves); or (name of the exception type raised, None, None)"""
    import numpy as np
    try:
        Y = np.asarray(X, dtype=float)
        ok = np.ones(Y.shape[0], dtype=bool)
        wmin = 1.0
        ls = leaves(first) + leaves(second)
        if any(is_projective(t) for t in ls):
            for t in ls:
                if is_projective(t):
                    hy = np.hstack([Y, np.ones([Y.shape[0], 1])]).dot(t.h_matrix.T)
                    w = np.abs(hy[:, -1])
                    ok &= w >= 1e-3
                    if ok.any():
                        wmin = min(wmin, float(w[ok].min()))
                    Y = Y.copy()
                    Y[~ok] = 0.0
                Y = t.apply(Y)
        Xok = np.asarray(X, dtype=float)[ok]
        if Xok.shape[0] == 0:
            return None, Xok, wmin
        return second.apply(first.apply(Xok)), Xok, wmin
    except Exception as e:  # e.g. TriangleContainmentError of a piecewise affine member
        return type(e).__name__, None, None


def honest(name, M, err=0.0):
    """does the matrix really belong to the reported class?  (oracle transcription of the class meanings).
    `err` is an upper bound on the absolute rounding error the entries can carry (from the history of the
    object); "is zero" = below 1e-9 relative to the quantity it is compared with, plus that bound; "is non-zero"
    is tested exactly (degenerate scales are the business of the invertibility check)."""
    import numpy as np
    base = BASE.get(name, name)
    if base == "Homogeneous":
        return True
    d = M.shape[0] - 1
    L, t = M[:d, :d], M[:d, d]
    tol_m = 1e-9 * (1.0 + float(np.abs(M).max())) + err
    sl = float(np.abs(L).max())
    if not (np.abs(M[d, :d]).max() <= tol_m and abs(M[d, d] - 1) <= tol_m):
        return False
    if base == "Affine":
        return True
    G = L.T.dot(L)
    gerr = 4.0 * d * (sl + err) * err
    if base == "Similarity":
        lam = float(np.trace(G)) / d
        return lam > 0 and np.abs(G - lam * np.eye(d)).max() <= 1e-9 * lam + gerr
    if base == "Rotation":
        return np.abs(G - np.eye(d)).max() <= 1e-9 + gerr and np.abs(t).max() <= tol_m
    if base == "Translation":
        return np.abs(L - np.eye(d)).max() <= 1e-9 + err
    if base == "UniformScale":
        s = L[0, 0]
        return s != 0 and np.abs(L - s * np.eye(d)).max() <= 1e-9 * abs(s) + err and np.abs(t).max() <= tol_m
    if base == "NonUniformScale":
        dg = np.diag(L)
        return (np.abs(dg).min() > 0 and np.abs(L - np.diag(dg)).max() <= 1e-9 * float(np.abs(dg).max()) + err
                and np.abs(t).max() <= tol_m)
    return False


def close_arrays(a, b, mag, extra=1.0):
    import numpy as np
    a, b = np.asarray(a, dtype=float), np.asarray(b, dtype=float)
    if a.shape != b.shape:
        return False
    if a.size == 0:
        return True
    if not (np.isfinite(a).all() and np.isfinite(b).all()):
        return False
    scale = max(float(np.abs(a).max()), float(np.abs(b).max()))
    return float(np.abs(a - b).max()) <= (1e-9 * (1.0 + scale) + 1e-12 * mag) * extra


# ------------------------------------------------------------------------------------------------ statements

OPS = {"cb": ("compose_before", "before", False), "ca": ("compose_after", "after", False),
       "cbi": ("compose_before_inplace", "before", True), "cai": ("compose_after_inplace", "after", True)}


def script_of(d, recipes, stmts):
    """runnable python reproducing the calls"""
    lines = ["import sys; sys.path[:0] = ['/verif', %r]" % common.REPO,
             "from harness import c03",
             "w = c03.World(%d)" % d]
    for r in recipes:
        lines.append("w.add_atom(%s)" % json.dumps(r))
    lines.append("o = w.objs")
    for op, a, b in stmts:
        if OPS[op][2]:
            lines.append("o[%d].%s(o[%d])" % (a, OPS[op][0], b))
        else:
            lines.append("o.append(o[%d].%s(o[%d]))" % (a, OPS[op][0], b))
    return "\n".join(lines)


def exec_stmt(ctx, w, stmt, X, rp, site_prefix="C03"):
    """execute one statement on the real objects and evaluate the oracle; returns the model-vocabulary result
    ('r', ref) | ('i',) | ('e', kind)"""
    import numpy as np
    from menpo.transform.homogeneous.base import HomogFamilyAlignment
    op, ia, ib = stmt
    meth, direction, inplace = OPS[op]
    a, b = w.objs[ia], w.objs[ib]
    first, second = (a, b) if direction == "before" else (b, a)
    ka, kb = kind_of(a), kind_of(b)
    rp = dict(rp, failing_statement=[op, ia, ib], operand_kinds=[ka, kb])
    sig = "%s/%s(%s,%s)" % (site_prefix, op, ka, kb)
    mag = w.mag[ia] * w.mag[ib]
    magi = w.magi[ia] * w.magi[ib]
    # what the law prescribes, evaluated before the call on the unchanged operands
    exp, Xok, wmin = seq_apply(first, second, X)
    before = [digest(o) for o in w.objs]
    fam_pair = is_family(a) and is_family(b)
    honest_before = ((not is_family(a) or honest(ka, a.h_matrix, 1e-12 * w.mag[ia]))
                     and (not is_family(b) or honest(kb, b.h_matrix, 1e-12 * w.mag[ib])))
    try:
        res = getattr(a, meth)(b)
        err = None
    except ValueError:
        res, err = None, "rejected"
    except AttributeError:
        res, err = None, "noMethod"
    except Exception as e:
        res, err = None, "other:" + type(e).__name__
    after = [digest(o) for o in w.objs]
    changed = [i for i in range(len(before)) if before[i] != after[i]]

    # failures that involve an operand an earlier accepted in-place call already left dishonest get their own
    # pattern, so that they can be told apart from failures on honest operands
    sfx = "" if honest_before else "/operand-dishonest-after-inplace"

    def law(obj, site):
        if isinstance(exp, str):
            try:
                obj.apply(X)
                got = "ok"
            except Exception as e:
                got = type(e).__name__
            ctx.check(got == exp, site, "exception-differs",
                      "sequential application raises %s, the composite gives %s" % (exp, got), rp)
            return
        if exp is None:
            ctx.count("skipped:no-well-conditioned-probe")
            return
        try:
            got = np.asarray(obj.apply(Xok))
        except Exception as e:
            ctx.fail(site, "composite-raises", "applying the composite raised %s" % type(e).__name__, rp)
            return
        good = close_arrays(got, exp, mag * (1.0 + float(np.abs(X).max())), 1.0 / min(1.0, wmin) ** 2)
        if not good:
            j = int(np.argmax(np.abs(got - exp).max(axis=1))) if got.shape == exp.shape else 0
            ctx.fail(site, "map-differs" + sfx,
                     "%s: composite maps %s to %s, the law prescribes %s" % (
                         sig, Xok[j].tolist(), got[j].tolist(), exp[j].tolist()),
                     dict(rp, probe=Xok[j].tolist(), observed=got[j].tolist(), required=exp[j].tolist()))

    if not inplace:
        if err is not None:
            ctx.fail("C03/compose.raises", err, "%s raised (%s): a non-in-place composition must succeed" % (sig, err), rp)
            return ("e", err)
        ctx.check(not changed, "C03/compose.operands-intact", "object-changed",
                  "%s changed existing object(s) %r (operands are %d and %d)" % (sig, changed, ia, ib),
                  dict(rp, changed=changed))
        ctx.check(all(res is not o for o in w.objs), "C03/compose.operands-intact", "result-aliases-operand",
                  "%s returned one of the existing objects" % sig, rp)
        if is_chain(res):
            ctx.check(res.transforms is not getattr(a, "transforms", None)
                      and res.transforms is not getattr(b, "transforms", None),
                      "C03/compose.operands-intact", "chain-shares-list", "%s: the result shares its member list "
                      "with an operand" % sig, rp)
        law(res, "C03/compose.law")
        if fam_pair:
            single = is_family(res) and not is_chain(res)
            ctx.check(single, "C03/compose.closed", "not-a-family-member",
                      "%s returned a %s, not a single homogeneous-family transform" % (sig, kind_of(res)), rp)
            if single:
                ctx.check(not isinstance(res, HomogFamilyAlignment), "C03/compose.closed", "alignment-result",
                          "%s returned an alignment (%s)" % (sig, kind_of(res)), rp)
                if honest_before:
                    ctx.check(honest(kind_of(res), res.h_matrix, 1e-12 * mag), "C03/compose.honest", "class=" + kind_of(res),
                              "%s reports %s but its matrix is not one: %s" % (sig, kind_of(res), res.h_matrix.tolist()),
                              dict(rp, result_class=kind_of(res), result_matrix=res.h_matrix.tolist()))
                else:
                    ctx.count("honesty-skipped:operand-already-dishonest")
                da, db, dr = (float(np.linalg.det(m.h_matrix)) for m in (a, b, res))
                ctx.check(dr != 0.0 and abs(dr - da * db) <= 1e-3 * abs(da * db),
                          "C03/compose.invertible", "determinant" + sfx, "%s: det of the result is %r, operands %r, %r"
                          % (sig, dr, da, db), rp)
        idx = w.add(res, mag=mag, magi=magi)
        return ("r", idx)
    # in-place
    if err == "rejected" or err == "noMethod":
        ctx.check(not changed, "C03/inplace.refused-but-changed", "object-changed",
                  "%s was refused (%s) but changed object(s) %r" % (sig, err, changed), dict(rp, changed=changed))
        return ("e", err)
    if err is not None:
        ctx.fail("C03/inplace.raises", err, "%s raised %s" % (sig, err), rp)
        return ("e", err)
    ctx.check(res is None or res is a, "C03/inplace.returns", "returns-object", "%s returned %r" % (sig, type(res)), rp)
    other = [i for i in changed if i != ia]
    ctx.check(not other, "C03/inplace.operand-intact", "object-changed",
              "%s changed object(s) %r besides the receiver %d" % (sig, other, ia), dict(rp, changed=other))
    ctx.check(kind_of(w.objs[ia]) == ka, "C03/inplace.class", "class-changed", "%s changed the receiver's class" % sig, rp)
    law(a, "C03/inplace.law")
    if fam_pair and honest_before:
        ctx.check(honest(ka, a.h_matrix, 1e-12 * mag), "C03/inplace.honest", "receiver=%s" % BASE.get(ka, ka),
                  "%s was accepted and leaves a %s whose matrix is not one: %s" % (sig, ka, a.h_matrix.tolist()),
                  dict(rp, receiver_class=ka, receiver_matrix=a.h_matrix.tolist()))
    w.mag[ia], w.magi[ia] = mag, magi
    return ("i",)


# ------------------------------------------------------------------------------------------------ model side

def parse_cell(tokens, d):
    """tokens of one model cell -> ('F', cls, [[Fraction]]) | ('C', refs) | ('L', k)"""
    if tokens[0] == "F":
        n = d + 1
        vals = [Fraction(x) for x in tokens[2:2 + n * n]]
        return ("F", tokens[1], [vals[i * n:(i + 1) * n] for i in range(n)])
    if tokens[0] == "C":
        k = int(tokens[1])
        return ("C", [int(x) for x in tokens[2:2 + k]])
    return ("L", int(tokens[1]))


def cells_agree(impl, model, mag):
    import numpy as np
    if impl[0] != model[0]:
        return False
    if impl[0] == "F":
        if impl[1] != model[1]:
            return False
        m = np.array([[float(x) for x in row] for row in model[2]])
        return close_arrays(impl[2], m, mag)
    if impl[0] == "C":
        return list(impl[1]) == list(model[1])
    return True


def fmt_cell(c):
    if c[0] == "F":
        return "F %s %s" % (c[1], [[float(x) for x in row] for row in (c[2].tolist() if hasattr(c[2], "tolist") else c[2])])
    return "%s %s" % (c[0], c[1])


def model_line(cid, d, table_wire, init_cells, stmts):
    return "%s prog %d %s S %d %s P %d %s" % (cid, d, table_wire, len(init_cells), " ".join(init_cells),
                                               len(stmts), " ".join("%s %d %d" % s for s in stmts))


def compare_program(ctx, d, reply, impl_results, impl_final, mags, rp, first_only=True):
    """diff one driver reply against the implementation's observations"""
    if not reply.startswith("ok"):
        ctx.mismatch("prog", "driver could not run the program: %s" % reply[:120], rp)
        return False
    head, _, tail = reply.partition(" # ")
    res = [x.strip() for x in head.split(" | ")[1:]]
    if len(res) != len(impl_results):
        ctx.mismatch("prog", "model executed %d statements, implementation %d" % (len(res), len(impl_results)), rp)
        return False
    good = True
    for k, (mr, ir) in enumerate(zip(res, impl_results)):
        tk = mr.split()
        if tk[0] == "e":
            same = ir[0] == "e" and ir[1] == tk[1]
        elif tk[0] == "r":
            same = ir[0] == "r" and ir[1] == int(tk[1])
        else:
            same = ir[0] == "i"
        if not same:
            ctx.mismatch("prog.statement", "statement %d: model %r vs implementation %r" % (k, " ".join(tk[:3]), ir),
                         dict(rp, failing_statement=k))
            good = False
            if first_only:
                return False
    mcells = [c.strip().split() for c in tail.split(" ; ")] if tail.strip() else []
    if len(mcells) != len(impl_final):
        ctx.mismatch("prog.store", "model store has %d cells, implementation %d" % (len(mcells), len(impl_final)), rp)
        return False
    for i, (mc, ic) in enumerate(zip(mcells, impl_final)):
        pm = parse_cell(mc, d)
        if not cells_agree(ic, pm, mags[i]):
            ctx.mismatch("prog.store", "object %d: model %s vs implementation %s" % (i, fmt_cell(pm)[:300], fmt_cell(ic)[:300]),
                         dict(rp, object=i))
            good = False
            if first_only:
                return False
    return good


# ------------------------------------------------------------------------------------------------ programs

def kinds_for(d):
    return FAMILY + (OTHERS2 if d == 2 else OTHERS3)


def run_program(ctx, d, recipes, stmts, cid, table_wire, pending, what):
    """build the atoms, run the statements on the real objects with the oracle, queue the model line"""
    w = World(d)
    for r in recipes:
        w.add_atom(r)
    for i, o in enumerate(w.objs):
        if is_family(o) and not honest(kind_of(o), o.h_matrix):
            ctx.count("generator:dishonest-atom-skipped")
            return None
    init_cells = [w.wire_cell(i) for i in range(len(w.objs))]
    X = probe_points(ctx.rng, d)
    rp = {"d": d, "atoms": recipes, "statements": [list(s) for s in stmts], "what": what,
          "python": script_of(d, recipes, stmts)}
    results = []
    for k, s in enumerate(stmts):
        results.append(exec_stmt(ctx, w, s, X, dict(rp, minimal_statements=[list(x) for x in stmts[:k + 1]])))
    final = [w.cell(i) for i in range(len(w.objs))]
    pending.append((cid, d, model_line(cid, d, table_wire, init_cells, stmts), results, final, list(w.mag), rp))
    return w


def allowed_stmt(w, op, ia, ib):
    """generator side conditions (documented in INFO): magnitude cap; no chain that would contain itself"""
    a, b = w.objs[ia], w.objs[ib]
    if w.mag[ia] * w.mag[ib] > MAG_CAP or w.magi[ia] * w.magi[ib] > MAG_CAP:
        return False
    if OPS[op][2]:
        if is_chain(a) and reaches(b, a):
            return False
        if is_family(a) and is_family(b) and ia == ib:
            return True
    return True


def gen_program(ctx, d, n_atoms, n_stmts, inplace_bias=0.4):
    """random store + statements (statements are chosen while executing a scratch copy, so that the side
    conditions can look at the objects)"""
    rng = ctx.rng
    kinds = kinds_for(d)
    recipes = []
    for i in range(n_atoms):
        k = rng.choice(kinds if (i > 0) else FAMILY)
        if k == "TransformChain" and i == 0:
            k = "Affine"
        recipes.append(gen_atom(rng, k, d, n_existing=i))
    # scratch world to choose admissible statements
    w = World(d)
    for r in recipes:
        w.add_atom(r)
    stmts = []
    import warnings
    tries = 0
    while len(stmts) < n_stmts and tries < 60:
        tries += 1
        op = rng.choice(["cbi", "cai"]) if rng.random() < inplace_bias else rng.choice(["cb", "ca"])
        ia, ib = rng.randrange(len(w.objs)), rng.randrange(len(w.objs))
        a = w.objs[ia]
        if OPS[op][2] and not (is_family(a) or is_chain(a)) and rng.random() < 0.8:
            continue
        if not allowed_stmt(w, op, ia, ib):
            continue
        stmts.append((op, ia, ib))
        try:
            with warnings.catch_warnings():
                warnings.simplefilter("ignore")
                res = getattr(a, OPS[op][0])(w.objs[ib])
            if not OPS[op][2]:
                w.add(res, mag=w.mag[ia] * w.mag[ib], magi=w.magi[ia] * w.magi[ib])
            else:
                w.mag[ia], w.magi[ia] = w.mag[ia] * w.mag[ib], w.magi[ia] * w.magi[ib]
        except Exception:
            pass
    return recipes, stmts


def pair_battery(ctx, d, table_wire, pending, tag):
    """all ordered pairs of kinds, both directions, non-in-place and in-place, fresh atoms per statement"""
    rng = ctx.rng
    kinds = kinds_for(d)
    n = 0
    for ka in kinds:
        for kb in kinds:
            for op in ("cb", "ca", "cbi", "cai"):
                if OPS[op][2] and ka not in FAMILY and ka != "TransformChain":
                    if rng.random() < 0.75:   # a plain Transform has no in-place method: sample a few
                        continue
                recipes = []
                for k in (ka, kb):
                    if k == "TransformChain":
                        recipes.append(gen_atom(rng, rng.choice(FAMILY[:7]), d))
                        recipes.append(gen_atom(rng, "TransformChain", d, chainable=[len(recipes) - 1]))
                    else:
                        recipes.append(gen_atom(rng, k, d))
                ia = 1 if ka == "TransformChain" else 0
                ib = len(recipes) - 1
                cid = "%s%d_%d" % (tag, d, n)
                n += 1
                run_program(ctx, d, recipes, [(op, ia, ib)], cid, table_wire, pending, "pair battery")
                ctx.count("pair:%s" % op)
                ctx.count("dim:%d" % d)
                ctx.case(("pair", d, op, ka, kb, json.dumps(recipes, sort_keys=True)), nontrivial=True,
                         sample={"d": d, "call": "%s.%s(%s)" % (ka, OPS[op][0], kb)})


def sequel_battery(ctx, d, table_wire, pending, tag):
    """every family receiver after an in-place call with every family operand (accepted or refused), then
    composed non-in-place in all four positions with a third object of the receiver's own class (the ladder's
    `as_non_alignment()` / `copy()` branch) and with a random family member"""
    rng = ctx.rng
    n = 0
    for ka in FAMILY:
        for kb in FAMILY:
            op = rng.choice(["cbi", "cai"])
            kc = rng.choice(FAMILY)
            recipes = [gen_atom(rng, ka, d), gen_atom(rng, kb, d), gen_atom(rng, ka, d), gen_atom(rng, kc, d)]
            stmts = [(op, 0, 1), ("cb", 0, 2), ("ca", 0, 2), ("cb", 2, 0), ("ca", 3, 0), ("cb", 0, 3)]
            cid = "%s%d_%d" % (tag, d, n)
            n += 1
            w = run_program(ctx, d, recipes, stmts, cid, table_wire, pending, "in-place call, then non-in-place calls")
            if w is None:
                continue
            for st in stmts:
                ctx.count("sequel:%s" % st[0])
                ctx.count("dim:%d" % d)
                ctx.case(("sequel", d, st, ka, kb, kc, json.dumps(recipes, sort_keys=True)), nontrivial=True)


def random_programs(ctx, n, wires, pending, tag, long=False, inplace_bias=0.4):
    rng = ctx.rng
    for k in range(n):
        d = 2 if rng.random() < 0.6 else 3
        n_atoms = rng.randint(3, 7)
        n_stmts = rng.randint(2, 16 if long else 8)
        recipes, stmts = gen_program(ctx, d, n_atoms, n_stmts, inplace_bias)
        if not stmts:
            continue
        cid = "%s%d" % (tag, k)
        w = run_program(ctx, d, recipes, stmts, cid, wires[d], pending, "random program")
        if w is None:
            continue
        for (op, ia, ib) in stmts:
            ctx.count("prog:%s" % op)
            ctx.count("dim:%d" % d)
            ctx.case(("prog", d, op, kind_of(w.objs[ia]), kind_of(w.objs[ib]), cid, json.dumps(recipes, sort_keys=True)),
                     nontrivial=True,
                     sample={"d": d, "statements": len(stmts), "first": "%s %d %d" % stmts[0]})
        ctx.count("programs")


# ------------------------------------------------------------------------------------------------ apply / decompose

def apply_cases(ctx, n, wires, lines, expect):
    """`applyHT` of the model (method resolution between Affine._apply and Homogeneous._apply) vs the real apply"""
    import numpy as np
    rng = ctx.rng
    for k in range(n):
        d = rng.choice([2, 3])
        kind = rng.choice(FAMILY)
        r = gen_atom(rng, kind, d)
        o = build(r, [])
        x = np.array([[float(dy(rng, 12, 2)) for _ in range(d)]])
        if is_projective(o):
            w = np.hstack([x, [[1.0]]]).dot(o.h_matrix.T)[0, -1]
            if abs(w) < 1e-2:
                continue
        y = o.apply(x)[0]
        cid = "ap%d" % k
        lines.append("%s apply %d %s %s %s %s" % (cid, d, wires[d], kind,
                                                 " ".join(common.fq(v) for v in o.h_matrix.ravel()),
                                                 " ".join(common.fq(v) for v in x[0])))
        expect[cid] = (y, float(np.abs(o.h_matrix).sum()), {"d": d, "atom": r, "x": x[0].tolist(), "apply": y.tolist()})
        ctx.case(("apply", d, kind, json.dumps(r, sort_keys=True)), nontrivial=True)
        ctx.count("apply:" + kind)


def decompose_cases(ctx, n, lines, expect):
    """Affine.decompose(): oracle (chain of the pieces = the affine; fold of compose_before = the matrix) and the
    model of the decomposition structure under numpy's SVD factors"""
    import numpy as np
    from functools import reduce
    from menpo.transform import TransformChain
    rng = ctx.rng
    done = 0
    for k in range(n * 3):
        if done >= n:
            break
        d = rng.choice([2, 3])
        kind = rng.choice(["Affine", "Affine", "Similarity", "AlignmentAffine", "AlignmentSimilarity", "Rotation",
                           "Translation", "UniformScale", "NonUniformScale", "AlignmentRotation",
                           "AlignmentTranslation", "AlignmentUniformScale"])
        r = gen_atom(rng, kind, d)
        o = build(r, [])
        site = "C03/decompose"
        rp = {"d": d, "atom": r, "python": "import sys; sys.path[:0]=['/verif', %r]\nfrom harness import c03\n"
              "t = c03.build(%s, [])\npieces = t.decompose()" % (common.REPO, json.dumps(r))}
        discrete = BASE.get(kind, kind) in ("Rotation", "Translation", "UniformScale", "NonUniformScale")
        if not discrete:
            U, S, V = np.linalg.svd(o.linear_component)
            diffs = np.abs(S - S[0])
            uniform_clear = bool((diffs <= 1e-9 * abs(S[0])).all())
            nonuniform_clear = bool((diffs >= 1e-3 * abs(S[0])).any())
            if not (uniform_clear or nonuniform_clear) or S.min() < 1e-3:
                ctx.count("decompose:tie-skipped")
                continue
        before = digest(o)
        h0 = o.h_matrix.copy()
        try:
            pieces = o.decompose()
        except Exception as e:
            ctx.fail(site, "raises", "decompose of %s raised %s" % (kind, type(e).__name__), rp)
            continue
        done += 1
        X = probe_points(rng, d)
        mag = max(1.0, float(np.abs(h0).sum())) ** 2
        want = o.apply(X)
        got = TransformChain(list(pieces)).apply(X)
        ctx.check(close_arrays(got, want, mag), site, "chain-differs",
                  "the chain of decompose() of a %s does not map like the transform" % kind, rp)
        folded = reduce(lambda x, y: x.compose_before(y), pieces)
        ctx.check(is_family(folded) and close_arrays(folded.h_matrix, h0, mag), site, "fold-differs",
                  "composing the pieces of decompose() of a %s gives %s" % (
                      kind, folded.h_matrix.tolist() if is_family(folded) else kind_of(folded)), rp)
        ctx.check(digest(o) == before, site, "receiver-changed", "decompose() changed the %s" % kind, rp)
        ctx.check(all(p is not o for p in pieces), site, "aliases-receiver", "decompose() returned the object itself", rp)
        ctx.case(("decompose", d, kind, json.dumps(r, sort_keys=True)), nontrivial=True,
                 sample={"d": d, "decompose": kind, "pieces": [kind_of(p) for p in pieces]})
        ctx.count("decompose:" + kind)
        if discrete:
            continue
        # contract of the external routine, checked numerically
        ctx.check(close_arrays(U.dot(np.diag(S)).dot(V), o.linear_component, mag), "C03/contract.svd", "usv",
                  "numpy's svd factors do not multiply back to the linear component", rp)
        cid = "dc%d" % k
        lines.append("%s decomp %d %d %s %s %s %s" % (
            cid, d, 1 if uniform_clear else 0, " ".join(common.fq(v) for v in U.ravel()),
            " ".join(common.fq(v) for v in V.ravel()), " ".join(common.fq(v) for v in S),
            " ".join(common.fq(v) for v in o.translation_component)))
        expect[cid] = ([(kind_of(p), p.h_matrix.copy()) for p in pieces], h0, mag, rp)


def check_aux_replies(ctx, model, apply_expect, decomp_expect):
    import numpy as np
    for cid, (y, mag, rp) in apply_expect.items():
        rep = model[cid].split()
        if rep[0] != "ok":
            ctx.mismatch("apply", "model: %s, implementation %r" % (" ".join(rep), y.tolist()), rp)
            continue
        my = np.array([float(Fraction(t)) for t in rep[1:]])
        if not close_arrays(my, y, mag * 16.0, 100.0):
            ctx.mismatch("apply", "model %r vs implementation %r" % (my.tolist(), y.tolist()), rp)
    for cid, (pieces, h0, mag, rp) in decomp_expect.items():
        rep = model[cid]
        if not rep.startswith("ok"):
            ctx.mismatch("decomp", "model: %s" % rep[:80], rp)
            continue
        d = h0.shape[0] - 1
        head, _, prod = rep[3:].partition(" # ")
        cells = [parse_cell(c.strip().split(), d) for c in head.split(" ; ")]
        same = len(cells) == len(pieces) and all(
            cells_agree(("F", nm, m), c, mag) for (nm, m), c in zip(pieces, cells))
        if not same:
            ctx.mismatch("decomp", "model pieces %s vs implementation %s" % (
                [c[1] for c in cells], [nm for nm, _ in pieces]), rp)
            continue
        pm = np.array([float(Fraction(t)) for t in prod.split()]).reshape(h0.shape)
        if not close_arrays(pm, h0, mag):
            ctx.mismatch("decomp", "model product of the pieces differs from the matrix", rp)


def withdims_battery(ctx, n):
    """dimension-changing slicing (3-D to 2-D): oracle on the real code only (see INFO['partial'])"""
    import numpy as np
    from menpo.transform import WithDims
    rng = ctx.rng
    for k in range(n):
        r3 = gen_atom(rng, rng.choice(FAMILY), 3)
        r2 = gen_atom(rng, rng.choice(FAMILY + ["ThinPlateSplines"]), 2)
        dims = rng.choice([[0, 1], [0, 2], [2, 1]])
        t3, t2, wd = build(r3, []), build(r2, []), WithDims(dims)
        X = probe_points(rng, 3)
        rp = {"atoms": [r3, {"k": "WithDims", "dims": dims}, r2],
              "python": "import sys; sys.path[:0]=['/verif', %r]\nfrom harness import c03\nfrom menpo.transform import WithDims\n"
              "a = c03.build(%s, []); w = WithDims(%r); b = c03.build(%s, [])\nc = a.compose_before(w).compose_before(b)"
              % (common.REPO, json.dumps(r3), dims, json.dumps(r2))}
        objs = [t3, wd, t2]
        before = [digest(o) for o in objs]
        try:
            c1 = t3.compose_before(wd)
            c2 = c1.compose_before(t2)
            c3 = t2.compose_after(c1)
            want = t2.apply(wd.apply(t3.apply(X)))
            ok = all(close_arrays(c.apply(X), want, 1e3) for c in (c2, c3))
        except Exception as e:
            ctx.fail("C03/compose.raises", "withdims", "composition through WithDims raised %s" % type(e).__name__, rp)
            continue
        if is_projective(t3) or is_projective(t2):
            ctx.count("withdims:projective-not-compared")
        else:
            ctx.check(ok, "C03/compose.law", "map-differs", "3-D transform, WithDims%r, 2-D transform: chain differs "
                      "from sequential application" % (dims,), rp)
        ctx.check([digest(o) for o in objs] == before, "C03/compose.operands-intact", "object-changed",
                  "composition through WithDims changed an operand", rp)
        ctx.case(("withdims", json.dumps(rp["atoms"], sort_keys=True)), nontrivial=True)
        ctx.count("withdims")


# ------------------------------------------------------------------------------------------------ entry points

def generated(ctx):
    files, rows2, rows3 = extract_c03.generated_files()
    ctx.notes["class_table_rows"] = len(rows2)
    common.build_generated(ctx, files, extract_c03.GEN_TARGETS, extract_c03.N_OBLIGATIONS)
    ctx._c03_rows = (rows2, rows3)


def flush(ctx, pending, extra_lines=()):
    """one driver run for everything queued"""
    lines = [p[2] for p in pending] + list(extra_lines)
    if not lines:
        return {}
    model = common.run_driver(PROP, lines)
    for cid, d, _line, results, final, mags, rp in pending:
        compare_program(ctx, d, model[cid], results, final, mags, rp)
    return model


def search(ctx):
    """directed search after a broken tie (oracle on the real code only): the pair battery again with fresh
    parameters, then programs biased towards in-place calls followed by non-in-place calls on the same objects"""
    rows2, rows3 = getattr(ctx, "_c03_rows", (extract_c03.extract(2), extract_c03.extract(3)))
    sink = []
    for d, rows in ((2, rows2), (3, rows3)):
        pair_battery(ctx, d, extract_c03.wire(rows), sink, "s")
        sequel_battery(ctx, d, extract_c03.wire(rows), sink, "t")
        ctx.searched += len(sink)
        if ctx.failures:
            return True
    for k in range(60):
        random_programs(ctx, 25, {2: extract_c03.wire(rows2), 3: extract_c03.wire(rows3)}, sink, "sp%d_" % k, long=True,
                        inplace_bias=0.55)
        ctx.searched += 25
        if ctx.failures:
            return True
    return False


def run(ctx):
    import warnings
    warnings.filterwarnings("ignore")
    common.prepare_lean(ctx, PROP, IMPORTS, THEOREMS, generated=generated)
    ctx.trusted += ["harness/extract_c03.py (class-table extraction from live classes)",
                    "numpy dot / svd (contract L = U diag(s) V checked numerically per decomposition case)"]
    rows2, rows3 = ctx._c03_rows
    w2, w3 = extract_c03.wire(rows2), extract_c03.wire(rows3)
    pending = []
    for rep in range(ctx.n(1, 6)):
        pair_battery(ctx, 2, w2, pending, "p%d_" % rep)
        pair_battery(ctx, 3, w3, pending, "p%d_" % rep)
        sequel_battery(ctx, 2, w2, pending, "s%d_" % rep)
        sequel_battery(ctx, 3, w3, pending, "s%d_" % rep)
    random_programs(ctx, ctx.n(150, 4000), {2: w2, 3: w3}, pending, "g", long=not ctx.quick())
    lines, ap_expect, dc_expect = [], {}, {}
    apply_cases(ctx, ctx.n(80, 1500), {2: w2, 3: w3}, lines, ap_expect)
    decompose_cases(ctx, ctx.n(60, 1200), lines, dc_expect)
    withdims_battery(ctx, ctx.n(40, 600))
    model = flush(ctx, pending, lines)
    check_aux_replies(ctx, model, ap_expect, dc_expect)
    return ctx.finish(search)


def replay(ctx, path):
    import warnings
    warnings.filterwarnings("ignore")
    data = json.load(open(path))
    rp = data.get("replay") or data.get("case")
    if rp is None:
        bc = data.get("broken_correspondence") or []
        rp = bc[0]["case"] if bc else None
    if not rp or "atoms" not in rp:
        print("replay file carries no program (broken obligation only?): re-running the generated obligation")
        generated(ctx)
        print("broken obligations:", json.dumps(ctx.broken_obligations)[:2000])
        return ctx.finish(None)
    rows = extract_c03.extract(rp.get("d", 2))
    pending = []
    if "statements" in rp:
        d = rp["d"]
        stmts = [tuple(s) for s in rp["statements"]]
        w = run_program(ctx, d, rp["atoms"], stmts, "r0", extract_c03.wire(rows), pending, "replay")
        for s in stmts:
            ctx.case(("replay",) + s)
        model = flush(ctx, pending)
        print("python:\n" + script_of(d, rp["atoms"], stmts))
        print("model         :", model.get("r0", "")[:1500])
        if w is not None:
            print("implementation:", " ; ".join(fmt_cell(w.cell(i)) for i in range(len(w.objs)))[:1500])
    else:
        print("replay of a non-program case: atoms", json.dumps(rp.get("atoms"))[:500])
        print(rp.get("python", ""))
        ctx.case(("replay", "aux"))
        ctx.case(("replay", "aux2"))
    return ctx.finish(None)
