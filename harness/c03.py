"""C03 — composition obeys its law, is closed and type-sound, leaves operands intact (DESIGN.md section 6, C03).

Three parties per generated program of compose calls:
  * the real menpo objects (all 12 homogeneous-family classes incl. alignment variants, TransformChain,
    ThinPlateSplines, PiecewiseAffine, WithDims; 2-D and 3-D) driven through the public
    compose_before / compose_after / compose_*_inplace API;
  * the property oracle (independent of the Lean model): the law on probe points, "single family member, never
    a chain, never an alignment", class honesty as a predicate on the result matrix, invertibility, and a
    digest of every pre-existing object before/after each call;
  * the Lean model (Core/C03Compose.lean): the same store and statements as exact rationals; compared are the
    kind / dimension / class / matrix / chain member references of every result and of the whole final store, the
    image of a probe point under chains (through WithDims, dimension-changing included), the matrix from_vector
    builds, and whether a chain still denotes a map after it was appended to itself.
The class table and the method-resolution table are regenerated from the live classes on every run
(harness/extract_c03.py) and must equal the tables the theorems are about (GenProps/C03.lean).
"""
import json
import os
from fractions import Fraction

from . import common
from . import extract_c03

PROP = "C03"
INFO = dict(
    technique="Lean 4 proof over an executable model of the composition machinery (exact rational matrices of any "
              "dimension side by side in one reference store, the isinstance ladder transcribed branch for branch, "
              "chains as reference lists, WithDims as a dimension-changing slicer in every numpy spelling, from_vector "
              "of every family class) + the SOURCE TEXT of the composition machinery translated into Lean on every run "
              "(harness/py2lean.py + harness/trans_c03.py: the ladder, the public entry points compose_before/after/"
              "_inplace of Transform and ComposableTransform, the naive copy-then-inplace composition, "
              "TransformChain._compose_*_inplace, Homogeneous._compose_*_inplace through the three _set_h_matrix, the "
              "five as_non_alignment, from_vector / compose_after_from_vector_inplace, TransformChain._apply, Affine.decompose, "
              "DiscreteAffine.decompose and the Scale factory) and proved equal to the model functions the theorems "
              "are about, method dispatch going through the regenerated method-resolution table "
              "+ round 3, with harness/py2lean2.py: the NUMPY-LEVEL BODIES of the family translated from source on every run "
              "(Generated/C03Src.lean, 42 definitions): the properties n_dims / linear_component / translation_component / "
              "rotation_matrix / scale, _set_h_matrix of Homogeneous / Affine / AlignmentAffine with their checks (copy and "
              "skip_checks as variables), set_rotation_matrix of Rotation / AlignmentRotation, __init__ of Homogeneous, "
              "Affine, Similarity, Rotation, Translation, UniformScale, NonUniformScale, the seven init_identity, "
              "_from_vector_inplace of the ten classes that define one (quaternion formula included), as_non_alignment "
              "once more through the translated constructors and properties; proved equal, for all arguments, to fromVec, "
              "ctorMat, ctorRotation, ctorTranslation, ctorUniformScale, ctorNonUniformScale, identityOf, anaCtor "
              "(GenProps/C03Src.lean); the vocabulary is a small exact model of the numpy words the bodies use "
              "(Core/C03Src.lean: arrays with a run-time shape, negative indices, slice assignment with broadcasting, "
              "fill_diagonal cycling, reshape in C and Fortran order, np.allclose evaluated exactly in Q) "
              "+ class table, two method tables and gate table regenerated from the live classes with `decide` obligations "
              "+ model/implementation correspondence on all class pairs, cross-dimension pairs, nested and "
              "self-containing chains, aliased operands, unusual dtypes / memory layouts and random programs",
    level_text="Theorems over the model, the algebra for every dimension and all parameter values (as CODED the cross-class "
               "branches of the ladder call checked constructors that exist in 2-D / 3-D only: `ladder_ctor_justified`, "
               "`ladder_ctor_refuses_other_dims`): composition law for compose_before/after "
               "(every pair of the 12 family classes; projective Homogeneous wherever denominators are non-zero; "
               "chains, WithDims - dimension-changing included - and opaque transforms by structural denotation), "
               "result is a single non-alignment family member whose class invariant really holds and which is "
               "invertible, operands of different dimension are refused without effect, in-place calls are gated "
               "exactly by composes_inplace_with and produce the same map, compose_after_from_vector_inplace is "
               "always admitted and obeys the law with from_vector(v) modelled for vectors of every length (numpy's "
               "broadcasting and cycling included) and proved honest for every class (quaternion formula included), "
               "in-place composition on a chain obeys the law exactly when the operand does not "
               "contain the receiver and otherwise leaves a chain without denotation, chains are not flattened, "
               "in the model a non-in-place call only appends a cell (`compose_frame`, `prog_frame`: true by construction of "
               "`step`, for every class table - a statement about the model's shape, not about menpo; that menpo's "
               "non-in-place calls leave their operands as they were is decided on every case by the oracle's digest of "
               "the state the property names: class, h_matrix bytes, alignment source / target points, chain member "
               "identities), every object keeps kind, dimension and "
               "class and every non-receiver stays the same cell along every finite program (induction over "
               "programs), a dimension calculus is sound for apply and total on affine chains, Affine.decompose "
               "recomposes and returns honest pieces under the SVD contract (with the determinant bookkeeping that "
               "says when a piece is a reflection), and the pieces folded back with compose_before are one honest "
               "object holding the matrix whose class is the join of the piece classes.  Class algebra: the reported "
               "class is the least upper bound of the operand classes (commutative, associative, idempotent up to "
               "alignment stripping; all 12^3 triples), so the class of the value of any nested expression of "
               "compose calls over all sixteen kinds of operand is the join of the operand classes and a chain "
               "exactly when a non-family operand occurs (induction over expression trees).  WithDims with negative "
               "indices, integer arrays, a single integer and slices is an index list (slices never raise, step 0 "
               "always does).  The class structure, the method resolution and the gates the theorems quantify over "
               "are tied to /repo by the regenerated tables (`classTable_ok`, `methodTable_ok`, `otherGates_ok`), the "
               "function bodies by the translation obligations (`genLadder_eq`, `entryCompose_eq`, `entryInplace_eq`, "
               "`entryFromVector_eq`, `genHomogInplace_eq`, `genChainInplace_eq`, `sup_fam_ana`, `genScale_eq`, "
               "`entryDecompose_eq`; round 3: `fromVec_src`, `famFromVec_src`, `ctorMat_src`, `ctorRotation_src`, "
               "`ctorTranslation_src`, `ctorUniformScale_src`, `ctorNonUniformScale_src`, `identityOf_src`, `anaCtor_src`, "
               "the five property obligations, `methodTable2_ok`, `ctorDefaults_ok`), the behaviour by the correspondence, "
               "and an independent oracle decides the property on the real objects.  Round 3 theorems: exactly which "
               "arguments each constructor refuses and what an accepted object holds (`ctor_refusals`), what the "
               "constructors guarantee and what they do not look at (`ctor_honest_discrete`, `ctor_unchecked_witness`, "
               "`ctor_tolerance_witness`: honesty of atoms is a hypothesis, not a gift of the constructors), every "
               "init_identity is the identity of its base class and neutral for composition on both sides "
               "(`identity_neutral`), the checked constructor calls inside the ladder and inside as_non_alignment are the "
               "plain words of the ladder model in 2-D / 3-D and raise in other dimensions (`ladder_ctor_justified`, "
               "`ladder_ctor_refuses_other_dims`, `ana_ctor_justified`); integer-typed and single-precision h_matrix "
               "operands: np.dot under numpy's promotion stores the exact product and never narrows the receiver's dtype "
               "(`promote_semilattice`, `dot_exact`, `inplace_dtype_law`), casting the product back to the receiver's "
               "dtype breaks the law (`cast_to_receiver_breaks_law`), and the dtype calculus the driver runs next to every "
               "program is sound along every program (`stepT_sound`, `prog_dtype_total`), along which an integer-typed "
               "object keeps holding an integer matrix and the classes that build their own matrix stay float64 "
               "(`ladder_int`, `ladder_cls`, `stepT_typed`, `prog_dtype_exact`).",
    level_note="Trusted: Lean kernel; axioms propext/Classical.choice/Quot.sound; harness/extract_c03.py, this "
               "harness and the driver's parser; the translators harness/py2lean.py / py2lean2.py with the rule tables of "
               "harness/trans_c03.py and the normaliser harness/py2lean_norm.py (helper inlining hoists a helper's body to "
               "statement level: sound for the pure helpers with simple arguments it accepts; a helper call inside an "
               "`and` / `or` / conditional operand would be evaluated early - no such call exists in the anchored code); numpy's dot/svd (the SVD contract L = U diag(s) V, U and V "
               "orthogonal, s > 0 is checked numerically on every decomposition case); float rounding is outside the "
               "model (exact rationals; comparison 1e-9 relative plus an error bound from the product of operand "
               "norms).",
    rule="a case is one constructor call (classes Homogeneous .. NonUniformScale, dimensions 1-4, checks on / off), one "
         "init_identity call (12 classes x 4 dimensions, counted as trivial), or "
         "one statement executed on the real objects (a pair / cross-dimension / from-vector / nested-chain / "
         "self-containing-chain / dtype-and-layout / aliased-operand / identity-operand battery statement or one step "
         "of a random program of 2-8 compose calls over a store of 3-7 atoms, three programs in ten mixing 2-D and 3-D "
         "atoms with WithDims slicers in every spelling), one from_vector matrix, one apply or one decomposition; "
         "distinct = distinct (dimension, operation, operand kinds, operand parameters and previous lives); "
         "non-trivial = both operands are not identity maps (by construction of the generators, except the "
         "statements of the identity-operand battery, which are counted as trivial)",
    partial=["operands intact / aliasing: the translation is VALUE-LEVEL - `.copy()`, `copy=` flags, in-place mutation "
             "versus rebinding and object identity are invisible to it (dropping `self.copy()` in the ladder gives a "
             "byte-identical translation, so `genLadder_eq` still holds); `compose_frame` / `prog_frame` restate that the "
             "model's `step` appends.  The clause 'a and b themselves are unchanged' is therefore decided by the "
             "oracle's digests and identity checks on every sampled case, not by a theorem about the code",
             "honesty of in-place receivers (`C03/inplace.honest`) is judged although the text names 'the result': a "
             "dishonest receiver makes the next non-in-place result dishonest (`coded_inplace_breaks_honesty`, "
             "`coded_program_breaks_law`), so the clause over all finite sequences of calls implies it; DESIGN section 6 "
             "(written before fix b1ffb28) still says 'non-in-place results only'",
             "Affine.decompose: numpy's SVD is a contract parameter (L = U diag(s) V with U, V orthogonal and s > 0, "
             "checked numerically per case - singular values are irrational); the Scale factory's np.allclose decision "
             "is a Boolean input of the model: recomposition is proved when it says 'uniform' only for equal factors "
             "(decompose_near_tie_witness shows the hypothesis cannot be dropped) and cases within 1e-3..1e-9 of "
             "the uniform/non-uniform tie are excluded by the generator (DESIGN section 3 item 2)",
             "'Rotation' honesty is orthogonality of the linear part (what menpo's Rotation class admits, mirrored "
             "alignments included); decompose_reflection states when a piece of a decomposition is improper",
             "from_vector of Translation / NonUniformScale given a vector of another length: the model follows numpy's "
             "broadcasting / cycling as coded (now proved equal to the translated source, `fromVec_src`); this is "
             "compared on from_vector directly (a refusal would be accepted as well) and such vectors are not used "
             "inside programs",
             "the translated bodies treat copy() (arrays are values: no aliasing of h_matrix arrays in the model), np.dot, "
             "np.linalg.svd, np.allclose inside the Scale factory (a Boolean input) and the numpy words of "
             "Core/C03Src.lean (eye, fill_diagonal, slice assignment, reshape, outer, the exact-rational np.allclose of "
             "the bottom-row check) as vocabulary: their meaning is the hand-written model's, tied by the correspondence "
             "(from_vector, constructor and init_identity cases); an index outside an array (IndexError) is not "
             "modelled (every subscript of the translated bodies is guarded by a length test)",
             "dtypes: float32 / float64 rounding is outside the model (they hold exact rationals), overflow of int64 "
             "products is not modelled (entries are small); dtypes other than int64 / float32 / float64 have no word in "
             "the model (programs that meet one are not compared on dtypes)",
             "a chain appended to something that contains it: the model says 'no denotation at any fuel', the "
             "implementation raises RecursionError on apply; tied by the correspondence, not judged by the oracle "
             "(the property does not speak about it)"],
    assumptions=["the translated bodies drop `self._sync_target_from_state()` (rule: the receiver is unchanged): its body "
                 "lives in menpo/base.py (not anchored, not a column of the method table) and is assumed to write the "
                 "alignment's target only; a version that refits the matrix is seen by the oracle (law / honesty of "
                 "in-place calls on alignments), not by an obligation",
                 "class, method and gate tables are read from the classes' MROs / `__dict__`s and from sample 2-D and 3-D "
                 "instances: gates that depend on the instance's state are outside",
                 "totalisations of the numpy vocabulary (Core/C03Src.lean): `np.eye(n)` for n < 0 is the empty array "
                 "(numpy raises), a subscript beyond the shape reads the generating function (numpy raises IndexError); "
                 "neither is reachable from the translated bodies (sizes are shape + 1, subscripts are guarded by "
                 "length tests)",
                 "operands are honest and invertible when created (constructor arguments really are rotations, "
                 "non-zero scales, ...; checked on every atom)",
                 "probe points at which a projective Homogeneous operand has a denominator below 1e-3 are skipped",
                 "WithDims arguments are those for which x[:, dims] is a point set again: an index list / tuple / "
                 "integer array with entries of either sign, a Boolean mask, a slice, Ellipsis, a single integer "
                 "(a multi-dimensional index array or None would add an axis)",
                 "parameter vectors given to compose_after_from_vector_inplace describe honest invertible members "
                 "(non-zero scales, non-degenerate similarity; side condition `Proper` of the program theorems)"],
    design_ref="DESIGN.md section 6, C03")
IMPORTS = ["MenpoModel.Props.C03"]
NS = "MenpoModel.C03."
THEOREMS = [NS + t for t in [
    "resultCls_sound", "ladder_total", "compose_closed_sound", "compose_before_law", "compose_after_law",
    "compose_law_affine", "compose_family_single", "compose_dim_mismatch", "compose_frame", "inplace_frame",
    "step_compose_law", "step_compose_dims", "apply_dim_sound", "apply_total_affine", "withMask_eq_withDims",
    "inplace_gate", "inplace_law", "inplace_chain_law", "inplace_chain_exact", "chain_compose_not_flattened",
    "own_class_accepted", "fromVec_honest", "quatRot_orth", "fromVector_law",
    "prog_honest", "prog_denotation", "prog_frame", "prog_class_stable",
    "decompose_recomposes", "decompose_pieces_honest", "decompose_reflection", "decompose_discrete",
    "decompose_near_tie_witness", "det_lin_mul", "method_resolution_family", "method_resolution_others",
    "coded_inplace_breaks_honesty", "coded_program_breaks_law",
    # round 2: class algebra, expression trees, WithDims spellings, self-composition, decomposition folded back
    "join_comm_assoc", "join_least", "join_idem_strip", "joinAll_perm", "kind_eq_joinAll", "expr_class_join",
    "compose_with_itself", "decompose_fold_class", "withIdx_eq_withDims", "normIndex_spec", "withSlice_eq_withDims",
    "applyRef_eq_flat",
    # round 3: constructors and init_identity (model tied to the source by GenProps/C03Src.lean), dtypes
    "ctor_refusals", "bottomClose_of_isAffine", "ctor_tolerance_witness", "ctor_honest_discrete",
    "ctor_unchecked_witness", "identity_neutral", "ladder_ctor_justified", "ladder_ctor_refuses_other_dims",
    "ana_ctor_justified", "promote_semilattice", "dot_exact", "inplace_dtype_law", "cast_to_receiver_breaks_law",
    "stepT_sound", "prog_dtype_total", "ladder_int", "ladder_cls", "stepT_typed", "prog_dtype_exact"]]

FAMILY = extract_c03.ORDER
BASE = {"AlignmentAffine": "Affine", "AlignmentSimilarity": "Similarity", "AlignmentRotation": "Rotation",
        "AlignmentTranslation": "Translation", "AlignmentUniformScale": "UniformScale"}
OTHERS2 = ["TransformChain", "ThinPlateSplines", "PiecewiseAffine", "WithDims"]
OTHERS3 = ["TransformChain", "WithDims"]
MAG_CAP = 1e5


def F(x):
    return Fraction(x)


def fs(x):
    x = Fraction(x)
    return str(x.numerator) if x.denominator == 1 else "%d/%d" % (x.numerator, x.denominator)


def ff(s):
    return float(Fraction(s))


# ------------------------------------------------------------------------------------------------ recipes
# An atom recipe is a JSON-able dict {"k": kind, "d": dim, ...parameters as exact rational strings...};
# `build(recipe, objs)` constructs the real menpo object.  Chains refer to earlier store indices.

def dy(rng, kmax=16, mexp=2, nonzero=False):
    while True:
        k = rng.randint(-kmax, kmax)
        if nonzero and k == 0:
            continue
        return Fraction(k, 2 ** rng.randint(0, mexp))


def rot_matrix(rng, d):
    """exact rational rotation matrix (list of rows of Fractions)"""
    if d == 2:
        c, s = common.rat_circle(rng, 6)
        if s == 0:
            c, s = Fraction(3, 5), Fraction(4, 5)
        return [[c, -s], [s, c]]
    while True:
        a, b, c, e = [rng.randint(-3, 3) for _ in range(4)]
        n = a * a + b * b + c * c + e * e
        if n and (b or c or e) and a:
            break
    n = Fraction(n)
    return [[(a * a + b * b - c * c - e * e) / n, 2 * (b * c - a * e) / n, 2 * (b * e + a * c) / n],
            [2 * (b * c + a * e) / n, (a * a - b * b + c * c - e * e) / n, 2 * (c * e - a * b) / n],
            [2 * (b * e - a * c) / n, 2 * (c * e + a * b) / n, (a * a - b * b - c * c + e * e) / n]]


def lin_matrix(rng, d):
    """well conditioned exact linear map: unit lower * diagonal * unit upper with small dyadic entries"""
    lo = [[Fraction(int(i == j)) for j in range(d)] for i in range(d)]
    up = [[Fraction(int(i == j)) for j in range(d)] for i in range(d)]
    for i in range(d):
        for j in range(d):
            if i > j:
                lo[i][j] = Fraction(rng.randint(-2, 2), 2)
            if i < j:
                up[i][j] = Fraction(rng.randint(-2, 2), 2)
    dg = [rng.choice([Fraction(1, 2), Fraction(1), Fraction(3, 2), Fraction(2), Fraction(-1), Fraction(-3, 2)])
          for _ in range(d)]
    m = [[sum(lo[i][k] * dg[k] * up[k][j] for k in range(d)) for j in range(d)] for i in range(d)]
    return m


def det_exact(m):
    """exact determinant of a square matrix of Fractions (Gaussian elimination)"""
    a = [list(r) for r in m]
    n, det = len(a), Fraction(1)
    for c in range(n):
        p = next((r for r in range(c, n) if a[r][c] != 0), None)
        if p is None:
            return Fraction(0)
        if p != c:
            a[c], a[p] = a[p], a[c]
            det = -det
        det *= a[c][c]
        for r in range(c + 1, n):
            f = a[r][c] / a[c][c]
            for k in range(c, n):
                a[r][k] -= f * a[c][k]
    return det


def hmat(lin, t, bottom=None):
    d = len(lin)
    rows = [list(lin[i]) + [t[i]] for i in range(d)]
    rows.append(list(bottom) if bottom is not None else [Fraction(0)] * d + [Fraction(1)])
    return rows


def cloud(rng, d):
    """dyadic point set in general position (exactly representable)"""
    import numpy as np
    n = 5 if d == 2 else 6
    base2 = [[0, 0], [4, 0], [0, 4], [4, 5], [-3, 2]]
    base3 = [[0, 0, 0], [4, 0, 1], [0, 4, 2], [4, 5, -3], [-3, 2, 4], [1, -4, -2]]
    base = base2 if d == 2 else base3
    while True:
        pts = [[Fraction(base[i][j]) + Fraction(rng.randint(-3, 3), 4) for j in range(d)] for i in range(n)]
        a = np.array([[float(x) for x in p] for p in pts])
        if np.linalg.svd(a - a.mean(axis=0), compute_uv=False)[-1] > 1.0:
            return pts


def apply_exact(m, p):
    d = len(p)
    return [sum(m[i][j] * p[j] for j in range(d)) + m[i][d] for i in range(d)]


def gen_atom(rng, kind, d, n_existing=0, chainable=None):
    """recipe of a fresh atom of the given kind"""
    r = {"k": kind, "d": d}
    S = lambda rows: [[fs(x) for x in row] for row in rows]
    if kind == "Homogeneous":
        while True:
            bottom = [Fraction(rng.randint(-2, 2), 16) for _ in range(d)] + [Fraction(1)]
            if not any(bottom[:d]):
                bottom[0] = Fraction(1, 16)
            m = hmat(lin_matrix(rng, d), [dy(rng, 8, 1) for _ in range(d)], bottom)
            if abs(det_exact(m)) >= Fraction(1, 4):   # invertible, conditioning bounded on the input
                break
        r["M"] = S(m)
    elif kind == "Affine":
        r["M"] = S(hmat(lin_matrix(rng, d), [dy(rng, 8, 1) for _ in range(d)]))
    elif kind == "Similarity":
        R = rot_matrix(rng, d)
        s = rng.choice([Fraction(1, 2), Fraction(3, 2), Fraction(2), Fraction(-1, 2), Fraction(5, 4)])
        r["M"] = S(hmat([[s * x for x in row] for row in R], [dy(rng, 8, 1) for _ in range(d)]))
    elif kind == "Rotation":
        r["R"] = S(rot_matrix(rng, d))
    elif kind == "Translation":
        t = [dy(rng, 8, 1) for _ in range(d)]
        if not any(t):
            t[0] = Fraction(1)
        r["t"] = [fs(x) for x in t]
    elif kind == "UniformScale":
        r["s"] = fs(rng.choice([Fraction(1, 2), Fraction(3, 2), Fraction(2), Fraction(-2), Fraction(3, 4)]))
    elif kind == "NonUniformScale":
        vals = [Fraction(1, 2), Fraction(3, 2), Fraction(2), Fraction(-1), Fraction(3, 4), Fraction(5, 4)]
        rng.shuffle(vals)
        r["v"] = [fs(x) for x in vals[:d]]
    elif kind.startswith("Alignment"):
        src = cloud(rng, d)
        base = BASE[kind]
        if base == "Affine":
            m = hmat(lin_matrix(rng, d), [dy(rng, 8, 1) for _ in range(d)])
        elif base == "Similarity":
            R = rot_matrix(rng, d)
            s = rng.choice([Fraction(1, 2), Fraction(3, 2), Fraction(2)])
            m = hmat([[s * x for x in row] for row in R], [dy(rng, 8, 1) for _ in range(d)])
        elif base == "Rotation":
            m = hmat(rot_matrix(rng, d), [Fraction(0)] * d)
        elif base == "Translation":
            m = hmat([[Fraction(int(i == j)) for j in range(d)] for i in range(d)],
                     [dy(rng, 8, 1, nonzero=True) for _ in range(d)])
        else:
            s = rng.choice([Fraction(1, 2), Fraction(3, 2), Fraction(2)])
            m = hmat([[s * int(i == j) for j in range(d)] for i in range(d)], [Fraction(0)] * d)
        noise = rng.random() < 0.5
        tgt = [[x + (Fraction(rng.randint(-2, 2), 16) if noise else 0) for x in apply_exact(m, p)] for p in src]
        r["src"], r["tgt"] = S(src), S(tgt)
        # constructor options (they change which member of the class is fitted, never the class)
        if base == "Similarity" and rng.random() < 0.3:
            r["opts"] = {"rotation": False}
        elif base in ("Similarity", "Rotation") and rng.random() < 0.25:
            r["opts"] = {"allow_mirror": True}
    elif kind == "TransformChain":
        pool = list(chainable if chainable is not None else range(n_existing))
        k = min(len(pool), rng.choice([1, 2, 2, 3]))
        r["members"] = [rng.choice(pool) for _ in range(k)] if pool else []
    elif kind in ("ThinPlateSplines", "PiecewiseAffine"):
        big = 256 if kind == "PiecewiseAffine" else 8
        src = [[-big, -big], [big, -big], [big, big], [-big, big], [0, 0], [big // 2, 1], [-1, -big // 2]]
        src = [[Fraction(x) for x in p] for p in src]
        tgt = [[x + Fraction(rng.randint(-4, 4), 4) for x in p] for p in src]
        r["src"], r["tgt"] = S(src), S(tgt)
    elif kind == "WithDims":
        # dimension preserving permutations, 3-D -> 2-D projections, 2-D -> 3-D embeddings with a repeated axis
        perms = ([[1, 0], [1, 0], [0, 1, 0], [1, 1, 0]] if d == 2
                 else [[1, 0, 2], [2, 0, 1], [0, 2, 1], [0, 1], [0, 2], [2, 1], [1, 0]])
        r["dims"] = rng.choice(perms)
        u = rng.random()
        if u < 0.2:       # the other documented spelling: a Boolean mask over the axes
            r["dims"] = rng.choice([[True, True], [True, False]] if d == 2
                                   else [[True, True, False], [True, False, True], [False, True, True], [True, True, True]])
            r["mask"] = rng.choice(["array", "list"])
        elif u < 0.4:     # every other "valid numpy array slice": negative indices (list or integer array)
            r["dims"] = [i - d if rng.random() < 0.6 else i for i in r["dims"]]
            if rng.random() < 0.3:
                r["as_array"] = True
            elif rng.random() < 0.3:
                r["as_tuple"] = True
        elif u < 0.6:     # a Python slice (bounds beyond the dimension are clipped, never an IndexError)
            r["slice"] = rng.choice(
                [[None, None, -1], [None, 2, None], [1, None, None], [None, None, 2], [-2, None, None], [0, 5, 1],
                 [None, -1, None], [-1, None, -1], [1, 0, -1], [None, None, None]])
            del r["dims"]
        elif u < 0.68:    # a single integer: one column, kept two-dimensional by _apply
            r["int"] = rng.choice(list(range(-d, d)))
            del r["dims"]
        elif u < 0.72:
            r["ellipsis"] = True
            del r["dims"]
    else:
        raise ValueError(kind)
    return r


def respell(rng, dims, n):
    """a WithDims recipe that selects the columns `dims` of an n-dimensional point, in one of the spellings numpy
    accepts: the index list itself, negative indices, an integer array, a Boolean mask, a slice, a single integer"""
    r = {"k": "WithDims", "d": n, "dims": list(dims)}
    opts = ["list", "negative", "array"]
    if sorted(set(dims)) == list(dims) and len(dims) > 0:
        opts.append("mask")
    slices = [[a, b, st] for a in (None, 0, 1, -n, 1 - n) for b in (None, n, n - 1, -1, n + 3) for st in (None, 1, 2, -1)
              if list(range(*slice(a, b, st).indices(n))) == list(dims)]
    if slices:
        opts.append(("slice", rng.choice(slices)))
    if len(dims) == 1:
        opts.append("int")
    o = rng.choice(opts)
    if o == "negative":
        r["dims"] = [i - n if rng.random() < 0.7 else i for i in dims]
    elif o == "array":
        r["as_array"] = True
    elif o == "mask":
        r["dims"] = [i in dims for i in range(n)]
        r["mask"] = rng.choice(["array", "list"])
    elif o == "int":
        r["int"] = dims[0] - (n if rng.random() < 0.5 else 0)
        del r["dims"]
    elif isinstance(o, tuple):
        r["slice"] = o[1]
        del r["dims"]
    return r


LIVES = ["decomposed", "str", "copy", "pinv2", "int", "retarget", "fromvec", "applied", "asvec"]


def with_life(rng, recipe, p=0.35):
    """give the atom a previous life (none of them may change what the object is): it was decomposed / printed /
    applied / vectorised before, is a copy, the double pseudoinverse or the from_vector image of itself, was built from
    an integer-typed matrix, or is an alignment that was first fitted to another target"""
    if rng.random() < p and recipe["k"] not in ("TransformChain", "WithDims"):
        recipe = dict(recipe, life=rng.choice(LIVES))
    return recipe


def build(recipe, objs):
    """the real menpo object of a recipe (after its previous life, if it has one)"""
    o = build_fresh(recipe, objs)
    life = recipe.get("life")
    if life is None:
        return o
    import numpy as np
    import warnings
    fam = is_family(o)
    try:
        with warnings.catch_warnings():
            warnings.simplefilter("ignore")
            if life == "decomposed" and hasattr(o, "decompose"):
                o.decompose()
            elif life == "str" and fam:
                try:
                    str(o)
                except Exception:
                    pass    # printing is not a clause of this property
            elif life == "copy":
                o = o.copy()
            elif life == "pinv2" and fam:
                o = o.pseudoinverse().pseudoinverse()
            elif life == "applied":
                d = recipe["d"]
                o.apply(np.array([[0.5] * d, [1.0] * d, [-2.0] + [0.25] * (d - 1)]))
            elif life == "asvec" and fam:
                o.as_vector()
            elif life == "fromvec" and fam:
                o = o.from_vector(o.as_vector())
            elif life == "retarget" and recipe["k"].startswith("Alignment"):
                from menpo.shape import PointCloud
                tgt = np.array([[ff(x) for x in row] for row in recipe["tgt"]])
                o = build_fresh(dict(recipe, tgt=[[fs(F(x) * 2 + 1) for x in row] for row in recipe["tgt"]]), objs)
                o.set_target(PointCloud(tgt))
    except NotImplementedError:
        pass    # 2-D rotations / 3-D similarities have no vector form
    return o


def build_fresh(recipe, objs):
    import numpy as np
    import menpo.transform as mt
    from menpo.shape import PointCloud
    k = recipe["k"]
    A = lambda rows: np.array([[ff(x) for x in row] for row in rows])
    if k in ("Homogeneous", "Affine", "Similarity"):
        M = A(recipe["M"])
        life = recipe.get("life")
        if life == "int" and np.all(M == np.round(M)):
            M = M.astype(np.int64)
        elif life == "f32" and np.all(M == M.astype(np.float32)):
            M = M.astype(np.float32)
        elif life == "fortran":
            M = np.asfortranarray(M)
        elif life == "view":      # a non-contiguous view the object keeps (copy=False)
            big = np.full((2 * M.shape[0], 2 * M.shape[1]), 7.0)
            big[::2, ::2] = M
            return getattr(mt, k)(big[::2, ::2], copy=False)
        return getattr(mt, k)(M)
    if k == "Rotation":
        return mt.Rotation(A(recipe["R"]))
    if k == "Translation":
        return mt.Translation(np.array([ff(x) for x in recipe["t"]]))
    if k == "UniformScale":
        return mt.UniformScale(ff(recipe["s"]), recipe["d"])
    if k == "NonUniformScale":
        return mt.NonUniformScale(np.array([ff(x) for x in recipe["v"]]))
    if k.startswith("Alignment"):
        return getattr(mt, k)(PointCloud(A(recipe["src"])), PointCloud(A(recipe["tgt"])), **recipe.get("opts", {}))
    if k in ("ThinPlateSplines", "PiecewiseAffine"):
        return getattr(mt, k)(PointCloud(A(recipe["src"])), PointCloud(A(recipe["tgt"])))
    if k == "TransformChain":
        return mt.TransformChain([objs[i] for i in recipe["members"]])
    if k == "WithDims":
        if recipe.get("ellipsis"):
            return mt.WithDims(Ellipsis)
        if "slice" in recipe:
            return mt.WithDims(slice(*recipe["slice"]))
        if "int" in recipe:
            return mt.WithDims(int(recipe["int"]))
        if recipe.get("mask") == "array":
            return mt.WithDims(np.array(recipe["dims"], dtype=bool))
        if recipe.get("as_array"):
            return mt.WithDims(np.array(recipe["dims"], dtype=np.int64))
        if recipe.get("as_tuple"):
            return mt.WithDims(tuple(recipe["dims"]))
        return mt.WithDims(list(recipe["dims"]))
    raise ValueError(k)


# ------------------------------------------------------------------------------------------------ the store

class World:
    """the real objects of one program, indexable like the model's store (objects of any dimension)"""

    def __init__(self, d=None):
        self.objs = []
        self.recipes = []
        self.mag = []     # upper bound on the norm / Lipschitz constant of each object (product of operand norms)
        self.magi = []    # the same for the inverse: bounds how far an object can have shrunk

    def add_atom(self, recipe):
        o = build(recipe, self.objs)
        self.recipes.append(recipe)
        return self.add(o, atom=True)

    def add(self, o, atom=False, mag=None, magi=None):
        self.objs.append(o)
        if mag is None:
            mag, magi = self.atom_mag(o)
        self.mag.append(mag)
        self.magi.append(magi)
        return len(self.objs) - 1

    def atom_mag(self, o):
        import numpy as np
        if is_family(o):
            try:
                inv = float(np.abs(np.linalg.inv(o.h_matrix)).sum(axis=1).max())
            except Exception:
                inv = float("inf")
            return max(1.0, float(np.abs(o.h_matrix).sum(axis=1).max())), max(1.0, inv)
        if is_chain(o):
            m, mi = 1.0, 1.0
            for t in o.transforms:
                i = self.index_of(t)
                m *= self.mag[i] if i is not None else 4.0
                mi *= self.magi[i] if i is not None else 4.0
            return m, mi
        if is_withdims(o):
            return 1.0, 1.0
        return 4.0, 4.0

    def index_of(self, o):
        for i, x in enumerate(self.objs):
            if x is o:
                return i
        return None

    def cell(self, i):
        """cell description in the model's vocabulary:
        ('F', d, cls, matrix) | ('C', refs) | ('D', dims) | ('L', i)"""
        o = self.objs[i]
        if is_chain(o):
            return ("C", [self.index_of(t) for t in o.transforms])
        if is_family(o):
            return ("F", o.h_matrix.shape[0] - 1, type(o).__name__, o.h_matrix.copy())
        if is_withdims(o):
            return dims_cell(o.dims)
        return ("L", i)

    def wire_cell(self, i):
        c = self.cell(i)
        if c[0] == "F":
            return "F %d %s %s" % (c[1], c[2], " ".join(common.fq(float(x)) for x in c[3].ravel()))
        if c[0] == "C":
            return "C %d %s" % (len(c[1]), " ".join(str(x) for x in c[1]))
        if c[0] in ("D", "B", "I"):
            return "%s %d %s" % (c[0], len(c[1]), " ".join(str(x) for x in c[1]))
        if c[0] == "S":
            return "S " + " ".join("N" if x is None else str(x) for x in c[1])
        return "L %d" % c[1]


def is_family(o):
    from menpo.transform.homogeneous.base import Homogeneous
    return isinstance(o, Homogeneous)


def is_chain(o):
    from menpo.transform import TransformChain
    return isinstance(o, TransformChain)


def is_withdims(o):
    from menpo.transform import WithDims
    return isinstance(o, WithDims)


def is_mask(dims):
    import numpy as np
    if isinstance(dims, (slice, int, np.integer)) or dims is Ellipsis:
        return False
    return len(dims) > 0 and all(isinstance(x, (bool, np.bool_)) for x in dims)


def dims_cell(dims):
    """the model's cell for the `dims` of a WithDims: ('B', bits) a mask, ('S', [start, stop, step]) a slice,
    ('D', idx) non-negative indices, ('I', idx) integers of either sign (a single integer is the list of itself:
    `_apply` keeps its one column two-dimensional)"""
    import numpy as np
    if dims is Ellipsis:          # x[:, ...] is x: every axis, as slice(None) selects them
        return ("S", [None, None, None])
    if isinstance(dims, slice):
        return ("S", [None if v is None else int(v) for v in (dims.start, dims.stop, dims.step)])
    if isinstance(dims, (int, np.integer)) and not isinstance(dims, (bool, np.bool_)):
        return ("I", [int(dims)])
    if is_mask(dims):
        return ("B", [int(bool(x)) for x in dims])
    idx = [int(x) for x in dims]
    return ("D", idx) if all(i >= 0 for i in idx) else ("I", idx)


def kind_of(o):
    return type(o).__name__


def reaches(o, target, depth=0):
    if o is target:
        return True
    if is_chain(o) and depth < 50:
        return any(reaches(t, target, depth + 1) for t in o.transforms)
    return False


def out_dim(o, n, depth=0):
    """dimension of the image of an n-dimensional point (None: the application raises) - the harness's own
    dimension calculus, used by the generator and compared with the model's `leavesDim`"""
    if n is None:
        return None
    if is_family(o):
        return n if o.h_matrix.shape[0] - 1 == n else None
    if is_withdims(o):
        c = dims_cell(o.dims)
        if c[0] == "B":
            return sum(c[1]) if len(c[1]) == n else None
        if c[0] == "S":
            a, b, st = c[1]
            return None if st == 0 else len(range(*slice(a, b, st).indices(n)))
        return len(c[1]) if all(-n <= i < n for i in c[1]) else None
    if is_chain(o):
        if depth > 40:
            return None
        for t in o.transforms:
            n = out_dim(t, n, depth + 1)
            if n is None:
                return None
        return n
    return 2 if n == 2 else None        # thin-plate splines / piecewise affine built here are 2-D


def in_dim(o):
    """an input dimension the object accepts (2 or 3 preferred), or None"""
    for n in (2, 3, 1, 4):
        if out_dim(o, n) is not None:
            return n
    return None


# ------------------------------------------------------------------------------------------------ oracle parts

def dval(v, depth=0):
    import numpy as np
    if isinstance(v, np.ndarray):
        return ("nd", v.shape, v.dtype.str, v.tobytes())
    if hasattr(v, "points") and isinstance(getattr(v, "points"), np.ndarray):
        return ("pc", type(v).__name__, v.points.shape, v.points.tobytes())
    if isinstance(v, (list, tuple)) and depth < 3:
        return ("seq", tuple(dval(x, depth + 1) for x in v))
    if isinstance(v, (int, float, bool, str, type(None))):
        return ("imm", repr(v))
    return ("obj", type(v).__name__)


def digest(o):
    """the state of one object THE PROPERTY NAMES ("a and b themselves are unchanged": the map an operand denotes and
    what it is): a family object = class + h_matrix (bytes, dtype, shape) + for alignments the source / target points;
    a chain = the identities of its members in order; WithDims = its dims; thin-plate splines / piecewise affine =
    class + source / target points.  Private attributes (a memo, a lazily cached value) are NOT part of it: a correct
    implementation may cache on an operand (`private_digest` notes such changes without judging them)."""
    if is_chain(o):
        return ("chain", tuple(id(t) for t in o.transforms))
    out = [type(o).__name__]
    if is_family(o):
        out.append(dval(o.h_matrix))
    if is_withdims(o):
        out.append(repr(o.dims))
    for name in ("source", "target"):
        try:
            v = getattr(o, name, None)
        except Exception:
            v = None
        if v is not None and hasattr(v, "points"):
            out.append((name, dval(v)))
    return tuple(out)


def private_digest(o):
    """every attribute of the object (what `digest` was before the audit): used for a counted note only"""
    if is_chain(o):
        return ("chain", tuple(id(t) for t in o.transforms))
    return (type(o).__name__, tuple((k, dval(v)) for k, v in sorted(o.__dict__.items())))


def probe_points(rng, d, n=7):
    import numpy as np
    return np.array([[float(dy(rng, 12, 2)) for _ in range(d)] for _ in range(n)])


def leaves(o, out=None, depth=0):
    out = [] if out is None else out
    if is_chain(o) and depth < 60:
        for t in o.transforms:
            leaves(t, out, depth + 1)
    else:
        out.append(o)
    return out


def is_projective(o):
    from menpo.transform import Affine
    return is_family(o) and not isinstance(o, Affine)


def seq_apply(first, second, X):
    """what the law prescribes: (`second.apply(first.apply(X'))`, X', per-row smallest projective denominator) where X'
    are the rows of X at which every projective denominator along the way is >= 1e-3 (the denominators are
    found by walking the leaves); or (name of the exception type raised, None, None)"""
    import numpy as np
    try:
        Y = np.asarray(X, dtype=float)
        ok = np.ones(Y.shape[0], dtype=bool)
        wrow = np.ones(Y.shape[0])
        ls = leaves(first) + leaves(second)
        if any(is_projective(t) for t in ls):
            for t in ls:
                if is_projective(t):
                    hy = np.hstack([Y, np.ones([Y.shape[0], 1])]).dot(t.h_matrix.T)
                    w = np.abs(hy[:, -1])
                    ok &= w >= 1e-3
                    wrow = np.minimum(wrow, np.where(ok, w, 1.0))
                    Y = Y.copy()
                    Y[~ok] = 0.0
                Y = t.apply(Y)
        Xok = np.asarray(X, dtype=float)[ok]
        if Xok.shape[0] == 0:
            return None, Xok, wrow[ok]
        return second.apply(first.apply(Xok)), Xok, wrow[ok]
    except Exception as e:  # e.g. TriangleContainmentError of a piecewise affine member
        return type(e).__name__, None, None


def close_rows(got, exp, mag, wrow):
    """`close_arrays` row by row: the tolerance of a probe is loosened by 1 / w^2 for ITS OWN smallest projective
    denominator w only (a near-singular probe does not loosen the others); -> index of the first bad row or None"""
    import numpy as np
    got, exp = np.asarray(got, dtype=float), np.asarray(exp, dtype=float)
    if got.shape != exp.shape:
        return 0
    if got.size == 0:
        return None
    if not (np.isfinite(got).all() and np.isfinite(exp).all()):
        return 0
    scale = max(float(np.abs(got).max()), float(np.abs(exp).max()))
    base = 1e-9 * (1.0 + scale) + 1e-12 * mag
    for j in range(got.shape[0]):
        if float(np.abs(got[j] - exp[j]).max()) > base / min(1.0, float(wrow[j])) ** 2:
            return j
    return None


def honest(name, M, err=0.0):
    """does the matrix really belong to the reported class?  (oracle transcription of the class meanings).
    `err` is an upper bound on the absolute rounding error the entries can carry (from the history of the
    object); "is zero" = below 1e-9 relative to the quantity it is compared with, plus that bound; "is non-zero"
    is tested exactly (degenerate scales are the business of the invertibility check)."""
    import numpy as np
    base = BASE.get(name, name)
    if base == "Homogeneous":
        return True
    d = M.shape[0] - 1
    L, t = M[:d, :d], M[:d, d]
    tol_m = 1e-9 * (1.0 + float(np.abs(M).max())) + err
    sl = float(np.abs(L).max())
    if not (np.abs(M[d, :d]).max() <= tol_m and abs(M[d, d] - 1) <= tol_m):
        return False
    if base == "Affine":
        return True
    G = L.T.dot(L)
    gerr = 4.0 * d * (sl + err) * err
    if base == "Similarity":
        lam = float(np.trace(G)) / d
        return lam > 0 and np.abs(G - lam * np.eye(d)).max() <= 1e-9 * lam + gerr
    if base == "Rotation":
        return np.abs(G - np.eye(d)).max() <= 1e-9 + gerr and np.abs(t).max() <= tol_m
    if base == "Translation":
        return np.abs(L - np.eye(d)).max() <= 1e-9 + err
    if base == "UniformScale":
        s = L[0, 0]
        return s != 0 and np.abs(L - s * np.eye(d)).max() <= 1e-9 * abs(s) + err and np.abs(t).max() <= tol_m
    if base == "NonUniformScale":
        dg = np.diag(L)
        return (np.abs(dg).min() > 0 and np.abs(L - np.diag(dg)).max() <= 1e-9 * float(np.abs(dg).max()) + err
                and np.abs(t).max() <= tol_m)
    return False


def close_arrays(a, b, mag, extra=1.0):
    import numpy as np
    a, b = np.asarray(a, dtype=float), np.asarray(b, dtype=float)
    if a.shape != b.shape:
        return False
    if a.size == 0:
        return True
    if not (np.isfinite(a).all() and np.isfinite(b).all()):
        return False
    scale = max(float(np.abs(a).max()), float(np.abs(b).max()))
    return float(np.abs(a - b).max()) <= (1e-9 * (1.0 + scale) + 1e-12 * mag) * extra


# ------------------------------------------------------------------------------------------------ statements

OPS = {"cb": ("compose_before", "before", False), "ca": ("compose_after", "after", False),
       "cbi": ("compose_before_inplace", "before", True), "cai": ("compose_after_inplace", "after", True),
       "fv": ("compose_after_from_vector_inplace", "after", True)}


def stmt_wire(s):
    if s[0] == "fv":
        return "fv %d %d %s" % (s[1], len(s[2]), " ".join(s[2]))
    return "%s %d %d" % (s[0], s[1], s[2])


def script_of(recipes, stmts):
    """runnable python reproducing the calls"""
    lines = ["import sys; sys.path[:0] = ['/verif', %r]" % common.REPO,
             "import numpy as np",
             "from harness import c03",
             "w = c03.World()"]
    for r in recipes:
        lines.append("w.add_atom(%s)" % json.dumps(r))
    lines.append("o = w.objs")
    for s in stmts:
        op, a, b = s[0], s[1], s[2]
        if op == "fv":
            lines.append("o[%d].compose_after_from_vector_inplace(np.array(%r))" % (a, [ff(x) for x in b]))
        elif OPS[op][2]:
            lines.append("o[%d].%s(o[%d])" % (a, OPS[op][0], b))
        else:
            lines.append("o.append(o[%d].%s(o[%d]))" % (a, OPS[op][0], b))
    return "\n".join(lines)


def error_kind(e):
    """the model's vocabulary for what the implementation raised"""
    if isinstance(e, NotImplementedError):
        return "notImplemented"
    if isinstance(e, ValueError):
        return "rejected" if "compose inplace with" in str(e) else "shape"
    if isinstance(e, AttributeError):
        return "noMethod"
    return "other:" + type(e).__name__


def probes_for(X, o):
    """probe points of the dimension `o` accepts"""
    n = in_dim(o)
    return X.get(n if n in X else 2)


def exec_stmt(ctx, w, stmt, X, rp, site_prefix="C03"):
    """execute one statement on the real objects and evaluate the oracle; returns the model-vocabulary result
    ('r', ref) | ('i',) | ('e', kind).  `X` maps a dimension to probe points of that dimension."""
    import numpy as np
    from menpo.transform.homogeneous.base import HomogFamilyAlignment
    op, ia = stmt[0], stmt[1]
    if op == "fv":
        return exec_fromvector(ctx, w, stmt, X, rp)
    ib = stmt[2]
    meth, direction, inplace = OPS[op]
    a, b = w.objs[ia], w.objs[ib]
    first, second = (a, b) if direction == "before" else (b, a)
    ka, kb = kind_of(a), kind_of(b)
    rp = dict(rp, failing_statement=[op, ia, ib], operand_kinds=[ka, kb])
    sig = "%s/%s(%s,%s)" % (site_prefix, op, ka, kb)
    mag = w.mag[ia] * w.mag[ib]
    magi = w.magi[ia] * w.magi[ib]
    # what the law prescribes, evaluated before the call on the unchanged operands
    Xp = probes_for(X, first)
    exp, Xok, wmin = seq_apply(first, second, Xp)
    typed = out_dim(second, out_dim(first, in_dim(first))) is not None
    before = [digest(o) for o in w.objs]
    before_private = [private_digest(o) for o in w.objs]
    fam_pair = is_family(a) and is_family(b)
    honest_before = ((not is_family(a) or honest(ka, a.h_matrix, 1e-12 * w.mag[ia]))
                     and (not is_family(b) or honest(kb, b.h_matrix, 1e-12 * w.mag[ib])))
    try:
        res = getattr(a, meth)(b)
        err = None
    except Exception as e:
        res, err = None, error_kind(e)
    after = [digest(o) for o in w.objs]
    changed = [i for i in range(len(before)) if before[i] != after[i]]
    if [private_digest(o) for o in w.objs] != before_private and not changed and (not inplace or err is not None):
        ctx.count("note:private-attribute-of-an-operand-changed (not judged: the property names the matrix)")

    # failures that involve an operand an earlier accepted in-place call already left dishonest get their own
    # pattern, so that they can be told apart from failures on honest operands
    sfx = "" if honest_before else "/operand-dishonest-after-inplace"

    def law(obj, site):
        if isinstance(exp, str):
            try:
                obj.apply(Xp)
                got = "ok"
            except Exception as e:
                got = type(e).__name__
            # the sequential application is undefined on these points: the composite must not invent a value; WHICH
            # exception it raises is not the property's business (a chain may validate dimensions itself)
            ctx.check(got != "ok", site, "composite-defined-where-sequential-raises",
                      "sequential application raises %s, the composite returns a value" % exp, rp)
            if got != exp:
                ctx.count("note:exception-type-differs (not judged)")
            return
        if exp is None:
            ctx.count("skipped:no-well-conditioned-probe")
            return
        try:
            got = np.asarray(obj.apply(Xok))
        except Exception as e:
            ctx.fail(site, "composite-raises", "applying the composite raised %s" % type(e).__name__, rp)
            return
        j = close_rows(got, exp, mag * (1.0 + float(np.abs(Xp).max())), wmin)
        if j is not None:
            ctx.fail(site, "map-differs" + sfx,
                     "%s: composite maps %s to %s, the law prescribes %s" % (
                         sig, Xok[j].tolist(), got[j].tolist(), exp[j].tolist()),
                     dict(rp, probe=Xok[j].tolist(), observed=got[j].tolist(), required=exp[j].tolist()))

    ctx.count("typed" if typed else "ill-typed")
    if not inplace:
        if err is not None:
            if isinstance(exp, str) and not typed:
                # b(a(x)) is undefined on every point (dimensions do not fit): outside the quantifier; the native
                # composition refuses where a chain would fail on application.  Nothing may have changed.
                ctx.count("compose-refused:dimension-mismatch")
                ctx.check(not changed, "C03/compose.operands-intact", "object-changed",
                          "%s raised (%s) and changed existing object(s) %r" % (sig, err, changed), dict(rp, changed=changed))
                return ("e", err)
            ctx.fail("C03/compose.raises", err, "%s raised (%s): a non-in-place composition must succeed" % (sig, err), rp)
            return ("e", err)
        ctx.check(not changed, "C03/compose.operands-intact", "object-changed",
                  "%s changed existing object(s) %r (operands are %d and %d)" % (sig, changed, ia, ib),
                  dict(rp, changed=changed))
        ctx.check(all(res is not o for o in w.objs), "C03/compose.operands-intact", "result-aliases-operand",
                  "%s returned one of the existing objects" % sig, rp)
        if is_chain(res):
            ctx.check(res.transforms is not getattr(a, "transforms", None)
                      and res.transforms is not getattr(b, "transforms", None),
                      "C03/compose.operands-intact", "chain-shares-list", "%s: the result shares its member list "
                      "with an operand" % sig, rp)
        law(res, "C03/compose.law")
        if fam_pair:
            single = is_family(res) and not is_chain(res)
            ctx.check(single, "C03/compose.closed", "not-a-family-member",
                      "%s returned a %s, not a single homogeneous-family transform" % (sig, kind_of(res)), rp)
            if single:
                ctx.check(not isinstance(res, HomogFamilyAlignment), "C03/compose.closed", "alignment-result",
                          "%s returned an alignment (%s)" % (sig, kind_of(res)), rp)
                if honest_before:
                    ctx.check(honest(kind_of(res), res.h_matrix, 1e-12 * mag), "C03/compose.honest", "class=" + kind_of(res),
                              "%s reports %s but its matrix is not one: %s" % (sig, kind_of(res), res.h_matrix.tolist()),
                              dict(rp, result_class=kind_of(res), result_matrix=res.h_matrix.tolist()))
                else:
                    ctx.count("honesty-skipped:operand-already-dishonest")
                da, db, dr = (float(np.linalg.det(m.h_matrix)) for m in (a, b, res))
                ctx.check(dr != 0.0 and abs(dr - da * db) <= 1e-3 * abs(da * db),
                          "C03/compose.invertible", "determinant" + sfx, "%s: det of the result is %r, operands %r, %r"
                          % (sig, dr, da, db), rp)
        idx = w.add(res, mag=mag, magi=magi)
        return ("r", idx)
    # in-place
    if err in ("rejected", "noMethod", "shape"):
        ctx.check(not changed, "C03/inplace.refused-but-changed", "object-changed",
                  "%s was refused (%s) but changed object(s) %r" % (sig, err, changed), dict(rp, changed=changed))
        if err == "shape":
            ctx.check(not typed, "C03/inplace.raises", "shape", "%s raised a shape error on operands whose "
                      "dimensions fit" % sig, rp)
        return ("e", err)
    if err is not None:
        ctx.fail("C03/inplace.raises", err, "%s raised %s" % (sig, err), rp)
        return ("e", err)
    if not (res is None or res is a):
        ctx.count("note:in-place-call-returns-an-object (return convention: not judged)")
    other = [i for i in changed if i != ia]
    ctx.check(not other, "C03/inplace.operand-intact", "object-changed",
              "%s changed object(s) %r besides the receiver %d" % (sig, other, ia), dict(rp, changed=other))
    ctx.check(kind_of(w.objs[ia]) == ka, "C03/inplace.class", "class-changed", "%s changed the receiver's class" % sig, rp)
    law(a, "C03/inplace.law")
    if fam_pair and honest_before:
        ctx.check(honest(ka, a.h_matrix, 1e-12 * mag), "C03/inplace.honest", "receiver=%s" % BASE.get(ka, ka),
                  "%s was accepted and leaves a %s whose matrix is not one: %s" % (sig, ka, a.h_matrix.tolist()),
                  dict(rp, receiver_class=ka, receiver_matrix=a.h_matrix.tolist()))
    w.mag[ia], w.magi[ia] = mag, magi
    return ("i",)


def exec_fromvector(ctx, w, stmt, X, rp):
    """a.compose_after_from_vector_inplace(v): afterwards a maps x to a_orig(a_orig.from_vector(v)(x)), a keeps its
    class, stays honest when from_vector(v) is honest, nothing else (v included) changes"""
    import numpy as np
    _, ia, vs = stmt
    a = w.objs[ia]
    ka = kind_of(a)
    v = np.array([ff(x) for x in vs])
    v0 = v.copy()
    rp = dict(rp, failing_statement=["fv", ia, list(vs)], operand_kinds=[ka, "vector"])
    sig = "C03/fv(%s,%d params)" % (ka, len(vs))
    before = [digest(o) for o in w.objs]
    exp = Xp = operand = None
    honest_before = is_family(a) and honest(ka, a.h_matrix, 1e-12 * w.mag[ia])
    if is_family(a):
        try:
            operand = a.from_vector(v.copy())
            Xp = probes_for(X, a)
            exp, Xok, wmin = seq_apply(operand, a, Xp)
        except Exception:
            operand = None
    try:
        res = a.compose_after_from_vector_inplace(v)
        err = None
    except Exception as e:
        res, err = None, error_kind(e)
    after = [digest(o) for o in w.objs]
    changed = [i for i in range(len(before)) if before[i] != after[i]]
    ctx.check(np.array_equal(v, v0), "C03/fromvector.operand-intact", "vector-changed", "%s changed the vector" % sig, rp)
    if err is not None:
        ctx.check(not changed, "C03/inplace.refused-but-changed", "object-changed",
                  "%s was refused (%s) but changed object(s) %r" % (sig, err, changed), dict(rp, changed=changed))
        try:
            right_len = is_family(a) and len(vs) == int(a.n_parameters)
        except Exception:
            right_len = False
        # a vector of the documented length that from_vector turns into an object of the receiver's dimension
        # must be accepted (the operand is of the receiver's own class)
        ctx.check(not (operand is not None and right_len), "C03/fromvector.raises", err,
                  "%s raised %s although from_vector accepts the vector" % (sig, err), rp)
        return ("e", err)
    other = [i for i in changed if i != ia]
    ctx.check(not other, "C03/inplace.operand-intact", "object-changed",
              "%s changed object(s) %r besides the receiver %d" % (sig, other, ia), dict(rp, changed=other))
    ctx.check(kind_of(w.objs[ia]) == ka, "C03/inplace.class", "class-changed", "%s changed the receiver's class" % sig, rp)
    if operand is None:
        ctx.fail("C03/fromvector.accepted", "no-operand", "%s succeeded although from_vector refuses the vector" % sig, rp)
        return ("i",)
    omag = max(1.0, float(np.abs(operand.h_matrix).sum(axis=1).max()))
    try:
        omagi = max(1.0, float(np.abs(np.linalg.inv(operand.h_matrix)).sum(axis=1).max()))
    except Exception:
        omagi = float("inf")
    mag, magi = w.mag[ia] * omag, w.magi[ia] * omagi
    if isinstance(exp, str):
        ctx.fail("C03/inplace.law", "sequential-raises", "%s: applying from_vector(v) then the receiver raises %s" % (sig, exp), rp)
    elif exp is not None:
        try:
            got = np.asarray(a.apply(Xok))
            j = close_rows(got, exp, mag * (1.0 + float(np.abs(Xp).max())), wmin)
            if j is not None:
                ctx.fail("C03/inplace.law", "map-differs", "%s: receiver maps %s to %s, the law prescribes %s" % (
                    sig, Xok[j].tolist(), got[j].tolist(), exp[j].tolist()),
                    dict(rp, probe=Xok[j].tolist(), observed=got[j].tolist(), required=exp[j].tolist()))
        except Exception as e:
            ctx.fail("C03/inplace.law", "composite-raises", "applying the receiver raised %s" % type(e).__name__, rp)
    if honest_before and honest(ka, operand.h_matrix, 1e-12 * omag):
        ctx.check(honest(ka, a.h_matrix, 1e-12 * mag), "C03/inplace.honest", "receiver=%s" % BASE.get(ka, ka),
                  "%s leaves a %s whose matrix is not one: %s" % (sig, ka, a.h_matrix.tolist()),
                  dict(rp, receiver_class=ka, receiver_matrix=a.h_matrix.tolist()))
    w.mag[ia], w.magi[ia] = mag, magi
    return ("i",)


# ------------------------------------------------------------------------------------------------ model side

def parse_cell(tokens):
    """tokens of one model cell -> ('F', d, cls, [[Fraction]]) | ('C', refs) | ('D', dims) | ('L', k)"""
    if tokens[0] == "F":
        d = int(tokens[1])
        n = d + 1
        vals = [Fraction(x) for x in tokens[3:3 + n * n]]
        return ("F", d, tokens[2], [vals[i * n:(i + 1) * n] for i in range(n)])
    if tokens[0] in ("C", "D", "B", "I"):
        k = int(tokens[1])
        return (tokens[0], [int(x) for x in tokens[2:2 + k]])
    if tokens[0] == "S":
        return ("S", [None if x == "N" else int(x) for x in tokens[1:4]])
    return ("L", int(tokens[1]))


def cells_agree(impl, model, mag):
    import numpy as np
    if impl[0] != model[0]:
        return False
    if impl[0] == "F":
        if impl[1] != model[1] or impl[2] != model[2]:
            return False
        m = np.array([[float(x) for x in row] for row in model[3]])
        return close_arrays(impl[3], m, mag)
    if impl[0] in ("C", "D", "B", "I", "S"):
        return list(impl[1]) == list(model[1])
    return True


def fmt_cell(c):
    if c[0] == "F":
        return "F %d %s %s" % (c[1], c[2], [[float(x) for x in row] for row in (c[3].tolist() if hasattr(c[3], "tolist") else c[3])])
    return "%s %s" % (c[0], c[1])


def model_line(cid, table_wire, init_cells, stmts):
    return "%s prog %s S %d %s P %d %s" % (cid, table_wire, len(init_cells), " ".join(init_cells),
                                           len(stmts), " ".join(stmt_wire(s) for s in stmts))


def compare_program(ctx, reply, impl_results, impl_final, mags, rp, first_only=True):
    """diff one driver reply against the implementation's observations"""
    if not reply.startswith("ok"):
        ctx.mismatch("prog", "driver could not run the program: %s" % reply[:120], rp)
        return False
    head, _, tail = reply.partition(" # ")
    res = [x.strip() for x in head.split(" | ")[1:]]
    if len(res) != len(impl_results):
        ctx.mismatch("prog", "model executed %d statements, implementation %d" % (len(res), len(impl_results)), rp)
        return False
    good = True
    for k, (mr, ir) in enumerate(zip(res, impl_results)):
        tk = mr.split()
        if tk[0] == "e":
            same = ir[0] == "e" and ir[1] == tk[1]
        elif tk[0] == "r":
            same = ir[0] == "r" and ir[1] == int(tk[1])
        else:
            same = ir[0] == "i"
        if not same:
            ctx.mismatch("prog.statement", "statement %d: model %r vs implementation %r" % (k, " ".join(tk[:4]), ir),
                         dict(rp, failing_statement=k))
            good = False
            if first_only:
                return False
    mcells = [c.strip().split() for c in tail.split(" ; ")] if tail.strip() else []
    if len(mcells) != len(impl_final):
        ctx.mismatch("prog.store", "model store has %d cells, implementation %d" % (len(mcells), len(impl_final)), rp)
        return False
    for i, (mc, ic) in enumerate(zip(mcells, impl_final)):
        pm = parse_cell(mc)
        if not cells_agree(ic, pm, mags[i]):
            ctx.mismatch("prog.store", "object %d: model %s vs implementation %s" % (i, fmt_cell(pm)[:300], fmt_cell(ic)[:300]),
                         dict(rp, object=i))
            good = False
            if first_only:
                return False
    return good


# ------------------------------------------------------------------------------------------------ programs

def kinds_for(d):
    return FAMILY + (OTHERS2 if d == 2 else OTHERS3)


def all_leaves_exact(o, depth=0):
    """is the object built from affine-family members and WithDims only (then the model applies it exactly)?"""
    from menpo.transform import Affine
    if is_chain(o):
        return depth < 40 and all(all_leaves_exact(t, depth + 1) for t in o.transforms)
    return is_withdims(o) or (is_family(o) and isinstance(o, Affine))


def queue_apply_checks(ctx, w, cid, table_wire, rp, aux, limit=2):
    """after a program: the image of one probe point under (up to `limit`) chains / slicers of the final store,
    computed by the model from the final store (`applyc`), and the model's dimension calculus (`dim`), against the
    real apply"""
    import numpy as np
    cands = [i for i, o in enumerate(w.objs) if (is_chain(o) or is_withdims(o)) and all_leaves_exact(o)
             and not any(reaches(t, o) for t in getattr(o, "transforms", []))]
    ctx.rng.shuffle(cands)
    if any(is_family(o) and not np.isfinite(o.h_matrix).all() for o in w.objs):
        ctx.count("skipped:non-finite-matrix-in-store")      # the oracle has judged it; the model has no inf / nan
        return
    cells = " ".join(w.wire_cell(i) for i in range(len(w.objs)))
    for i in cands[:limit]:
        o = w.objs[i]
        n = in_dim(o) if (ctx.rng.random() < 0.8 and in_dim(o)) else ctx.rng.choice([2, 3])
        x = np.array([[float(dy(ctx.rng, 12, 2)) for _ in range(n)]])
        try:
            Y = np.asarray(o.apply(x))
            got = ("ok", Y[0]) if Y.ndim == 2 and Y.shape[0] == 1 else ("raises", "bad-shape%r" % (Y.shape,))
        except Exception as e:
            got = ("raises", type(e).__name__)
        fuel = len(w.objs) + 2
        aid = "%s_ap%d" % (cid, i)
        aux["lines"].append("%s applyc %d %d %d %s %s S %d %s" % (
            aid, fuel, i, n, " ".join(common.fq(v) for v in x[0]), table_wire, len(w.objs), cells))
        aux["lines"].append("%s_dim dim %d %d %d S %d %s" % (aid, fuel, i, n, len(w.objs), cells))
        aux["apply"][aid] = (got, out_dim(o, n), w.mag[i] * (1.0 + float(np.abs(x).max())),
                             dict(rp, object=i, probe=x[0].tolist()))
        ctx.count("chain-apply:%s" % ("defined" if got[0] == "ok" else "undefined"))


def run_program(ctx, recipes, stmts, cid, table_wire, pending, what, aux=None):
    """build the atoms, run the statements on the real objects with the oracle, queue the model line"""
    w = World()
    for r in recipes:
        w.add_atom(r)
    for i, o in enumerate(w.objs):
        if is_family(o) and not honest(kind_of(o), o.h_matrix, 1e-12 * w.mag[i]):
            # a dishonest atom shrinks the coverage silently: on the unchanged tree the generators never build one, so
            # this is an observation that breaks the tie (directed search), not a quiet counter
            ctx.count("generator:dishonest-atom-skipped")
            ctx.mismatch("generator.atom-honest", "the generator's %s atom is not honestly of its class: %s" % (
                kind_of(o), o.h_matrix.tolist()), {"atoms": recipes, "object": i, "what": what})
            return None
    init_cells = [w.wire_cell(i) for i in range(len(w.objs))]
    init_tags = [dtype_tag(o) for o in w.objs]
    X = {n: probe_points(ctx.rng, n) for n in (1, 2, 3, 4)}
    rp = {"atoms": recipes, "statements": [list(s) for s in stmts], "what": what,
          "python": script_of(recipes, stmts)}
    results = []
    for k, s in enumerate(stmts):
        results.append(exec_stmt(ctx, w, s, X, dict(rp, minimal_statements=[list(x) for x in stmts[:k + 1]])))
    final = [w.cell(i) for i in range(len(w.objs))]
    pending.append((cid, model_line(cid, table_wire, init_cells, stmts), results, final, list(w.mag), rp))
    if aux is not None:
        queue_apply_checks(ctx, w, cid, table_wire, rp, aux)
        queue_dtype_check(ctx, w, cid, table_wire, init_cells, init_tags, stmts, rp, aux)
    return w


DTYPES = ("int64", "float32", "float64")


def dtype_tag(o):
    """the model's word for the dtype of the array a family object holds ('-': no family object; None: a dtype the
    model has no word for)"""
    if not is_family(o):
        return "-"
    n = o.h_matrix.dtype.name
    return n if n in DTYPES else None


def queue_dtype_check(ctx, w, cid, table_wire, init_cells, init_tags, stmts, rp, aux):
    """the dtype of every h_matrix after the program, model (`runT`: numpy's promotion, never narrowed) against the
    real arrays.  Programs with an integer-typed or single-precision atom are always compared, the others one in four."""
    final_tags = [dtype_tag(o) for o in w.objs]
    if None in init_tags or None in final_tags:
        ctx.count("dtype-check:skipped-unmodelled-dtype")
        return
    unusual = any(t in ("int64", "float32") for t in init_tags)
    if not unusual and ctx.rng.random() >= 0.25:
        return
    aux["lines"].append("%s_dt dtprog %s S %d %s T %d %s P %d %s" % (
        cid, table_wire, len(init_cells), " ".join(init_cells), len(init_tags), " ".join(init_tags),
        len(stmts), " ".join(stmt_wire(s) for s in stmts)))
    aux.setdefault("dtype", {})[cid + "_dt"] = (init_tags, final_tags, rp)
    ctx.count("dtype-check:%s" % ("unusual-atom" if unusual else "float64-only"))


def gen_vector(rng, o, wrong=False, lenient=False):
    """parameter vector (exact rational strings) for `o.compose_after_from_vector_inplace`: of the documented length
    and describing an honest, invertible member of the class; `wrong`: of another length (for Translation and
    NonUniformScale, whose code lets numpy broadcast / cycle such a vector, only when `lenient`: the direct
    from_vector comparison, which also accepts a refusal - a length check there would be a fix of C05's, not a
    change of composition)"""
    d = o.h_matrix.shape[0] - 1
    base = BASE.get(kind_of(o), kind_of(o))
    if base == "Homogeneous":
        while True:
            bottom = [Fraction(rng.randint(-1, 1), 16) for _ in range(d)] + [Fraction(1)]
            m = hmat(lin_matrix(rng, d), [dy(rng, 4, 1) for _ in range(d)], bottom)
            if abs(det_exact(m)) >= Fraction(1, 4):
                break
        v = [x for row in m for x in row]
    elif base == "Affine":
        m = hmat(lin_matrix(rng, d), [dy(rng, 4, 1) for _ in range(d)])
        v = [m[i][j] - int(i == j) for j in range(d + 1) for i in range(d)]
    elif base == "Similarity":
        if d == 2:
            R = rot_matrix(rng, 2)
            s = rng.choice([Fraction(1, 2), Fraction(3, 2), Fraction(2), Fraction(-1, 2)])
            v = [s * R[0][0] - 1, s * R[1][0], dy(rng, 4, 1), dy(rng, 4, 1)]
        else:
            v = [Fraction(0)] * 7          # 3-D similarities are not vectorisable
    elif base == "Rotation":
        if d == 3:
            while True:
                v = [Fraction(rng.randint(-3, 3), rng.choice([1, 2])) for _ in range(4)]
                if any(v):
                    break
            if rng.random() < 0.05:
                v = [Fraction(0)] * 4      # the zero quaternion leaves the rotation as it is
        else:
            v = [Fraction(1)]              # 2-D rotations are not vectorisable
    elif base == "Translation":
        v = [dy(rng, 8, 1) for _ in range(d)]
    elif base == "UniformScale":
        v = [rng.choice([Fraction(1, 2), Fraction(3, 2), Fraction(2), Fraction(-2), Fraction(3, 4)])]
    else:
        vals = [Fraction(1, 2), Fraction(3, 2), Fraction(2), Fraction(-1), Fraction(3, 4), Fraction(5, 4)]
        rng.shuffle(vals)
        v = vals[:d]
    if (wrong and not (base == "Rotation" and d == 2) and not (base == "Similarity" and d == 3)
            and (lenient or base not in ("Translation", "NonUniformScale"))):
        # another length: refused by most classes; a Translation broadcasts one value and refuses the rest,
        # np.fill_diagonal cycles / truncates the factors of a NonUniformScale
        v = v + [Fraction(3, 2)] if rng.random() < 0.5 or len(v) == 1 else v[:-1]
    return [fs(x) for x in v]


def allowed_stmt(w, op, ia, ib):
    """generator side conditions (documented in INFO): magnitude cap; no chain that would contain itself (the
    self-containing case has its own battery)"""
    a, b = w.objs[ia], w.objs[ib]
    if w.mag[ia] * w.mag[ib] > MAG_CAP or w.magi[ia] * w.magi[ib] > MAG_CAP:
        return False
    if OPS[op][2] and is_chain(a) and reaches(b, a):
        return False
    return True


def typed_pair(w, op, ia, ib):
    a, b = w.objs[ia], w.objs[ib]
    first, second = (a, b) if OPS[op][1] == "before" else (b, a)
    return out_dim(second, out_dim(first, in_dim(first))) is not None


def gen_program(ctx, d, n_atoms, n_stmts, inplace_bias=0.4, mixed=False, fv_bias=0.08):
    """random store + statements (statements are chosen while executing a scratch copy, so that the side
    conditions can look at the objects).  `mixed`: atoms of both dimensions and dimension-changing WithDims; then
    nine of ten statements are chosen among the well-typed ones."""
    rng = ctx.rng
    recipes = []
    for i in range(n_atoms):
        di = d if not mixed else rng.choice([2, 3])
        kinds = kinds_for(di)
        k = rng.choice(kinds if (i > 0) else FAMILY)
        if mixed and i > 0 and rng.random() < 0.3:
            k = "WithDims"
        if k == "TransformChain" and i == 0:
            k = "Affine"
        recipes.append(with_life(rng, gen_atom(rng, k, di, n_existing=i)))
    # scratch world to choose admissible statements
    w = World()
    for r in recipes:
        w.add_atom(r)
    stmts = []
    import warnings
    tries = 0
    while len(stmts) < n_stmts and tries < 120:
        tries += 1
        ia = rng.randrange(len(w.objs))
        a = w.objs[ia]
        if is_family(a) and rng.random() < fv_bias:
            v = gen_vector(rng, a, wrong=rng.random() < 0.15)
            stmts.append(("fv", ia, v))
            try:
                with warnings.catch_warnings():
                    warnings.simplefilter("ignore")
                    import numpy as np
                    opnd = a.from_vector(np.array([ff(x) for x in v]))
                    a.compose_after_from_vector_inplace(np.array([ff(x) for x in v]))
                    m, mi = w.atom_mag(opnd)
                    w.mag[ia], w.magi[ia] = w.mag[ia] * m, w.magi[ia] * mi
            except Exception:
                pass
            continue
        op = rng.choice(["cbi", "cai"]) if rng.random() < inplace_bias else rng.choice(["cb", "ca"])
        ib = rng.randrange(len(w.objs))
        if OPS[op][2] and not (is_family(a) or is_chain(a)) and rng.random() < 0.8:
            continue
        if not allowed_stmt(w, op, ia, ib):
            continue
        if mixed and not typed_pair(w, op, ia, ib) and rng.random() < 0.9:
            continue
        stmts.append((op, ia, ib))
        try:
            with warnings.catch_warnings():
                warnings.simplefilter("ignore")
                res = getattr(a, OPS[op][0])(w.objs[ib])
            if not OPS[op][2]:
                w.add(res, mag=w.mag[ia] * w.mag[ib], magi=w.magi[ia] * w.magi[ib])
            else:
                w.mag[ia], w.magi[ia] = w.mag[ia] * w.mag[ib], w.magi[ia] * w.magi[ib]
        except Exception:
            pass
    return recipes, stmts


def integral_atom(rng, kind, d):
    """Homogeneous / Affine / Similarity with an integer-valued, invertible matrix (exact in int64 and float32)"""
    S = lambda rows: [[fs(x) for x in row] for row in rows]
    one = lambda i, j: Fraction(int(i == j))
    if kind == "Similarity":
        # signed permutation of determinant +1 times an integer scale
        R = [[one(i, j) for j in range(d)] for i in range(d)]
        for _ in range(rng.randint(1, 3)):
            i, j = rng.sample(range(d), 2)           # quarter turn in the (i, j) plane
            Q = [[one(a, b) for b in range(d)] for a in range(d)]
            Q[i][i], Q[j][j], Q[i][j], Q[j][i] = Fraction(0), Fraction(0), Fraction(-1), Fraction(1)
            R = [[sum(Q[a][k] * R[k][b] for k in range(d)) for b in range(d)] for a in range(d)]
        sc = rng.choice([1, 2, -2, 3])
        lin = [[sc * x for x in row] for row in R]
        bottom = None
    else:
        while True:
            lo = [[one(i, j) if i <= j else Fraction(rng.randint(-2, 2)) for j in range(d)] for i in range(d)]
            up = [[one(i, j) if i >= j else Fraction(rng.randint(-2, 2)) for j in range(d)] for i in range(d)]
            dg = [Fraction(rng.choice([1, -1, 2, -2, 3])) for _ in range(d)]
            lin = [[sum(lo[i][k] * dg[k] * up[k][j] for k in range(d)) for j in range(d)] for i in range(d)]
            bottom = None
            if kind == "Homogeneous":
                bottom = [Fraction(rng.randint(-1, 1)) for _ in range(d)] + [Fraction(1)]
                if not any(bottom[:d]):
                    bottom[0] = Fraction(1)
            m = hmat(lin, [Fraction(rng.randint(-4, 4)) for _ in range(d)], bottom)
            if abs(det_exact(m)) >= 1:
                return {"k": kind, "d": d, "M": S(m)}
    return {"k": kind, "d": d, "M": S(hmat(lin, [Fraction(rng.randint(-4, 4)) for _ in range(d)], bottom))}


def identity_atom(rng, kind, d):
    """the identity map as a member of the class (all parameters zero): nothing it is composed with may change"""
    S = lambda rows: [[fs(x) for x in row] for row in rows]
    eye = [[Fraction(int(i == j)) for j in range(d)] for i in range(d)]
    r = {"k": kind, "d": d}
    if kind in ("Homogeneous", "Affine", "Similarity"):
        r["M"] = S(hmat(eye, [Fraction(0)] * d))
    elif kind == "Rotation":
        r["R"] = S(eye)
    elif kind == "Translation":
        r["t"] = ["0"] * d
    elif kind == "UniformScale":
        r["s"] = "1"
    elif kind == "NonUniformScale":
        r["v"] = ["1"] * d
    else:
        src = cloud(rng, d)
        r["src"], r["tgt"] = S(src), S(src)
    return r


def dtype_battery(ctx, d, table_wire, pending, tag, aux=None):
    """operands whose h_matrix is integer typed, float32, Fortran ordered or a non-contiguous view the object keeps
    (integer-valued matrices: every product is exact in each of these types): all four calls with an ordinary
    partner in both positions, with itself, and the vector entry point"""
    rng = ctx.rng
    n = 0
    for ka in ("Homogeneous", "Affine", "Similarity"):
        for life in ("int", "f32", "fortran", "view"):
            kb = rng.choice(FAMILY)
            recipes = [dict(integral_atom(rng, ka, d), life=life), gen_atom(rng, kb, d),
                       dict(integral_atom(rng, ka, d), life=rng.choice(["int", "f32", "fortran", "view"]))]
            a = build(recipes[0], [])
            stmts = [("cb", 0, 1), ("ca", 0, 1), ("cb", 1, 0), ("cb", 0, 0), ("cb", 0, 2), (rng.choice(["cbi", "cai"]), 0, 2),
                     ("ca", 2, 0), (rng.choice(["cbi", "cai"]), 0, 1), (rng.choice(["cbi", "cai"]), 1, 0),
                     ("fv", 2, gen_vector(rng, a)), ("cb", 2, 1)]
            cid = "%s%d_%d" % (tag, d, n)
            n += 1
            w = run_program(ctx, recipes, stmts, cid, table_wire, pending, "dtype / memory layout battery (%s)" % life, aux)
            if w is None:
                continue
            for st in stmts:
                ctx.count("dtype:%s" % life)
                ctx.case(("dtype", d, life, ka, kb, json.dumps(st), json.dumps(recipes, sort_keys=True)), nontrivial=True,
                         sample={"d": d, "h_matrix": life, "call": "%s %s" % (ka, st[0])})


def alias_battery(ctx, d, table_wire, pending, tag, aux=None):
    """operands that are one and the same object, and chains that hold one member twice: a.compose_before(a),
    a.compose_after(a), in place with itself (the own class always passes the gate), a chain composed with itself
    (not in place), a chain gaining a member it already holds; the in-place edits are seen through every position"""
    rng = ctx.rng
    n = 0
    for ka in FAMILY:
        recipes = [gen_atom(rng, ka, d), gen_atom(rng, rng.choice(FAMILY[1:7]), d),
                   {"k": "TransformChain", "d": d, "members": [0, 0]},
                   {"k": "TransformChain", "d": d, "members": [0, 1, 0]}]
        stmts = [("cb", 0, 0), ("ca", 0, 0), (rng.choice(["cbi", "cai"]), 0, 0), ("cb", 2, 2), ("cbi", 3, 0), ("cai", 3, 1),
                 ("ca", 0, 4), ("cb", 2, 0), (rng.choice(["cbi", "cai"]), 1, 1), ("ca", 3, 3)]
        cid = "%s%d_%d" % (tag, d, n)
        n += 1
        w = run_program(ctx, recipes, stmts, cid, table_wire, pending, "same object as both operands / member held twice", aux)
        if w is None:
            continue
        for st in stmts:
            ctx.count("alias:%s" % st[0])
            ctx.case(("alias", d, ka, json.dumps(st), json.dumps(recipes, sort_keys=True)), nontrivial=True,
                     sample={"d": d, "alias": "%s %s with itself / chain [a, a]" % (ka, st[0])})


def identity_battery(ctx, d, table_wire, pending, tag, aux=None):
    """the identity as a member of every class (zero parameters), in every position of every call (trivial cases by
    the rule of the evidence: one operand is the identity map)"""
    rng = ctx.rng
    n = 0
    for ka in FAMILY:
        kb = rng.choice(FAMILY)
        recipes = [identity_atom(rng, ka, d), gen_atom(rng, kb, d), identity_atom(rng, rng.choice(FAMILY), d),
                   {"k": "TransformChain", "d": d, "members": [0, 1]}]
        stmts = [("cb", 0, 1), ("ca", 0, 1), ("cb", 1, 0), ("ca", 1, 0), ("cb", 0, 2), ("cb", 0, 0),
                 (rng.choice(["cbi", "cai"]), 0, 2), (rng.choice(["cbi", "cai"]), 1, 0), (rng.choice(["cbi", "cai"]), 0, 1),
                 ("cb", 3, 0), ("cbi", 3, 2)]
        cid = "%s%d_%d" % (tag, d, n)
        n += 1
        w = run_program(ctx, recipes, stmts, cid, table_wire, pending, "identity operands", aux)
        if w is None:
            continue
        for st in stmts:
            ctx.count("identity:%s" % st[0])
            ctx.case(("identity", d, ka, kb, json.dumps(st), json.dumps(recipes, sort_keys=True)), nontrivial=False)


def pair_battery(ctx, d, table_wire, pending, tag, aux=None):
    """all ordered pairs of kinds, both directions, non-in-place and in-place, fresh atoms per statement"""
    rng = ctx.rng
    kinds = kinds_for(d)
    n = 0
    for ka in kinds:
        for kb in kinds:
            for op in ("cb", "ca", "cbi", "cai"):
                if OPS[op][2] and ka not in FAMILY and ka != "TransformChain":
                    if rng.random() < 0.75:   # a plain Transform has no in-place method: sample a few
                        continue
                recipes = []
                for k in (ka, kb):
                    if k == "TransformChain":
                        recipes.append(gen_atom(rng, rng.choice(FAMILY[:7]), d))
                        recipes.append(gen_atom(rng, "TransformChain", d, chainable=[len(recipes) - 1]))
                    else:
                        recipes.append(with_life(rng, gen_atom(rng, k, d), 0.2))
                ia = 1 if ka == "TransformChain" else 0
                ib = len(recipes) - 1
                cid = "%s%d_%d" % (tag, d, n)
                n += 1
                run_program(ctx, recipes, [(op, ia, ib)], cid, table_wire, pending, "pair battery", aux)
                ctx.count("pair:%s" % op)
                ctx.count("dim:%d" % d)
                ctx.case(("pair", d, op, ka, kb, json.dumps(recipes, sort_keys=True)), nontrivial=True,
                         sample={"d": d, "call": "%s.%s(%s)" % (ka, OPS[op][0], kb)})


def cross_dimension_battery(ctx, table_wire, pending, tag, aux):
    """every family class in 3-D with every family class in 2-D: directly (ill-typed: np.dot refuses, in-place and
    not, nothing changes) and through a dimension-changing WithDims (a chain typed 3 -> 2); and the reverse through an
    embedding WithDims (2 -> 3)"""
    rng = ctx.rng
    n = 0
    for ka in FAMILY:
        for kb in rng.sample(FAMILY, 4):
            up = rng.random() < 0.3
            da, db = (2, 3) if up else (3, 2)
            dims = rng.choice([[0, 1, 0], [1, 1, 0], [1, 0, 1]]) if up else rng.choice([[0, 1], [0, 2], [2, 1], [1, 0]])
            recipes = [with_life(rng, gen_atom(rng, ka, da), 0.2), respell(rng, dims, da),
                       with_life(rng, gen_atom(rng, kb, db), 0.2)]
            op = rng.choice(["cb", "ca"])
            opi = rng.choice(["cbi", "cai"])
            if op == "cb":
                stmts = [("cb", 0, 2), (opi, 0, 2), ("cb", 0, 1), ("cb", 3, 2), ("ca", 2, 3), ("cbi", 3, 2)]
            else:
                stmts = [("ca", 2, 0), (opi, 2, 0), ("ca", 1, 0), ("ca", 2, 3), ("cb", 3, 2), ("cai", 3, 0)]
            cid = "%s_%d" % (tag, n)
            n += 1
            w = run_program(ctx, recipes, stmts, cid, table_wire, pending, "cross-dimension battery", aux)
            if w is None:
                continue
            for st in stmts:
                ctx.count("cross:%s" % st[0])
                ctx.case(("cross", st, ka, kb, json.dumps(recipes, sort_keys=True)), nontrivial=True,
                         sample={"call": "%s(%d-D) %s WithDims%r %s(%d-D)" % (ka, da, st[0], dims, kb, db)})


def fromvector_battery(ctx, d, table_wire, pending, tag):
    """compose_after_from_vector_inplace on every family class: a proper vector, then a second proper vector, then a
    vector of the wrong length, then non-in-place calls on the receiver"""
    rng = ctx.rng
    n = 0
    for ka in FAMILY:
        kc = rng.choice(FAMILY)
        recipes = [with_life(rng, gen_atom(rng, ka, d)), gen_atom(rng, kc, d)]
        a = build(recipes[0], [])
        stmts = [("fv", 0, gen_vector(rng, a)), ("fv", 0, gen_vector(rng, a)), ("fv", 0, gen_vector(rng, a, wrong=True)),
                 ("cb", 0, 1), ("ca", 0, 1), ("fv", 1, gen_vector(rng, build(recipes[1], [])))]
        cid = "%s%d_%d" % (tag, d, n)
        n += 1
        w = run_program(ctx, recipes, stmts, cid, table_wire, pending, "from-vector battery")
        if w is None:
            continue
        for st in stmts:
            ctx.count("fromvector:%s" % st[0])
            ctx.count("dim:%d" % d)
            ctx.case(("fromvector", d, st[0], ka, kc, json.dumps(st[2]) if st[0] == "fv" else st[2],
                      json.dumps(recipes, sort_keys=True)), nontrivial=True,
                     sample={"d": d, "call": "%s.compose_after_from_vector_inplace" % ka})


def sequel_battery(ctx, d, table_wire, pending, tag):
    """every family receiver after an in-place call with every family operand (accepted or refused), then
    composed non-in-place in all four positions with a third object of the receiver's own class (the ladder's
    `as_non_alignment()` / `copy()` branch) and with a random family member"""
    rng = ctx.rng
    n = 0
    for ka in FAMILY:
        for kb in FAMILY:
            op = rng.choice(["cbi", "cai"])
            kc = rng.choice(FAMILY)
            recipes = [gen_atom(rng, ka, d), gen_atom(rng, kb, d), gen_atom(rng, ka, d), gen_atom(rng, kc, d)]
            stmts = [(op, 0, 1), ("cb", 0, 2), ("ca", 0, 2), ("cb", 2, 0), ("ca", 3, 0), ("cb", 0, 3)]
            cid = "%s%d_%d" % (tag, d, n)
            n += 1
            w = run_program(ctx, recipes, stmts, cid, table_wire, pending, "in-place call, then non-in-place calls")
            if w is None:
                continue
            for st in stmts:
                ctx.count("sequel:%s" % st[0])
                ctx.count("dim:%d" % d)
                ctx.case(("sequel", d, st, ka, kb, kc, json.dumps(recipes, sort_keys=True)), nontrivial=True)


def nested_chain_battery(ctx, table_wire, pending, tag, aux):
    """chains of chains: composing with a chain operand makes it ONE member (no flattening), later in-place edits of
    the nested chain and of its members are seen through every chain that holds it"""
    rng = ctx.rng
    for n in range(ctx.n(12, 80)):
        d = rng.choice([2, 3])
        ks = [rng.choice(FAMILY[1:7]) for _ in range(4)]
        recipes = [gen_atom(rng, k, d) for k in ks]
        recipes.append({"k": "TransformChain", "d": d, "members": [0, 1]})        # 4
        recipes.append({"k": "TransformChain", "d": d, "members": [4, 2]})        # 5 holds chain 4
        op1, op2 = rng.choice(["cb", "ca"]), rng.choice(["cbi", "cai"])
        stmts = [(op1, 5, 4),            # 6: chain [4, 2, 4] / [4, 4, 2]: the operand chain is one member
                 (op1, 3, 5),            # 7: family with chain -> [3, 5] / [5, 3]
                 (op2, 4, 3),            # edit the innermost chain in place: seen through 5, 6, 7
                 (rng.choice(["cbi", "cai"]), 0, 0),     # a member composed with itself in place: seen through all
                 (op2, 6, 7),            # chain gains a chain that holds chains
                 ("cb", 6, 6)]           # non-in-place with itself: fine, a new chain [.., 6]
        cid = "%s_%d" % (tag, n)
        w = run_program(ctx, recipes, stmts, cid, table_wire, pending, "nested chains", aux)
        if w is None:
            continue
        for st in stmts:
            ctx.count("nested:%s" % st[0])
            ctx.case(("nested", d, st, json.dumps(recipes, sort_keys=True)), nontrivial=True,
                     sample={"d": d, "nested": "chain of chains, %s then %s" % (op1, op2)})


def self_containing_battery(ctx, table_wire, aux):
    """in-place composition of a chain with an operand that contains the chain (itself, or a chain holding it): the
    call is accepted (the code appends to a list); afterwards the chain denotes nothing - apply recurses until
    RecursionError - which is exactly what the model says (`inplace_chain_exact`): no denotation at any fuel, the store
    is no longer acyclic.  The control (operand does not contain the receiver) keeps denoting."""
    import numpy as np
    rng = ctx.rng
    for n in range(ctx.n(10, 60)):
        d = rng.choice([2, 3])
        t = gen_atom(rng, "Translation", d)
        u = gen_atom(rng, rng.choice(["Translation", "Rotation"]), d)
        variant = rng.choice(["self", "via-holder", "control"])
        op = rng.choice(["cbi", "cai"])
        recipes = [t, u, {"k": "TransformChain", "d": d, "members": [0]},      # 2 = the receiver
                   {"k": "TransformChain", "d": d, "members": [1, 2]}]          # 3 holds the receiver
        ib = {"self": 2, "via-holder": 3, "control": 1}[variant]
        w = World()
        for r in recipes:
            w.add_atom(r)
        init = " ".join(w.wire_cell(i) for i in range(4))
        rp = {"atoms": recipes, "statements": [[op, 2, ib]], "what": "self-containing chain (%s)" % variant,
              "python": script_of(recipes, [(op, 2, ib)]) + "\no[2].apply(np.zeros((1, %d)))" % d}
        before = [digest(o) for o in w.objs]
        try:
            getattr(w.objs[2], OPS[op][0])(w.objs[ib])
            err = None
        except Exception as e:
            err = error_kind(e)
        after = [digest(o) for o in w.objs]
        ctx.check(err is None, "C03/inplace.raises", str(err), "in-place composition on a chain raised %s" % err, rp)
        ctx.check([i for i in range(4) if before[i] != after[i]] in ([2], []), "C03/inplace.operand-intact",
                  "object-changed", "in-place composition on a chain changed another object", rp)
        observed = {}
        for i in (2, 3):
            try:
                w.objs[i].apply(np.zeros((1, d)))
                observed[i] = "ok"
            except RecursionError:
                observed[i] = "recursion"
            except Exception as e:
                observed[i] = type(e).__name__
        cid = "sc%d" % n
        final = " ".join(w.wire_cell(i) for i in range(4))
        aux["lines"].append("%s prog %s S 4 %s P 1 %s" % (cid, table_wire, init, stmt_wire((op, 2, ib))))
        for i in (2, 3):
            aux["lines"].append("%s_f%d flat 40 %d S 4 %s" % (cid, i, i, final))
        aux["selfc"][cid] = (variant, observed, [w.cell(i) for i in range(4)], rp)
        ctx.case(("selfc", d, variant, op, json.dumps(recipes, sort_keys=True)), nontrivial=True,
                 sample={"d": d, "self-containing": variant})
        ctx.count("selfc:" + variant)


def random_programs(ctx, n, wires, pending, tag, long=False, inplace_bias=0.4, aux=None):
    rng = ctx.rng
    for k in range(n):
        d = 2 if rng.random() < 0.6 else 3
        mixed = rng.random() < 0.3
        n_atoms = rng.randint(3, 7)
        n_stmts = rng.randint(2, 16 if long else 8)
        recipes, stmts = gen_program(ctx, d, n_atoms, n_stmts, inplace_bias, mixed=mixed)
        if not stmts:
            continue
        cid = "%s%d" % (tag, k)
        w = run_program(ctx, recipes, stmts, cid, wires[d], pending, "random program" + (" (mixed dimensions)" if mixed else ""), aux)
        if w is None:
            continue
        for s in stmts:
            op, ia = s[0], s[1]
            ctx.count("prog:%s" % op)
            ctx.count("dim:%s" % ("mixed" if mixed else d))
            kb = "vector" if op == "fv" else kind_of(w.objs[s[2]])
            ctx.case(("prog", d, op, kind_of(w.objs[ia]), kb, cid, json.dumps(recipes, sort_keys=True)),
                     nontrivial=True,
                     sample={"d": "mixed" if mixed else d, "statements": len(stmts), "first": stmt_wire(stmts[0])})
        ctx.count("programs")


# ------------------------------------------------------------------------------------------------ apply / from_vector / decompose

def apply_cases(ctx, n, wires, lines, expect):
    """`applyHT` of the model (method resolution between Affine._apply and Homogeneous._apply) vs the real apply"""
    import numpy as np
    rng = ctx.rng
    for k in range(n):
        d = rng.choice([2, 3])
        kind = rng.choice(FAMILY)
        r = with_life(rng, gen_atom(rng, kind, d))
        o = build(r, [])
        x = np.array([[float(dy(rng, 12, 2)) for _ in range(d)]])
        if is_projective(o):
            w = np.hstack([x, [[1.0]]]).dot(o.h_matrix.T)[0, -1]
            if abs(w) < 1e-2:
                continue
        y = o.apply(x)[0]
        cid = "ap%d" % k
        lines.append("%s apply %d %s %s %s %s" % (cid, d, wires[d], kind,
                                                 " ".join(common.fq(float(v)) for v in o.h_matrix.ravel()),
                                                 " ".join(common.fq(v) for v in x[0])))
        expect[cid] = (y, float(np.abs(o.h_matrix).sum()), {"d": d, "atom": r, "x": x[0].tolist(), "apply": y.tolist()})
        ctx.case(("apply", d, kind, json.dumps(r, sort_keys=True)), nontrivial=True)
        ctx.count("apply:" + kind)


def fromvec_cases(ctx, n, lines, expect):
    """the matrix `self.from_vector(v)` holds (operand of compose_after_from_vector_inplace) and the error kinds for
    vectors of another length, model vs implementation"""
    import numpy as np
    rng = ctx.rng
    for k in range(n):
        d = rng.choice([2, 3])
        kind = rng.choice(FAMILY)
        r = gen_atom(rng, kind, d)
        o = build(r, [])
        wrong = rng.random() < 0.25
        vs = gen_vector(rng, o, wrong=wrong, lenient=True)
        v = np.array([ff(x) for x in vs])
        h0 = o.h_matrix.copy()
        try:
            m = np.asarray(o.from_vector(v).h_matrix, dtype=float)
            got = ("ok", m)
        except Exception as e:
            got = ("e", error_kind(e))
        rp = {"d": d, "atom": r, "vector": vs,
              "python": "import sys; sys.path[:0]=['/verif', %r]\nimport numpy as np\nfrom harness import c03\n"
              "t = c03.build(%s, [])\nt.from_vector(np.array(%r))" % (common.REPO, json.dumps(r), [ff(x) for x in vs])}
        ctx.check(np.array_equal(o.h_matrix, h0), "C03/fromvector.operand-intact", "receiver-changed",
                  "from_vector changed the %s it was called on" % kind, rp)
        if got[0] == "ok" and got[1].shape != h0.shape:
            # an Affine / Similarity given the parameter count of the other dimension silently changes dimension;
            # the model reports the vector as of the wrong length (the composition then raises, see the programs)
            got = ("e", "shape")
        cid = "fv%d" % k
        lines.append("%s fromvec %d %s %s %d %s" % (cid, d, kind, " ".join(common.fq(float(x)) for x in h0.ravel()),
                                                   len(vs), " ".join(vs)))
        lenient = wrong and BASE.get(kind, kind) in ("Translation", "NonUniformScale")
        expect[cid] = (got, float(np.abs(h0).sum()) + float(np.abs(v).sum()) + 1.0, dict(rp, lenient=lenient))
        ctx.case(("fromvec", d, kind, len(vs), json.dumps(r, sort_keys=True)), nontrivial=True)
        ctx.count("fromvec:%s" % (got[0] if got[0] == "ok" else got[1]))


def decompose_cases(ctx, n, lines, expect):
    """Affine.decompose(): oracle (chain of the pieces = the affine; fold of compose_before = the matrix; every piece
    is honestly of the class it reports; receiver untouched), the SVD contract checked numerically, and the model of
    the decomposition structure under numpy's SVD factors.  Four of ten transforms have been decomposed / printed
    before and then composed in place with a translation (so that a stale decomposition would show)."""
    import numpy as np
    from functools import reduce
    from menpo.transform import TransformChain, Translation
    rng = ctx.rng
    done = 0
    for k in range(n * 3):
        if done >= n:
            break
        d = rng.choice([2, 3])
        kind = rng.choice(["Affine", "Affine", "Similarity", "AlignmentAffine", "AlignmentSimilarity", "Rotation",
                           "Translation", "UniformScale", "NonUniformScale", "AlignmentRotation",
                           "AlignmentTranslation", "AlignmentUniformScale"])
        r = with_life(rng, gen_atom(rng, kind, d))
        o = build(r, [])
        site = "C03/decompose"
        history = None
        py = ("import sys; sys.path[:0]=['/verif', %r]\nimport numpy as np\nfrom harness import c03\n"
              "from menpo.transform import Translation\nt = c03.build(%s, [])\n" % (common.REPO, json.dumps(r)))
        discrete = BASE.get(kind, kind) in ("Rotation", "Translation", "UniformScale", "NonUniformScale")
        if not discrete and rng.random() < 0.4:
            tv = [float(dy(rng, 8, 1, nonzero=True)) for _ in range(d)]
            history = [rng.choice(["decompose", "str"]), rng.choice(["compose_before_inplace", "compose_after_inplace"]), tv]
            try:
                o.decompose() if history[0] == "decompose" else str(o)
            except Exception as e:
                if history[0] == "decompose":       # "the decomposition of an affine transform recomposes to it": it exists
                    ctx.fail(site, "raises", "decompose of %s raised %s" % (kind, type(e).__name__),
                             {"d": d, "atom": r, "history": history})
                else:                               # printing is not a clause of the property
                    ctx.count("note:str-raises (not judged)")
                continue
            try:
                getattr(o, history[1])(Translation(np.array(tv)))
            except Exception as e:                  # an affine-family object composes in place with a Translation
                ctx.fail("C03/inplace.raises", error_kind(e), "%s(%s) raised %s after %s" % (
                    history[1], "Translation", type(e).__name__, history[0]), {"d": d, "atom": r, "history": history})
                continue
            py += "t.%s\nt.%s(Translation(np.array(%r)))\n" % ("decompose()" if history[0] == "decompose" else "__str__()",
                                                              history[1], tv)
        rp = {"d": d, "atom": r, "history": history, "python": py + "pieces = t.decompose()"}
        if not discrete:
            U, S, V = np.linalg.svd(o.linear_component)
            diffs = np.abs(S - S[0])
            uniform_clear = bool((diffs <= 1e-9 * abs(S[0])).all())
            nonuniform_clear = bool((diffs >= 1e-3 * abs(S[0])).any())
            if not (uniform_clear or nonuniform_clear) or S.min() < 1e-3:
                ctx.count("decompose:tie-skipped")
                continue
        before = digest(o)
        h0 = o.h_matrix.copy()
        try:
            pieces = o.decompose()
        except Exception as e:
            ctx.fail(site, "raises", "decompose of %s raised %s" % (kind, type(e).__name__), rp)
            continue
        done += 1
        X = probe_points(rng, d)
        mag = max(1.0, float(np.abs(h0).sum())) ** 2
        want = o.apply(X)
        got = TransformChain(list(pieces)).apply(X)
        ctx.check(close_arrays(got, want, mag), site, "chain-differs",
                  "the chain of decompose() of a %s does not map like the transform" % kind, rp)
        folded = reduce(lambda x, y: x.compose_before(y), pieces)
        ctx.check(is_family(folded) and close_arrays(folded.h_matrix, h0, mag), site, "fold-differs",
                  "composing the pieces of decompose() of a %s gives %s" % (
                      kind, folded.h_matrix.tolist() if is_family(folded) else kind_of(folded)), rp)
        ctx.check(digest(o) == before, site, "receiver-changed", "decompose() changed the %s" % kind, rp)
        ctx.check(all(p is not o for p in pieces), site, "aliases-receiver", "decompose() returned the object itself", rp)
        # honesty of the PIECES is not a clause of the text ("the decomposition ... recomposes to it"; honesty is claimed
        # for the result of a composition - which the fold above is, and `folded` is judged like every composite below).
        # A dishonest piece is therefore an observation that sends the check into the directed search, not a failure.
        for p in pieces:
            if not (is_family(p) and honest(kind_of(p), p.h_matrix, 1e-12 * mag)):
                ctx.mismatch("decompose.piece-honest", "decompose() of a %s returned a %s whose matrix is not one: %s" % (
                    kind, kind_of(p), p.h_matrix.tolist()), dict(rp, piece=kind_of(p), piece_matrix=p.h_matrix.tolist()))
        if is_family(folded) and all(is_family(p) and honest(kind_of(p), p.h_matrix, 1e-12 * mag) for p in pieces):
            ctx.check(honest(kind_of(folded), folded.h_matrix, 1e-12 * mag), "C03/compose.honest", "class=" + kind_of(folded),
                      "the pieces of decompose() of a %s composed with compose_before report %s but the matrix is not one"
                      % (kind, kind_of(folded)), rp)
        ctx.case(("decompose", d, kind, json.dumps(history), json.dumps(r, sort_keys=True)), nontrivial=True,
                 sample={"d": d, "decompose": kind, "pieces": [kind_of(p) for p in pieces], "history": history})
        ctx.count("decompose:" + kind)
        if history:
            ctx.count("decompose:after-history")
        if discrete:
            continue
        # contract of the external routine, checked numerically: L = U diag(s) V, U and V orthogonal, s > 0
        ctx.check(close_arrays(U.dot(np.diag(S)).dot(V), o.linear_component, mag), "C03/contract.svd", "usv",
                  "numpy's svd factors do not multiply back to the linear component", rp)
        ctx.check(close_arrays(U.T.dot(U), np.eye(d), 1.0) and close_arrays(V.T.dot(V), np.eye(d), 1.0)
                  and bool((S > 0).all()), "C03/contract.svd", "orthogonal-positive",
                  "numpy's svd factors are not orthogonal / the singular values not positive", rp)
        # the sign bookkeeping of `decompose_reflection`
        dl, du, dv = (float(np.linalg.det(m)) for m in (o.linear_component, U, V))
        ctx.check((dl < 0) == (du * dv < 0), "C03/contract.svd", "det-sign",
                  "det U * det V has not the sign of det L", rp)
        ctx.count("decompose:pieces-%s" % ("one-improper" if du * dv < 0 else "both-proper-or-both-improper"))
        cid = "dc%d" % k
        lines.append("%s decomp %d %d %s %s %s %s" % (
            cid, d, 1 if uniform_clear else 0, " ".join(common.fq(v) for v in U.ravel()),
            " ".join(common.fq(v) for v in V.ravel()), " ".join(common.fq(v) for v in S),
            " ".join(common.fq(float(v)) for v in o.translation_component)))
        expect[cid] = ([(kind_of(p), p.h_matrix.copy()) for p in pieces], h0, mag, rp)


def ctor_error_kind(e):
    """the model's word for what a constructor raised: ValueError (menpo's own or numpy's) = shape, a call with the
    wrong arguments (TypeError) = noMethod"""
    if isinstance(e, ValueError):
        return "shape"
    if isinstance(e, (TypeError, AttributeError)):
        return "noMethod"
    return "other:" + type(e).__name__


def ctor_cases(ctx, n, lines, expect):
    """the constructors of the seven non-alignment classes against the model's `ctorMat` / `ctorRotation` /
    `ctorTranslation` / `ctorUniformScale` / `ctorNonUniformScale`: dimensions 1 to 4, checks on and off, matrices
    with an exact, a slightly off (1e-10: within numpy's tolerance) and a clearly wrong bottom row, square matrices
    that are no rotations, scale factors that are zero — which arguments are refused, and what an accepted object holds"""
    import numpy as np
    import menpo.transform as mt
    rng = ctx.rng
    for k in range(n):
        kind = rng.choice(["mat", "mat", "mat", "rot", "trans", "uscale", "nuscale"])
        d = rng.choice([1, 2, 2, 3, 3, 4])
        skip = rng.random() < 0.3
        cid = "ct%d" % k
        rp = {"kind": kind, "d": d, "skip_checks": skip}
        try_call = None
        if kind == "mat":
            cls = rng.choice(["Homogeneous", "Affine", "Similarity"])
            lin = lin_matrix(rng, d)
            t = [dy(rng, 8, 1) for _ in range(d)]
            bottom = [Fraction(0)] * d + [Fraction(1)]
            variant = rng.choice(["exact", "exact", "tiny", "wrong", "wrong-corner", "projective"])
            j = rng.randrange(d)
            if variant == "tiny":
                bottom[j] = Fraction(1, 10 ** 10)
            elif variant == "wrong":
                bottom[j] = Fraction(rng.choice([1, -1, 2]), rng.choice([1, 4, 1000]))
            elif variant == "wrong-corner":
                bottom[d] = Fraction(rng.choice([0, 2, 3]), rng.choice([1, 2])) if rng.random() < 0.8 else Fraction(1001, 1000)
            elif variant == "projective":
                bottom = [Fraction(rng.randint(-2, 2), 16) for _ in range(d)] + [Fraction(1)]
            M = np.array([[float(x) for x in row] for row in hmat(lin, t, bottom)])
            rp.update(cls=cls, matrix=M.tolist(), bottom_row=variant)
            lines.append("%s ctor mat %d %s %d %s" % (cid, d, cls, int(skip), " ".join(common.fq(float(x)) for x in M.ravel())))
            try_call = lambda: getattr(mt, cls)(M, skip_checks=skip)
            py = "menpo.transform.%s(np.array(%r), skip_checks=%r)" % (cls, M.tolist(), skip)
        elif kind == "rot":
            R = np.array([[float(x) for x in row] for row in (rot_matrix(rng, d) if d in (2, 3) and rng.random() < 0.5
                                                                else lin_matrix(rng, d))])
            rp.update(matrix=R.tolist())
            lines.append("%s ctor rot %d %d %s" % (cid, d, int(skip), " ".join(common.fq(float(x)) for x in R.ravel())))
            try_call = lambda: mt.Rotation(R, skip_checks=skip)
            py = "menpo.transform.Rotation(np.array(%r), skip_checks=%r)" % (R.tolist(), skip)
        elif kind == "trans":
            t = np.array([float(dy(rng, 8, 1)) for _ in range(d)])
            rp.update(vector=t.tolist())
            lines.append("%s ctor trans %d %d %s" % (cid, d, int(skip), " ".join(common.fq(float(x)) for x in t)))
            try_call = lambda: mt.Translation(t, skip_checks=skip)
            py = "menpo.transform.Translation(np.array(%r), skip_checks=%r)" % (t.tolist(), skip)
        elif kind == "uscale":
            sc = float(rng.choice([Fraction(1, 2), Fraction(3, 2), Fraction(2), Fraction(-2), Fraction(0), Fraction(1)]))
            rp.update(scale=sc)
            lines.append("%s ctor uscale %d %d %s" % (cid, d, int(skip), common.fq(sc)))
            try_call = lambda: mt.UniformScale(sc, d, skip_checks=skip)
            py = "menpo.transform.UniformScale(%r, %d, skip_checks=%r)" % (sc, d, skip)
        else:
            v = np.array([float(rng.choice([Fraction(1, 2), Fraction(3, 2), Fraction(2), Fraction(-1), Fraction(0)]))
                          for _ in range(d)])
            rp.update(vector=v.tolist())
            lines.append("%s ctor nuscale %d %d %s" % (cid, d, int(skip), " ".join(common.fq(float(x)) for x in v)))
            try_call = lambda: mt.NonUniformScale(v, skip_checks=skip)
            py = "menpo.transform.NonUniformScale(np.array(%r), skip_checks=%r)" % (v.tolist(), skip)
        rp["python"] = "import sys; sys.path[:0]=[%r]\nimport numpy as np, menpo.transform\nt = %s" % (common.REPO, py)
        try:
            o = try_call()
            got = ("ok", kind_of(o), np.asarray(o.h_matrix, dtype=float).copy())
        except Exception as e:
            got = ("e", ctor_error_kind(e))
        expect[cid] = (got, rp)
        ctx.case(("ctor", kind, d, skip, json.dumps(rp, sort_keys=True)), nontrivial=True,
                 sample={"constructor": kind, "d": d, "skip_checks": skip, "accepted": got[0] == "ok"})
        ctx.count("ctor:%s:%s" % (kind, "accepted" if got[0] == "ok" else got[1]))


def identity_cases(ctx, lines, expect):
    """`C.init_identity(d)` for each of the twelve classes C and d = 1 .. 4 against the model's `identityOf`; and the
    oracle: whatever it hands back is neutral for composition on both sides (the property's law with the identity map)"""
    import numpy as np
    import menpo.transform as mt
    rng = ctx.rng
    for name in FAMILY:
        for d in (1, 2, 3, 4):
            cid = "id_%s_%d" % (name, d)
            rp = {"cls": name, "d": d,
                  "python": "import sys; sys.path[:0]=[%r]\nimport menpo.transform\ne = menpo.transform.%s.init_identity(%d)"
                            % (common.REPO, name, d)}
            try:
                e = getattr(mt, name).init_identity(d)
                got = ("ok", kind_of(e), np.asarray(e.h_matrix, dtype=float).copy())
            except Exception as ex:
                e, got = None, ("e", ctor_error_kind(ex))
            lines.append("%s ident %d %s" % (cid, d, name))
            expect[cid] = (got, rp)
            ctx.case(("identity", name, d), nontrivial=False)
            ctx.count("init_identity:%s" % ("ok" if got[0] == "ok" else got[1]))
            if e is None or d not in (2, 3):
                continue
            a = build(gen_atom(rng, rng.choice(FAMILY[:7]), d), [])
            h0 = a.h_matrix.copy()
            for meth, x, y in (("compose_before", a, e), ("compose_after", a, e), ("compose_before", e, a), ("compose_after", e, a)):
                try:
                    r = getattr(x, meth)(y)
                    good = is_family(r) and close_arrays(r.h_matrix, h0, float(np.abs(h0).sum()) + 1.0)
                except Exception as ex:
                    good = False
                ctx.check(good, "C03/identity.neutral", "map-differs",
                          "%s.init_identity(%d) is not neutral for %s with a %s" % (name, d, meth, kind_of(a)), rp)


def check_ctor_replies(ctx, model, expect):
    import numpy as np
    for cid, (got, rp) in expect.items():
        rep = model[cid].split()
        if rep[0] == "e":
            if not (got[0] == "e" and got[1] == rep[1]):
                ctx.mismatch("ctor", "model: refused (%s), implementation: %s" % (
                    rep[1], "refused (%s)" % got[1] if got[0] == "e" else "a %s" % got[1]), rp)
            continue
        if rep[0] != "ok" or got[0] != "ok":
            ctx.mismatch("ctor", "model: %s, implementation: refused (%s)" % (" ".join(rep[:4]), got[1]), rp)
            continue
        cell = parse_cell(rep[1:])
        if not cells_agree(("F", got[2].shape[0] - 1, got[1], got[2]), cell, float(np.abs(got[2]).sum()) + 1.0):
            ctx.mismatch("ctor", "model %s vs implementation %s %s" % (fmt_cell(cell)[:200], got[1], got[2].tolist()), rp)


def check_aux_replies(ctx, model, apply_expect, fv_expect, decomp_expect, aux):
    import numpy as np
    for cid, (y, mag, rp) in apply_expect.items():
        rep = model[cid].split()
        if rep[0] != "ok":
            ctx.mismatch("apply", "model: %s, implementation %r" % (" ".join(rep), y.tolist()), rp)
            continue
        my = np.array([float(Fraction(t)) for t in rep[1:]])
        if not close_arrays(my, y, mag * 16.0, 100.0):
            ctx.mismatch("apply", "model %r vs implementation %r" % (my.tolist(), y.tolist()), rp)
    for cid, (got, mag, rp) in fv_expect.items():
        rep = model[cid].split()
        if rep[0] == "e":
            if not (got[0] == "e" and got[1] == rep[1]):
                ctx.mismatch("fromvec", "model: %s, implementation %s" % (" ".join(rep), got[1] if got[0] == "e" else "a matrix"), rp)
            continue
        if rep[0] == "ok" and got == ("e", "shape") and rp.get("lenient"):
            ctx.count("fromvec:wrong-length-refused-where-numpy-would-broadcast")
            continue
        if rep[0] != "ok" or got[0] != "ok":
            ctx.mismatch("fromvec", "model: %s, implementation %s" % (" ".join(rep)[:80], got[1] if got[0] == "e" else "a matrix"), rp)
            continue
        mm = np.array([float(Fraction(t)) for t in rep[1:]]).reshape(got[1].shape)
        if not close_arrays(mm, got[1], mag):
            ctx.mismatch("fromvec", "model %r vs implementation %r" % (mm.tolist(), got[1].tolist()), rp)
    for cid, (pieces, h0, mag, rp) in decomp_expect.items():
        rep = model[cid]
        if not rep.startswith("ok"):
            ctx.mismatch("decomp", "model: %s" % rep[:80], rp)
            continue
        d = h0.shape[0] - 1
        head, _, prod = rep[3:].partition(" # ")
        cells = [parse_cell(c.strip().split()) for c in head.split(" ; ")]
        same = len(cells) == len(pieces) and all(
            cells_agree(("F", d, nm, m), c, mag) for (nm, m), c in zip(pieces, cells))
        if not same:
            ctx.mismatch("decomp", "model pieces %s vs implementation %s" % (
                [c[2] for c in cells], [nm for nm, _ in pieces]), rp)
            continue
        pm = np.array([float(Fraction(t)) for t in prod.split()]).reshape(h0.shape)
        if not close_arrays(pm, h0, mag):
            ctx.mismatch("decomp", "model product of the pieces differs from the matrix", rp)
    # chains applied by the model from the final store, and the dimension calculus
    for aid, (got, odim, mag, rp) in aux["apply"].items():
        rep = model[aid].split()
        drep = model[aid + "_dim"].split()
        if got[0] == "ok":
            if rep[0] != "ok":
                ctx.mismatch("chain.apply", "model: %s, implementation maps the probe to %r" % (rep[0], got[1].tolist()), rp)
            else:
                my = np.array([float(Fraction(t)) for t in rep[1:]])
                if not close_arrays(my, got[1], mag * 16.0, 100.0):
                    ctx.mismatch("chain.apply", "model %r vs implementation %r" % (my.tolist(), got[1].tolist()), rp)
            if not (drep[0] == "ok" and int(drep[1]) == len(got[1]) and odim == len(got[1])):
                ctx.mismatch("chain.dim", "dimension calculus: model %s, harness %r, implementation returned %d coordinates"
                             % (" ".join(drep), odim, len(got[1])), rp)
        else:
            if rep[0] == "ok":
                ctx.mismatch("chain.apply", "model maps the probe, implementation raises %s" % got[1], rp)
            if drep[0] == "ok" or odim is not None:
                ctx.mismatch("chain.dim", "dimension calculus accepts (model %s, harness %r) what the implementation "
                             "refuses with %s" % (" ".join(drep), odim, got[1]), rp)
    # the dtype of every object after a program
    for did, (init_tags, final_tags, rp) in aux.get("dtype", {}).items():
        rep = model[did].split()
        if rep[0] != "ok" or rep[1:] != final_tags:
            k = next((i for i, (a, b) in enumerate(zip(rep[1:], final_tags)) if a != b), None)
            ctx.mismatch("dtype", "dtype of the objects after the program: model %s, implementation %s (atoms were %s)" % (
                " ".join(rep[1:]) if rep[0] == "ok" else " ".join(rep)[:80], " ".join(final_tags), " ".join(init_tags)),
                dict(rp, object=k, dtypes_before=init_tags, dtypes_after=final_tags))
    # chains appended to something that contains them
    for cid, (variant, observed, final, rp) in aux["selfc"].items():
        reply = model[cid]
        compare_program(ctx, reply, [("i",)], final, [1e3] * 4, rp)
        for i in (2, 3):
            rep = model["%s_f%d" % (cid, i)].split()[0]
            want = "ok" if variant == "control" else "none"
            obs = observed[i]
            if (rep == "none") != (obs == "recursion") or rep != want:
                ctx.mismatch("chain.self-containing", "%s: object %d: model flat = %s, implementation apply: %s" % (
                    variant, i, rep, obs), dict(rp, object=i))


def withdims_battery(ctx, n):
    """dimension-changing slicing (3-D to 2-D) between transforms of every family class and thin-plate splines:
    oracle on the real code (the model-checked counterpart is `cross_dimension_battery`)"""
    import numpy as np
    from menpo.transform import WithDims
    rng = ctx.rng
    for k in range(n):
        r3 = gen_atom(rng, rng.choice(FAMILY), 3)
        r2 = gen_atom(rng, rng.choice(FAMILY + ["ThinPlateSplines"]), 2)
        dims = rng.choice([[0, 1], [0, 2], [2, 1], [1, 2]])
        rw = respell(rng, dims, 3)
        t3, t2, wd = build(r3, []), build(r2, []), build(rw, [])
        ctx.count("withdims-spelling:%s" % ("slice" if "slice" in rw else "mask" if "mask" in rw else
                                            "array" if rw.get("as_array") else
                                            "negative" if any(i < 0 for i in rw["dims"]) else "list"))
        X = probe_points(rng, 3)
        rp = {"atoms": [r3, rw, r2],
              "python": "import sys; sys.path[:0]=['/verif', %r]\nfrom harness import c03\n"
              "a = c03.build(%s, []); w = c03.build(%s, []); b = c03.build(%s, [])\nc = a.compose_before(w).compose_before(b)"
              % (common.REPO, json.dumps(r3), json.dumps(rw), json.dumps(r2))}
        objs = [t3, wd, t2]
        before = [digest(o) for o in objs]
        try:
            c1 = t3.compose_before(wd)
            c2 = c1.compose_before(t2)
            c3 = t2.compose_after(c1)
            want = t2.apply(wd.apply(t3.apply(X)))
            ok = all(close_arrays(c.apply(X), want, 1e3) for c in (c2, c3))
        except Exception as e:
            ctx.fail("C03/compose.raises", "withdims", "composition through WithDims raised %s" % type(e).__name__, rp)
            continue
        if is_projective(t3) or is_projective(t2):
            ctx.count("withdims:projective-not-compared")
        else:
            ctx.check(ok, "C03/compose.law", "map-differs", "3-D transform, WithDims%r, 2-D transform: chain differs "
                      "from sequential application" % (dims,), rp)
        ctx.check([digest(o) for o in objs] == before, "C03/compose.operands-intact", "object-changed",
                  "composition through WithDims changed an operand", rp)
        ctx.case(("withdims", json.dumps(rp["atoms"], sort_keys=True)), nontrivial=True)
        ctx.count("withdims")


# ------------------------------------------------------------------------------------------------ entry points

def generated(ctx):
    files, rows2, rows3 = extract_c03.generated_files()
    ctx.notes["class_table_rows"] = len(rows2)
    ctx.notes["method_table_entries"] = len(extract_c03.METHODS) * (len(rows2) + len(extract_c03.OTHER_CLASSES))
    common.build_generated(ctx, files, extract_c03.GEN_TARGETS, extract_c03.N_OBLIGATIONS)
    ctx._c03_rows = (rows2, rows3)
    # the isinstance ladder itself, TRANSLATED from the source text of the working tree (harness/py2lean.py) and
    # proved equal to the hand-written `ladder` (GenProps/C03Ladder.lean: genLadder_eq)
    from . import trans_c03
    lfiles, why = trans_c03.generated_files()
    ctx.notes["ladder_translation"] = "ok" if why is None else "untranslatable: " + why
    common.build_generated(ctx, lfiles, trans_c03.GEN_TARGETS, trans_c03.N_OBLIGATIONS)
    # the ENTRY POINTS (Transform / ComposableTransform / TransformChain / Homogeneous compose_*, _compose_*,
    # _set_h_matrix, as_non_alignment, from_vector, Affine.decompose, Scale), translated from source and proved equal
    # to composeCell / inplaceCell / fromVectorCell / chainAdd / rawCompose / nonAlignmentMatrix / decomposeLeaves
    # (GenProps/C03Entry.lean); the method-resolution table decides which translated body runs on which class
    efiles, failed = trans_c03.entry_generated_files()
    ctx.notes["entry_translation"] = "ok" if not failed else "untranslatable: " + "; ".join(failed)
    common.build_generated(ctx, efiles, trans_c03.ENTRY_TARGETS, trans_c03.ENTRY_OBLIGATIONS)
    # the NUMPY-LEVEL BODIES of the family (properties, _set_h_matrix / set_rotation_matrix with their checks, the seven
    # constructors, the seven init_identity, the ten _from_vector_inplace, as_non_alignment through the constructors),
    # translated with harness/py2lean2.py and proved equal to fromVec / ctorMat / ctorRotation / ctorTranslation /
    # ctorUniformScale / ctorNonUniformScale / identityOf / anaCtor (GenProps/C03Src.lean)
    sfiles, sfailed = trans_c03.src_generated_files()
    ctx.notes["src_translation"] = "ok" if not sfailed else "untranslatable: " + "; ".join(sfailed)
    common.build_generated(ctx, sfiles, trans_c03.SRC_TARGETS, trans_c03.SRC_OBLIGATIONS)


def new_aux():
    return {"lines": [], "apply": {}, "selfc": {}}


def flush(ctx, pending, extra_lines=()):
    """one driver run for everything queued"""
    lines = [p[1] for p in pending] + list(extra_lines)
    if not lines:
        return {}
    model = common.run_driver(PROP, lines)
    for cid, _line, results, final, mags, rp in pending:
        compare_program(ctx, model[cid], results, final, mags, rp)
    return model


def search(ctx):
    """directed search after a broken tie (oracle on the real code only): the batteries again with fresh
    parameters, then programs biased towards in-place calls followed by non-in-place calls on the same objects"""
    rows2, rows3 = getattr(ctx, "_c03_rows", (extract_c03.extract(2), extract_c03.extract(3)))
    sink = []
    w2, w3 = extract_c03.wire(rows2), extract_c03.wire(rows3)
    for d, wire in ((2, w2), (3, w3)):
        pair_battery(ctx, d, wire, sink, "s")
        sequel_battery(ctx, d, wire, sink, "t")
        fromvector_battery(ctx, d, wire, sink, "u")
        dtype_battery(ctx, d, wire, sink, "dt")
        alias_battery(ctx, d, wire, sink, "al")
        identity_battery(ctx, d, wire, sink, "id")
        ctx.searched += len(sink)
        if ctx.failures:
            return True
    cross_dimension_battery(ctx, w2, sink, "x", new_aux())
    nested_chain_battery(ctx, w2, sink, "n", new_aux())
    ctx.searched += len(sink)
    if ctx.failures:
        return True
    # what the translated constructors / init_identity / from_vector bodies feed: decompositions (Rotation, Scale and
    # Translation built from the SVD factors, folded back with compose_before), the identities of all classes as
    # operands, from_vector matrices (oracle only: receiver untouched)
    decompose_cases(ctx, 400, [], {})
    identity_cases(ctx, [], {})
    fromvec_cases(ctx, 300, [], {})
    ctx.searched += 700
    if ctx.failures:
        return True
    for k in range(60):
        random_programs(ctx, 25, {2: w2, 3: w3}, sink, "sp%d_" % k, long=True, inplace_bias=0.55)
        ctx.searched += 25
        if ctx.failures:
            return True
    return False


def run(ctx):
    import warnings
    warnings.filterwarnings("ignore")
    common.prepare_lean(ctx, PROP, IMPORTS, THEOREMS, generated=generated)
    ctx.trusted += ["harness/extract_c03.py (class-table and method-table extraction from live classes)",
                    "harness/py2lean.py, harness/py2lean2.py, harness/py2lean_norm.py and the rule tables of "
                    "harness/trans_c03.py (source-to-Lean translation; value-level: copies and aliasing are not seen)",
                    "numpy dot / svd (contract L = U diag(s) V, U and V orthogonal, s > 0 checked numerically per "
                    "decomposition case)"]
    rows2, rows3 = ctx._c03_rows
    w2, w3 = extract_c03.wire(rows2), extract_c03.wire(rows3)
    pending = []
    aux = new_aux()
    for rep in range(ctx.n(1, 6)):
        pair_battery(ctx, 2, w2, pending, "p%d_" % rep, aux)
        pair_battery(ctx, 3, w3, pending, "p%d_" % rep, aux)
        sequel_battery(ctx, 2, w2, pending, "s%d_" % rep)
        sequel_battery(ctx, 3, w3, pending, "s%d_" % rep)
        cross_dimension_battery(ctx, w2, pending, "x%d" % rep, aux)
        fromvector_battery(ctx, 2, w2, pending, "v%d_" % rep)
        fromvector_battery(ctx, 3, w3, pending, "v%d_" % rep)
        for d, wd in ((2, w2), (3, w3)):
            dtype_battery(ctx, d, wd, pending, "dt%d_" % rep, aux)
            alias_battery(ctx, d, wd, pending, "al%d_" % rep, aux)
            identity_battery(ctx, d, wd, pending, "id%d_" % rep, aux)
    nested_chain_battery(ctx, w2, pending, "n", aux)
    self_containing_battery(ctx, w2, aux)
    random_programs(ctx, ctx.n(150, 4000), {2: w2, 3: w3}, pending, "g", long=not ctx.quick(), aux=aux)
    lines, ap_expect, fv_expect, dc_expect = [], {}, {}, {}
    apply_cases(ctx, ctx.n(80, 1500), {2: w2, 3: w3}, lines, ap_expect)
    fromvec_cases(ctx, ctx.n(80, 1200), lines, fv_expect)
    decompose_cases(ctx, ctx.n(60, 1200), lines, dc_expect)
    withdims_battery(ctx, ctx.n(40, 600))
    ct_expect = {}
    ctor_cases(ctx, ctx.n(120, 1500), lines, ct_expect)
    identity_cases(ctx, lines, ct_expect)
    model = flush(ctx, pending, lines + aux["lines"])
    check_aux_replies(ctx, model, ap_expect, fv_expect, dc_expect, aux)
    check_ctor_replies(ctx, model, ct_expect)
    return ctx.finish(search)


def replay(ctx, path):
    import warnings
    warnings.filterwarnings("ignore")
    data = json.load(open(path))
    rp = data.get("replay") or data.get("case")
    if rp is None:
        bc = data.get("broken_correspondence") or []
        rp = bc[0]["case"] if bc else None
    if not rp or "atoms" not in rp:
        print("replay file carries no program (broken obligation only?): re-running the generated obligation")
        generated(ctx)
        print("broken obligations:", json.dumps(ctx.broken_obligations)[:2000])
        return ctx.finish(None)
    rows = extract_c03.extract(rp.get("d", 2))
    pending = []
    if "statements" in rp:
        stmts = [tuple(s) for s in rp["statements"]]
        aux = new_aux()
        w = run_program(ctx, rp["atoms"], stmts, "r0", extract_c03.wire(rows), pending, "replay", aux)
        for s in stmts:
            ctx.case(("replay", json.dumps(s)))
        model = flush(ctx, pending, aux["lines"])
        check_aux_replies(ctx, model, {}, {}, {}, aux)
        print("python:\n" + script_of(rp["atoms"], stmts))
        print("model         :", model.get("r0", "")[:1500])
        if w is not None:
            print("implementation:", " ; ".join(fmt_cell(w.cell(i)) for i in range(len(w.objs)))[:1500])
    else:
        print("replay of a non-program case: atoms", json.dumps(rp.get("atoms"))[:500])
        print(rp.get("python", ""))
        ctx.case(("replay", "aux"))
        ctx.case(("replay", "aux2"))
    return ctx.finish(None)
