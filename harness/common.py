"""Shared machinery of the /verif checks (see DESIGN.md section 2).

Everything random derives from VERIF_SEED.  Exit codes: 0 property held on
everything explored (possibly with KNOWN-FINDING lines), 1 VIOLATION, 2 infrastructure.
"""
import fcntl
import hashlib
import json
import os
import random
import re
import subprocess
import sys
import time
import random  # noqa (re-exported: common.random)
import traceback
from fractions import Fraction

HARNESS = os.path.dirname(os.path.abspath(__file__))
ROOT = os.path.dirname(HARNESS)
LEAN = os.path.join(ROOT, "lean")
REPO = os.environ.get("MENPO_REPO", "/repo")
GUARD = "MENPO_VERIF"
ALLOWED_AXIOMS = {"propext", "Classical.choice", "Quot.sound"}
FORBIDDEN = re.compile(
    r"\bsorry\b|\badmit\b|^axiom |native_decide|bv_decide|implemented_by|\bunsafe |maxHeartbeats 0"
)


class Infra(Exception):
    """infrastructure failure: exit 2, never a VIOLATION"""


# ----------------------------------------------------------------------------- numbers

def frac(x):
    """exact rational of a python/numpy number (a float64 *is* a dyadic rational)"""
    if isinstance(x, Fraction):
        return x
    if isinstance(x, bool):
        return Fraction(int(x))
    try:
        import numpy as np
        if isinstance(x, np.generic):
            x = x.item()
    except ImportError:
        pass
    return Fraction(x)


def fq(x):
    """wire format of an exact rational"""
    f = frac(x)
    return str(f.numerator) if f.denominator == 1 else "%d/%d" % (f.numerator, f.denominator)


def fqs(xs):
    return " ".join(fq(x) for x in xs)


def fmat(m):
    """`r c entries…` row major"""
    rows = [list(r) for r in m]
    r = len(rows)
    c = len(rows[0]) if r else 0
    return "%d %d %s" % (r, c, " ".join(fq(x) for row in rows for x in row))


def pq(tok):
    return Fraction(tok)


def close(a, b, scale=1.0, tol=1e-9):
    """|a-b| <= tol*(1+scale), a/b float or Fraction"""
    return abs(float(a) - float(b)) <= tol * (1.0 + abs(scale))


def dyadic(rng, kmax=64, mexp=3, nonzero=False):
    """small dyadic rational k/2^m as float (exactly representable)"""
    while True:
        m = rng.randint(0, mexp)
        k = rng.randint(-kmax, kmax)
        if nonzero and k == 0:
            continue
        return k / float(2 ** m)


def rat_circle(rng, tmax=12):
    """rational point (c, s) on the unit circle, all quadrants, as Fractions"""
    while True:
        p = rng.randint(-tmax, tmax)
        q = rng.randint(1, tmax)
        t = Fraction(p, q)
        c = (1 - t * t) / (1 + t * t)
        s = 2 * t / (1 + t * t)
        if rng.random() < 0.5:
            c, s = -c, -s
        return c, s


# ----------------------------------------------------------------------------- lean

def _lock():
    os.makedirs(os.path.join(LEAN, ".lake"), exist_ok=True)
    f = open(os.path.join(LEAN, ".lake", "verif.lock"), "w")
    fcntl.flock(f, fcntl.LOCK_EX)
    return f


def lake_build(targets=()):
    """(ok, output).  serialised with an advisory lock (several checks may run at once)."""
    lk = _lock()
    try:
        p = subprocess.run(["lake", "build"] + list(targets), cwd=LEAN, stdout=subprocess.PIPE,
                           stderr=subprocess.STDOUT, text=True)
        return p.returncode == 0, p.stdout
    finally:
        lk.close()


def write_if_changed(path, text):
    try:
        if open(path).read() == text:
            return False
    except OSError:
        pass
    os.makedirs(os.path.dirname(path), exist_ok=True)
    with open(path, "w") as f:
        f.write(text)
    return True


def import_closure(modules):
    """source files of the MenpoModel modules reachable from `modules` through `import MenpoModel.…` lines"""
    seen, todo = {}, list(modules)
    while todo:
        m = todo.pop()
        if m in seen or not m.startswith("MenpoModel"):
            continue
        path = os.path.join(LEAN, *m.split(".")) + ".lean"
        if not os.path.exists(path):
            continue
        seen[m] = path
        for ln in open(path):
            mm = re.match(r"\s*(?:public\s+)?import\s+(MenpoModel[\w.]*)", ln)
            if mm:
                todo.append(mm.group(1))
    return [seen[k] for k in sorted(seen)]


def lean_sources_hash(modules):
    h = hashlib.sha256()
    for p in import_closure(modules):
        h.update(p.encode())
        h.update(open(p, "rb").read())
    return h.hexdigest()


def strip_comments(src):
    src = re.sub(r"/-.*?-/", "", src, flags=re.S)
    return re.sub(r"--.*", "", src)


def forbidden_scan(modules):
    hits = []
    for p in import_closure(modules):
        for i, line in enumerate(strip_comments(open(p).read()).splitlines(), 1):
            if FORBIDDEN.search(line):
                hits.append("%s:%d: %s" % (os.path.relpath(p, ROOT), i, line.strip()))
    return hits


def axiom_audit(prop, imports, theorems):
    """`#print axioms` on every property theorem; cached by the hash of all Lean sources.
    Returns dict name -> sorted axiom list.  Raises Infra on anything outside the allowed set."""
    cache_path = os.path.join(LEAN, ".lake", "audit_%s.json" % prop)
    key = lean_sources_hash(imports) + "|" + ",".join(theorems)
    try:
        c = json.load(open(cache_path))
        if c.get("key") == key:
            return c["axioms"]
    except (OSError, ValueError):
        pass
    hits = forbidden_scan(imports)
    if hits:
        raise Infra("forbidden construct in Lean sources:\n" + "\n".join(hits))
    src = "".join("import %s\n" % m for m in imports) + "".join("#print axioms %s\n" % t for t in theorems)
    tmp = os.path.join(LEAN, ".lake", "audit_%s.lean" % prop)
    with open(tmp, "w") as f:
        f.write(src)
    p = subprocess.run(["lake", "env", "lean", tmp], cwd=LEAN, stdout=subprocess.PIPE,
                       stderr=subprocess.STDOUT, text=True)
    out = p.stdout
    if p.returncode != 0:
        raise Infra("axiom audit failed to run:\n" + out[-3000:])
    res = {}
    for m in re.finditer(r"'([^']+)' depends on axioms: \[([^\]]*)\]", out, flags=re.S):
        res[m.group(1)] = sorted(a.strip() for a in m.group(2).replace("\n", " ").split(",") if a.strip())
    for m in re.finditer(r"'([^']+)' does not depend on any axioms", out):
        res[m.group(1)] = []
    bad = {k: v for k, v in res.items() if not set(v) <= ALLOWED_AXIOMS}
    missing = [t for t in theorems if t not in res and t.split(".")[-1] not in
               {k.split(".")[-1] for k in res}]
    if bad:
        raise Infra("axiom audit: disallowed axioms %r" % bad)
    if missing:
        raise Infra("axiom audit: theorems not found %r\n%s" % (missing, out[-2000:]))
    json.dump({"key": key, "axioms": res}, open(cache_path, "w"))
    return res


def run_driver(prop, lines, timeout=1800):
    """pipe request lines `<id> <op> …` to Run/<prop>.lean; returns {id: reply string}"""
    data = "\n".join(lines) + "\n"
    p = subprocess.run(["lake", "env", "lean", "--run", os.path.join("Run", prop + ".lean")], cwd=LEAN,
                       input=data, stdout=subprocess.PIPE, stderr=subprocess.PIPE, text=True,
                       timeout=timeout)
    if p.returncode != 0:
        raise Infra("driver %s failed (%d): %s" % (prop, p.returncode, p.stderr[-3000:]))
    out = {}
    for ln in p.stdout.splitlines():
        if not ln.strip():
            continue
        i, _, rest = ln.partition(" ")
        out[i] = rest
    if len(out) != len(lines):
        raise Infra("driver %s answered %d of %d lines; stderr: %s" % (prop, len(out), len(lines), p.stderr[-2000:]))
    return out


# ----------------------------------------------------------------------------- instance state (read-only queries)

def deep_digest(o, seen=None, depth=0):
    """deep content digest of an attribute value (arrays by bytes, menpo objects by their attributes)"""
    import numpy as np
    seen = seen if seen is not None else set()
    if isinstance(o, np.ndarray):
        return ("nd", o.dtype.str, o.shape, o.tobytes())
    if isinstance(o, (list, tuple)):
        return (type(o).__name__,) + tuple(deep_digest(x, seen, depth + 1) for x in o)
    if isinstance(o, dict):
        return ("dict",) + tuple((repr(k), deep_digest(v, seen, depth + 1)) for k, v in o.items())
    if hasattr(o, "__dict__") and not callable(o) and depth < 6:
        if id(o) in seen:
            return ("cycle",)
        seen.add(id(o))
        return (type(o).__name__,) + tuple((k, deep_digest(v, seen, depth + 1)) for k, v in sorted(vars(o).items()))
    if hasattr(o, "toarray"):
        return ("sparse", o.shape, o.toarray().tobytes())
    return ("atom", repr(o) if not callable(o) else "callable")


def attr_writes(obj, action):
    """names of the instance attributes of `obj` that `action()` rebinds, adds, removes or modifies in place"""
    before = {k: (id(v), deep_digest(v)) for k, v in vars(obj).items()}
    try:
        action()
    except Exception:      # noqa: BLE001 - a failing application may still have written state
        pass
    after = {k: (id(v), deep_digest(v)) for k, v in vars(obj).items()}
    return sorted(k for k in set(before) | set(after) if before.get(k) != after.get(k))



# ----------------------------------------------------------------------------- known findings

def load_known():
    """known_findings.txt: `known: property=Cxx site=<site> pattern=<pattern> :: text`,
    `fixed: property=Cxx <commit> <text>` (fixed entries suppress nothing)."""
    known = []
    p = os.path.join(ROOT, "known_findings.txt")
    if os.path.exists(p):
        for ln in open(p):
            ln = ln.strip()
            m = re.match(r"known: property=(\S+) site=(\S+) pattern=(\S+) :: (.*)", ln)
            if m:
                known.append(dict(prop=m.group(1), site=m.group(2), pattern=m.group(3), text=m.group(4)))
    return known


# ----------------------------------------------------------------------------- a check run

# ----------------------------------------------------------------------------- code reach (which anchored code ran)

_REACH = {"on": False, "seen": set()}


def _reach_start():
    """Record, with sys.monitoring (one callback per function, then disabled: no measurable cost), which functions
    of /repo/menpo are entered while the check runs.  Reported in the evidence as `code_reach`: of the functions
    defined in the files the property is anchored in (properties.jsonl), which ones this run executed at least once
    - the part of the code the correspondence and the oracle actually looked at."""
    if _REACH["on"] or os.environ.get("VERIF_NO_REACH"):
        return
    try:
        mon = sys.monitoring
        tool = mon.COVERAGE_ID
        mon.use_tool_id(tool, "verif-reach")
        prefix = os.path.join(os.path.realpath(REPO), "menpo") + os.sep
        cut = len(os.path.realpath(REPO)) + 1

        def on_start(code, _offset):
            fn = code.co_filename
            if fn.startswith(prefix):
                _REACH["seen"].add((fn[cut:], code.co_qualname))
            return mon.DISABLE

        mon.register_callback(tool, mon.events.PY_START, on_start)
        mon.set_events(tool, mon.events.PY_START)
        _REACH["on"] = True
    except Exception:  # noqa: BLE001 - older interpreter or tool id taken: the evidence then says so
        _REACH["on"] = False


def _defined_functions(path):
    """qualified names of the functions / methods defined in a python file (as code.co_qualname spells them)"""
    import ast
    out = []

    def walk(node, prefix, in_func):
        for ch in ast.iter_child_nodes(node):
            if isinstance(ch, (ast.FunctionDef, ast.AsyncFunctionDef)):
                q = prefix + ch.name
                out.append(q)
                walk(ch, q + ".<locals>.", True)
            elif isinstance(ch, ast.ClassDef):
                walk(ch, prefix + ch.name + ".", in_func)
            elif isinstance(ch, (ast.If, ast.Try, ast.With, ast.For, ast.While)):
                walk(ch, prefix, in_func)
    try:
        walk(ast.parse(open(path).read()), "", False)
    except (OSError, SyntaxError):
        pass
    return out


def code_reach(prop):
    if not _REACH["on"]:
        return {"measured": False}
    files = []
    try:
        for l in open(os.path.join(ROOT, "properties.jsonl")):
            p = json.loads(l)
            if p["id"] == prop:
                files = list(p["anchors"]["files"])
    except (OSError, ValueError, KeyError):
        pass
    seen = _REACH["seen"]
    defined, hit, missed = 0, 0, []
    per_file = {}
    for f in files:
        names = sorted(set(_defined_functions(os.path.join(os.path.realpath(REPO), f))))
        h = [n for n in names if (f, n) in seen]
        defined += len(names)
        hit += len(h)
        per_file[f] = "%d of %d" % (len(h), len(names))
        missed += ["%s: %s" % (f, n) for n in names if (f, n) not in seen]
    return {"measured": True, "how": "sys.monitoring PY_START in the check's own process (sub-processes not counted)",
            "anchored_files": per_file, "functions_defined": defined, "functions_executed": hit,
            "not_executed": missed[:600],
            "menpo_functions_executed_in_total": len(seen)}


class Ctx:
    def __init__(self, prop, tier, seed):
        self.prop, self.tier, self.seed = prop, tier, seed
        self.rng = random.Random(seed * 1000003 + int(prop[1:]))
        self.t0 = time.time()
        self.evaluations = 0
        self.nontrivial = set()
        self.samples = []
        self.dist = {}
        self.failures = []      # oracle failures on the real code (site, pattern, text, replay dict)
        self.mismatches = []    # model/implementation disagreements (op, text, replay dict)
        self.broken_obligations = []  # regenerated Lean obligations that no longer check
        self.theorems = {}
        self.gen_obligations = 0
        self.assumptions = []
        self.trusted = []
        self.notes = {}
        self.searched = 0
        self.known = [k for k in load_known() if k["prop"] == prop]
        self.known_seen = {}
        _reach_start()

    # counts -----------------------------------------------------------------
    def quick(self):
        return self.tier == "quick"

    def n(self, quick, thorough):
        return quick if self.tier == "quick" else thorough

    def count(self, key, k=1):
        self.dist[key] = self.dist.get(key, 0) + k

    def case(self, signature, nontrivial=True, sample=None):
        """register one explored case; `signature` identifies distinct cases"""
        self.evaluations += 1
        if nontrivial:
            self.nontrivial.add(hashlib.md5(repr(signature).encode()).hexdigest())
        if sample is not None and len(self.samples) < 6:
            self.samples.append(sample)

    # verdicts ---------------------------------------------------------------
    def fail(self, site, pattern, text, replay):
        """the property oracle failed on the real code"""
        for k in self.known:
            if k["site"] == site and k["pattern"] == pattern:
                self.known_seen.setdefault((site, pattern), k["text"])
                return
        self.failures.append((site, pattern, text, replay))

    def mismatch(self, op, text, replay):
        """model and implementation disagree (not by itself a violation)"""
        self.mismatches.append((op, text, replay))

    def check(self, cond, site, pattern, text, replay):
        if not cond:
            self.fail(site, pattern, text, replay)
        return cond

    def scratch(self):
        """a child context for shrinking / probing: records verdicts without touching this one"""
        c = Ctx(self.prop, self.tier, self.seed)
        c.known = []
        return c

    # replay files -----------------------------------------------------------
    def write_replay(self, kind, payload):
        d = os.path.join(ROOT, "replays")
        os.makedirs(d, exist_ok=True)
        i = 0
        while True:
            p = os.path.join(d, "%s-%s-%d-%d.json" % (self.prop, self.tier, self.seed, i))
            if not os.path.exists(p):
                break
            i += 1
        body = {"property": self.prop, "seed": self.seed, "tier": self.tier, "kind": kind}
        body.update(payload)
        with open(p, "w") as f:
            json.dump(body, f, indent=1, default=str)
        return os.path.relpath(p, ROOT)

    # finish -----------------------------------------------------------------
    def finish(self, search=None):
        """decide, print verdict lines, write evidence, return exit code"""
        lines = []
        code = 0
        for (site, pattern), text in sorted(self.known_seen.items()):
            lines.append("KNOWN-FINDING: property=%s %s [site=%s pattern=%s]" % (self.prop, text, site, pattern))
        seen_sites = set()
        for site, pattern, text, replay in self.failures:
            if (site, pattern) in seen_sites:
                continue
            seen_sites.add((site, pattern))
            path = self.write_replay("property-oracle-failed-on-implementation",
                                     {"site": site, "pattern": pattern, "what": text, "replay": replay})
            lines.append("VIOLATION property=%s replay=%s" % (self.prop, path))
            code = 1
        if not self.failures and (self.mismatches or self.broken_obligations):
            found = None
            if search is not None:
                try:
                    found = search(self)
                except Exception:  # a crashing search must not hide the broken tie
                    found = None
                    self.notes["search_error"] = traceback.format_exc()[-1500:]
            new_fail = [f for f in self.failures]
            if new_fail:
                site, pattern, text, replay = new_fail[0]
                path = self.write_replay("property-oracle-failed-on-implementation (found by directed search "
                                         "after the model/implementation tie broke)",
                                         {"site": site, "pattern": pattern, "what": text, "replay": replay,
                                          "broken_tie": [m[:2] for m in self.mismatches[:5]] + self.broken_obligations[:5]})
                lines.append("VIOLATION property=%s replay=%s" % (self.prop, path))
            else:
                path = self.write_replay(
                    "tie-broken-no-failing-input",
                    {"what": "the model/implementation correspondence or a regenerated proof obligation no "
                             "longer checks, so the property is no longer shown to hold; the directed search "
                             "found no concrete failing input",
                     "broken_correspondence": [{"op": m[0], "what": m[1], "case": m[2]} for m in self.mismatches[:10]],
                     "broken_obligations": self.broken_obligations[:10],
                     "n_mismatches": len(self.mismatches), "search_cases": self.searched})
                lines.append("VIOLATION property=%s replay=%s no-failing-input-found" % (self.prop, path))
            code = 1
        n_viol = len(seen_sites) if self.failures else (1 if code else 0)
        self.write_evidence(n_viol)
        for ln in lines:
            print(ln)
        if code == 0:
            print("OK property=%s tier=%s seed=%d evaluations=%d distinct_nontrivial=%d theorems=%d wall=%.1fs" % (
                self.prop, self.tier, self.seed, self.evaluations, len(self.nontrivial),
                len(self.theorems), time.time() - self.t0))
        sys.stdout.flush()
        return code

    def write_evidence(self, n_viol):
        from . import registry
        info = registry.INFO.get(self.prop, {})
        n_obl = len(self.theorems) + self.gen_obligations
        ev = {
            "property_id": self.prop,
            "tier": self.tier,
            "seed": self.seed,
            "level": "proof",
            "coverage": {
                "obligations": n_obl,
                "discharged": n_obl - len(self.broken_obligations),
                "checker_cmd": "cd lean && lake build && lake env lean <#print axioms of every property theorem> "
                               "(run by ./check; thorough also `lake env leanchecker`)",
                "trusted_base": ["Lean 4.33.0 kernel", "axioms: propext, Classical.choice, Quot.sound only",
                                 "Mathlib v4.33.0 (kernel-checked lemmas)",
                                 "harness/*.py correspondence + oracle, lean/MenpoModel/Drive/*.lean parsing glue"]
                                + (["source-to-Lean translator: harness/py2lean*.py and the rule tables / vocabulary of "
                                    "harness/trans_%s*.py + lean/MenpoModel/Core/%sSrc*.lean (a rule that mistranslates an "
                                    "expression makes the obligation speak about something else; the translation is value "
                                    "level: .copy(), copy= flags, in-place vs rebinding and object identity are NOT visible "
                                    "to it - aliasing / non-mutation clauses are decided by the oracle's digests and the "
                                    "measured write tables)" % (self.prop.lower(), self.prop)]
                                   if os.path.exists(os.path.join(HARNESS, "trans_%s.py" % self.prop.lower())) else [])
                                + list(self.trusted),
                "theorems": {k: v for k, v in sorted(self.theorems.items())},
                "generated_obligations": self.gen_obligations,
                "broken_obligations": self.broken_obligations,
                "evaluations": max(self.evaluations, 0),
                "distinct_nontrivial": len(self.nontrivial),
                "rule": info.get("rule", ""),
                "samples": self.samples or ["(no case generated)"],
                "distribution": dict(sorted(self.dist.items())),
                "correspondence_mismatches": len(self.mismatches),
                "directed_search_cases": self.searched,
                "known_findings_reobserved": sorted("%s|%s" % k for k in self.known_seen),
                "partial_clauses": info.get("partial", []),
                "exhaustive": False,
            },
            "assumptions": list(info.get("assumptions", [])) + list(self.assumptions),
            "wall_s": round(time.time() - self.t0, 2),
            "violations": n_viol,
        }
        ev["coverage"].update(self.notes)
        ev["coverage"]["code_reach"] = code_reach(self.prop)
        d = os.path.join(ROOT, "evidence")
        os.makedirs(d, exist_ok=True)
        with open(os.path.join(d, self.prop + ".json"), "w") as f:
            json.dump(ev, f, indent=1, default=str)


def build_generated(ctx, files, targets, n_obligations):
    """Regenerated tables (DESIGN 2.3b).  `files`: {path relative to lean/: text} written only when changed;
    `targets`: the Generated/GenProps modules; `n_obligations`: how many obligations they state.
    A failure here is caused by what /repo says now, so it is recorded as a broken obligation
    (then: directed search, VIOLATION), never as an infrastructure error."""
    for rel, text in files.items():
        write_if_changed(os.path.join(LEAN, rel), text)
    ctx.gen_obligations += n_obligations
    ok, out = lake_build(targets)
    if not ok:
        errs = [l for l in out.splitlines() if "error" in l][:12]
        ctx.broken_obligations.append({"targets": list(targets), "errors": errs, "output_tail": out[-2500:]})
        return ok
    # the regenerated obligations are part of the proof: nothing in their import closure may contain sorry / axiom /
    # native_decide ... (a `sorry` only makes lake print a warning).  In a file written at run time it is a broken
    # obligation (what /repo says now made the translator emit it); in a hand-written file it is an infrastructure error.
    hits = forbidden_scan(list(targets))
    if hits:
        gen = [h for h in hits if any(h.startswith(os.path.join("lean", rel) + ":") for rel in files)]
        hand = [h for h in hits if h not in gen]
        if hand:
            raise Infra("forbidden construct in the Lean sources of the regenerated obligations:\n" + "\n".join(hand))
        ctx.broken_obligations.append({"targets": list(targets), "errors": gen[:12],
                                       "output_tail": "forbidden construct in a generated file"})
        return False
    ctx.notes.setdefault("generated_targets_scanned", [])
    ctx.notes["generated_targets_scanned"] = sorted(set(ctx.notes["generated_targets_scanned"]) | set(targets))
    return ok


def prepare_lean(ctx, prop, imports, theorems, targets=None, generated=None):
    """regenerate tables (if any), build, audit.  Hand-written build failure = Infra;
    a failing *generated* obligation is recorded in ctx.broken_obligations."""
    if generated:
        generated(ctx)
    ok, out = lake_build(targets or ["MenpoModel.Props." + prop, "MenpoModel.Drive." + prop])
    if not ok:
        raise Infra("lake build failed:\n" + out[-4000:])
    ax = axiom_audit(prop, imports, theorems)
    if ctx.tier == "thorough" and not os.environ.get("VERIF_SKIP_LEANCHECKER"):
        t1 = time.time()
        p = subprocess.run(["lake", "env", "leanchecker"] + list(imports), cwd=LEAN, stdout=subprocess.PIPE,
                           stderr=subprocess.STDOUT, text=True)
        if p.returncode != 0:
            raise Infra("leanchecker rejected %r:\n%s" % (imports, p.stdout[-3000:]))
        ctx.notes["leanchecker"] = "replayed %s in %.0fs: ok" % (" ".join(imports), time.time() - t1)
    for t in theorems:
        hit = [k for k in ax if k == t or k.endswith("." + t) or t.endswith("." + k)]
        ctx.theorems[t] = ax[hit[0]] if hit else []
    return ax
