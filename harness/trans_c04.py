"""C04 — the pseudoinverse code of menpo TRANSLATED from the source text of the current working tree into Lean
(`Generated/C04Src.lean`) on every run of `./check C04`; `GenProps/C04Src.lean` proves every translated definition equal
to the hand-written Core definition the C04 theorems are about.  harness/py2lean2.py is the translator, this file is the
C04 vocabulary (rules `python pattern -> Lean template` over the words of `Core/C04Src.lean`).

Translated (one Lean definition per Python function; the suffix names the call shape a body is specialised to, e.g. `_FT` =
`copy=False, skip_checks=True`, the shape every pseudoinverse path uses):

  homogeneous family   Homogeneous.pseudoinverse / _h_matrix_pseudoinverse / has_true_inverse / n_dims / h_matrix /
                       __init__ / _set_h_matrix, Affine.__init__ / _set_h_matrix / h_matrix / linear_component /
                       translation_component, Similarity.__init__, Translation.__init__ / pseudoinverse,
                       UniformScale.__init__ / scale / pseudoinverse, NonUniformScale.__init__ / scale / pseudoinverse,
                       Rotation.__init__ / set_rotation_matrix / rotation_matrix / pseudoinverse,
                       HomogFamilyAlignment.copy / pseudoinverse, VInvertible.pseudoinverse_vector
  which body runs on which class: the method table `supOf` regenerated from the live MRO
  thin plate splines   ThinPlateSplines.__init__ (plumbing: default kernel, options, the system matrix) / pseudoinverse /
                       has_true_inverse
  piecewise affine     AbstractPWA.__init__ / pseudoinverse / has_true_inverse, alpha_beta, barycentric_vectors,
                       AbstractPWA._apply, _rebuild_target_vectors (per point and triangle)
  set_target (warps)   Targetable.set_target / _target_setter_with_verification / _verify_target, Alignment._target_setter,
                       ThinPlateSplines._sync_state_from_target, AbstractPWA._sync_state_from_target
  tcoords.py           tcoords_to_image_coords, image_coords_to_tcoords
  apply                Homogeneous._apply (per point)

A function whose source no longer fits the vocabulary becomes a stub whose obligation cannot be proved (never a crash).
"""
import ast
import os

from . import py2lean2 as P
from .py2lean2 import Untranslatable

GEN_REL = os.path.join("MenpoModel", "Generated", "C04Src.lean")
GEN_TARGETS = ["MenpoModel.Generated.C04Src", "MenpoModel.GenProps.C04Src"]

FAMILY = ["Homogeneous", "Affine", "Similarity", "Rotation", "Translation", "UniformScale", "NonUniformScale",
          "AlignmentAffine", "AlignmentSimilarity", "AlignmentRotation", "AlignmentTranslation",
          "AlignmentUniformScale"]
CLS_LEAN = {"Homogeneous": "homogeneous", "Affine": "affine", "Similarity": "similarity", "Rotation": "rotation",
            "Translation": "translation", "UniformScale": "uniformScale", "NonUniformScale": "nonUniformScale",
            "AlignmentAffine": "alignmentAffine", "AlignmentSimilarity": "alignmentSimilarity",
            "AlignmentRotation": "alignmentRotation", "AlignmentTranslation": "alignmentTranslation",
            "AlignmentUniformScale": "alignmentUniformScale"}
# (Lean constructor of `Meth`, python attribute)
METHS = [("pseudoinverse", "pseudoinverse"), ("hMatrixPseudoinverse", "_h_matrix_pseudoinverse"),
         ("hasTrueInverse", "has_true_inverse"), ("pseudoinverseVector", "pseudoinverse_vector"), ("init", "__init__"),
         ("setHMatrix", "_set_h_matrix"), ("setRotationMatrix", "set_rotation_matrix"), ("copy", "copy"),
         ("hMatrix", "h_matrix"), ("nDims", "n_dims"), ("scale", "scale"),
         ("translationComponent", "translation_component"), ("linearComponent", "linear_component"),
         ("rotationMatrix", "rotation_matrix")]
SUP_NAMES = ["Homogeneous", "Affine", "Similarity", "Rotation", "Translation", "UniformScale", "NonUniformScale",
             "DiscreteAffine", "HomogFamilyAlignment", "AlignmentAffine", "AlignmentSimilarity", "AlignmentRotation",
             "AlignmentTranslation", "AlignmentUniformScale", "Alignment", "Invertible", "VInvertible", "Copyable",
             "Vectorizable", "Transform", "Targetable"]


# ======================================================================================================================
# the translator: py2lean2.Translator2 plus what the pseudoinverse code needs (kept here, py2lean2 itself is unchanged)
# ======================================================================================================================

class _SortKw(ast.NodeTransformer):
    """keyword arguments in a canonical order, so that `f(a, copy=False, skip_checks=True)` and
    `f(a, skip_checks=True, copy=False)` are the same call for the rules"""

    def visit_Call(self, node):
        self.generic_visit(node)
        node.keywords = sorted(node.keywords, key=lambda k: k.arg or "")
        return node


def _norm(node):
    return _SortKw().visit(node)


class Rules4(P.Rules2):
    """Rules2 plus: an expr rule may carry a 4th element {metavariable: required lean text} (the rule only applies to
    that call shape, anything else is `Untranslatable`); a stmt rule may carry a 4th element "bind" (the receiver's new
    value is computed in the Option monad) and a 5th element guard of the same kind; `end` may mention {python name}s
    (the current Lean name of that variable)."""

    def __init__(self, expr=(), stmt=(), **kw):
        ex, self.expr_guard = [], []
        for r in expr:
            ex.append((r[0], r[1], r[2] if len(r) > 2 else ""))
            self.expr_guard.append(r[3] if len(r) > 3 else {})
        st, self.stmt_flag, self.stmt_guard = [], [], []
        for r in stmt:
            st.append((r[0], r[1], r[2]))
            self.stmt_flag.append(r[3] if len(r) > 3 else "")
            self.stmt_guard.append(r[4] if len(r) > 4 else {})
        P.Rules2.__init__(self, expr=ex, stmt=st, **kw)
        self.expr = [(_norm(p), t, f) for p, t, f in self.expr]
        self.stmt = [(_norm(p), r, t) for p, r, t in self.stmt]


def _fold(text):
    """truth value of a translated condition that is a literal, else None"""
    t = text.strip()
    for _ in range(8):
        if t.startswith("(") and t.endswith(")") and t[1:-1].strip() in ("true", "false", "!true", "!false",
                                                                       "(!true)", "(!false)"):
            t = t[1:-1].strip()
        if t == "!true":
            t = "false"
        if t == "!false":
            t = "true"
    return True if t == "true" else False if t == "false" else None


def _indent(text, by="  "):
    return "\n".join(by + l if l.strip() else l for l in text.split("\n"))


class T4(P.Translator2):
    """Translator2 plus
      * monadic operands (`Rotation(np.linalg.inv(self.rotation_matrix))`): hoisted into binds in front of the statement;
      * stmt rules in the monad, rules guarded by the call shape;
      * `if` whose translated test is a literal (a keyword the call shape fixes): only the live branch (specialisation);
      * `import` / `from .. import` in a body: dropped;  float constants that are exact small rationals;
      * `x is None` / `x is not None`;  tuple assignment to attributes (`a.x, a.y = e1, e2`): right-hand sides first,
        then the stores one by one;  keyword arguments in canonical order."""

    def __init__(self, rules):
        P.Translator2.__init__(self, rules)
        self._pending = []
        self._tmp = 0
        self._defer_store = []          # (expression AST, {free name: its Lean name when the local was assigned})

    # ------------------------------------------------------------------------------------------------ expressions
    # ---------------------------------------------------------------- deferred (symbolic) local temporaries
    # `k = type(self.kernel)` ... `k(points)`: a refactoring may hoist a PART of an expression the vocabulary only has a
    # word for as a whole into a local.  When the right-hand side of an assignment to a plain local has no translation
    # of its own and is side-effect free (names, attributes, subscripts, arithmetic, `type(x)`, numpy calls), the local
    # is bound to the EXPRESSION and substituted where it is used - sound as long as none of the names the expression
    # mentions has been rebound or mutated in between (mutation = rebinding of the receiver in this translation), which
    # is checked at every use.
    _PURE_NODES = (ast.Name, ast.Attribute, ast.Subscript, ast.Slice, ast.Constant, ast.Tuple, ast.List, ast.UnaryOp,
                   ast.BinOp, ast.Compare, ast.BoolOp, ast.Load, ast.operator, ast.unaryop, ast.cmpop, ast.boolop,
                   ast.keyword, ast.expr_context)

    _PURE_METHODS = ("diagonal", "copy", "transpose", "ravel", "reshape", "dot", "astype")      # of arrays: new values

    @classmethod
    def _deferrable(cls, node):
        for n in ast.walk(node):
            if isinstance(n, ast.Call):
                f = n.func
                root = f
                while isinstance(root, ast.Attribute):
                    root = root.value
                ok = (isinstance(f, ast.Name) and f.id == "type" and len(n.args) == 1 and not n.keywords) or \
                     (isinstance(f, ast.Attribute) and isinstance(root, ast.Name) and root.id == "np") or \
                     (isinstance(f, ast.Attribute) and f.attr in cls._PURE_METHODS)
                if not ok:
                    return False
            elif not isinstance(n, cls._PURE_NODES):
                return False
        return True

    @staticmethod
    def _has_deferred(scope):
        return any(k.startswith("\0defer:") for k in scope)

    def _subst(self, node, scope):
        """`node` with every deferred local replaced by the expression it stands for"""
        if not self._has_deferred(scope):
            return node
        tr = self

        class Sub(ast.NodeTransformer):
            def visit_Name(self, n):
                key = "\0defer:" + n.id
                if isinstance(n.ctx, ast.Load) and key in scope and n.id not in scope:
                    expr_, snap = tr._defer_store[int(scope[key][2:])]
                    for nm, was in snap.items():
                        if scope.get(nm) != was:
                            raise Untranslatable("local `%s` = `%s` is used after `%s` changed" % (
                                n.id, ast.unparse(expr_), nm))
                    import copy
                    return copy.deepcopy(expr_)
                return n
        import copy
        return Sub().visit(copy.deepcopy(node))

    def bind_target(self, target, value, scope):
        lines, sc = P.Translator2.bind_target(self, target, value, scope)
        for n in ast.walk(target):
            if isinstance(n, ast.Name):
                sc.pop("\0defer:" + n.id, None)
                sc.pop("\0prov:" + n.id, None)
        return lines, sc

    # ---------------------------------------------------------------- marks that survive assignment to a local
    # `cur = self.target` ... `cur is None`: a rule written about `self.target is None` must still apply.  Every local
    # bound to a side-effect free expression remembers that expression; when no rule matches an expression as written, the
    # rules get a second chance on the expression with such locals expanded (valid only while the operands are unchanged).
    def _expand_prov(self, node, scope):
        if not any(k.startswith("\0prov:") for k in scope):
            return None
        tr, hit = self, []

        class Sub(ast.NodeTransformer):
            def visit_Name(self, n):
                key = "\0prov:" + n.id
                if isinstance(n.ctx, ast.Load) and key in scope:
                    expr_, snap = tr._defer_store[int(scope[key][2:])]
                    # valid only while the operands AND the local itself still have the binding they had then
                    if all(scope.get(nm) == was for nm, was in snap.items()):
                        import copy
                        hit.append(n.id)
                        return copy.deepcopy(expr_)
                return n
        import copy
        alt = Sub().visit(copy.deepcopy(node))
        return alt if hit else None

    # ---------------------------------------------------------------- one call, several spellings
    def _resolve_callee(self, func):
        """the live callable a `Name` / dotted `Name.attr` in the function's module denotes, or None"""
        chain = []
        while isinstance(func, ast.Attribute):
            chain.append(func.attr)
            func = func.value
        if not isinstance(func, ast.Name):
            return None
        g = getattr(self, "_globals", {}) or {}
        obj = g.get(func.id)
        if obj is None:
            try:
                obj = _cls(func.id)
            except Untranslatable:
                return None
        for a in reversed(chain):
            obj = getattr(obj, a, None)
            if obj is None:
                return None
        return obj

    def _call_variants(self, node):
        """the same call with keyword arguments moved to their positions / trailing positional arguments named, one
        step at a time (`UniformScale(s, n_dims=n, skip_checks=True)` = `UniformScale(s, n, skip_checks=True)`)"""
        if not isinstance(node, ast.Call) or any(isinstance(a, ast.Starred) for a in node.args) \
                or any(k.arg is None for k in node.keywords):
            return
        import inspect
        import copy
        obj = self._resolve_callee(node.func)
        if obj is None:
            return
        try:
            params = [p_ for p_ in inspect.signature(obj).parameters.values()
                      if p_.kind in (p_.POSITIONAL_OR_KEYWORD,)]
        except (TypeError, ValueError):
            return
        names = [p_.name for p_ in params]
        cur = copy.deepcopy(node)
        while len(cur.args) < len(names):           # keywords -> positions
            nm = names[len(cur.args)]
            kw = [k for k in cur.keywords if k.arg == nm]
            if not kw:
                break
            cur = copy.deepcopy(cur)
            cur.args.append(kw[0].value)
            cur.keywords = [k for k in cur.keywords if k.arg != nm]
            yield _norm(cur)
        cur = copy.deepcopy(node)
        while cur.args and len(cur.args) <= len(names):     # trailing positions -> keywords
            nm = names[len(cur.args) - 1]
            if any(k.arg == nm for k in cur.keywords):
                break
            cur = copy.deepcopy(cur)
            val = cur.args.pop()
            cur.keywords.append(ast.keyword(arg=nm, value=val))
            yield _norm(cur)

    def _match_rules(self, node, scope):
        for i, (pat, tmpl, flag) in enumerate(self.r.expr):
            env = {}
            if P.match(pat, node, env):
                self.used_rules.add(i)
                vals = {k: self.pure(v, scope) for k, v in env.items()}
                for k, want in self.r.expr_guard[i].items():
                    if vals.get(k) != want:
                        raise Untranslatable("call shape changed (`%s`: %s is %s, not %s)" % (
                            ast.unparse(node), k, vals.get(k), want))
                return tmpl.format(**vals), flag
        return None

    def expr(self, node, scope):
        node = self._subst(node, scope)
        got = self._match_rules(node, scope)
        if got is not None:
            return got
        for alt in self._call_variants(node):
            got = self._match_rules(alt, scope)
            if got is not None:
                return got
        alt = None if isinstance(node, ast.Name) else self._expand_prov(node, scope)
        if alt is not None:
            got = self._match_rules(alt, scope)
            if got is not None:
                return got
        if isinstance(node, ast.Constant) and isinstance(node.value, float):
            from fractions import Fraction
            q = Fraction(node.value)
            if q.denominator == 1 and abs(q.numerator) < 10 ** 6:
                return "(%d)" % q.numerator, ""
            if q.denominator in (2, 4, 8, 16) and abs(q.numerator) < 10 ** 6:
                return "((%d : Rat) / %d)" % (q.numerator, q.denominator), ""
            raise Untranslatable("float constant %r" % node.value)
        if (isinstance(node, ast.Compare) and len(node.ops) == 1 and isinstance(node.ops[0], (ast.Is, ast.IsNot))
                and isinstance(node.comparators[0], ast.Constant) and node.comparators[0].value is None):
            x = self.pure(node.left, scope)
            neg = isinstance(node.ops[0], ast.IsNot)
            if x == "none":
                return ("false" if neg else "true"), ""
            if x.startswith("(some "):
                return ("true" if neg else "false"), ""
            return "(%s(%s).isNone)" % ("!" if neg else "", x), ""
        return P.Translator2.expr(self, node, scope)

    def pure(self, node, scope):
        e, flag = self.expr(node, scope)
        if flag == "bind":
            if not self._pending:
                raise Untranslatable("monadic operand outside a statement: `%s`" % ast.unparse(node))
            tmp = "t_%d" % self._tmp
            self._tmp += 1
            self._pending[-1].append((e, tmp))
            return tmp
        return e

    # ------------------------------------------------------------------------------------------------ statements
    def block(self, stmts, scope, ind, ctx):
        self._pending.append([])
        try:
            text = self._block1(stmts, scope, ind, ctx)
        finally:
            pend = self._pending.pop()
        pad = "  " * ind
        for e, tmp in reversed(pend):
            text = "%s(%s).bind fun %s =>\n%s" % (pad, e, tmp, _indent(text))
        return text

    def _block1(self, stmts, scope, ind, ctx):
        pad = "  " * ind
        if not stmts:
            return ctx.end(scope, ind)
        st, rest = stmts[0], stmts[1:]
        if isinstance(st, (ast.Import, ast.ImportFrom)):
            return self.block(rest, scope, ind, ctx)
        if self._has_deferred(scope) and not isinstance(st, (ast.If, ast.For, ast.While)):
            st = self._subst(st, scope)
            stmts = [st] + list(rest)
        if (isinstance(st, ast.Assign) and len(st.targets) == 1 and isinstance(st.targets[0], ast.Name)
                and self._deferrable(st.value)):
            mark, tmp0 = len(self._pending[-1]), self._tmp
            try:
                self.expr(st.value, scope)
                known = True
            except Untranslatable:
                known = False
            del self._pending[-1][mark:]
            self._tmp = tmp0
            if known:
                e, flag = self.expr(st.value, scope)
                if flag != "bind":          # a pure let: bound as usual, and the local remembers what it stands for
                    lines, sc = self.bind_target(st.targets[0], e, scope)
                    snap = {n.id: scope.get(n.id) for n in ast.walk(st.value) if isinstance(n, ast.Name) and n.id in scope}
                    snap[st.targets[0].id] = sc[st.targets[0].id]       # any later rebinding of the local ends the memory
                    self._defer_store.append((st.value, snap))
                    sc["\0prov:" + st.targets[0].id] = "\0P%d" % (len(self._defer_store) - 1)
                    return "".join(pad + l + "\n" for l in lines) + self.block(rest, sc, ind, ctx)
                del self._pending[-1][mark:]
                self._tmp = tmp0
            if not known:
                name = st.targets[0].id
                snap = {n.id: scope.get(n.id) for n in ast.walk(st.value) if isinstance(n, ast.Name) and n.id in scope}
                sc = dict(scope)
                sc.pop(name, None)
                self._defer_store.append((st.value, snap))
                sc["\0defer:" + name] = "\0D%d" % (len(self._defer_store) - 1)
                return self.block(rest, sc, ind, ctx)
        if isinstance(st, ast.Return) and st.value is None and ctx.brk is None:
            return ctx.end(scope, ind)          # bare `return` = falling off the end
        if isinstance(st, ast.If):
            c = self.pure(st.test, scope)
            v = _fold(c)
            if v is not None:
                return self.block(list(st.body if v else st.orelse) + rest, dict(scope), ind, ctx)
            a = self.block(list(st.body) + rest, dict(scope), ind + 1, ctx)
            b = self.block(list(st.orelse) + rest, dict(scope), ind + 1, ctx)
            return "%sif %s then\n%s\n%selse\n%s" % (pad, c, a, pad, b)
        for i, (pat, recv, tmpl) in enumerate(self.r.stmt):
            env = {}
            if P.match(pat, st, env):
                self.used_rules.add(("s", i))
                target = env[recv]
                if not isinstance(target, ast.Name):
                    raise Untranslatable("in-place statement on a non-variable: `%s`" % ast.unparse(st))
                vals = {k: self.pure(v, scope) for k, v in env.items()}
                for k, want in self.r.stmt_guard[i].items():
                    if vals.get(k) != want:
                        raise Untranslatable("call shape changed (`%s`: %s is %s, not %s)" % (
                            ast.unparse(st), k, vals.get(k), want))
                val = tmpl.format(**vals)
                new = self.fresh(target.id, scope)
                sc = dict(scope)
                sc[target.id] = new
                if self.r.stmt_flag[i] == "bind":
                    return "%s(%s).bind fun %s =>\n%s" % (pad, val, new, self.block(rest, sc, ind + 1, ctx))
                return "%slet %s := %s\n%s" % (pad, new, val, self.block(rest, sc, ind, ctx))
        if (isinstance(st, ast.Assign) and len(st.targets) == 1 and isinstance(st.targets[0], ast.Tuple)
                and not all(isinstance(e, ast.Name) for e in st.targets[0].elts)
                and isinstance(st.value, ast.Tuple) and len(st.value.elts) == len(st.targets[0].elts)):
            # a.x, a.y = e1, e2 : evaluate the right-hand sides, then store one by one
            sc = dict(scope)
            lines, stores = [], []
            for tgt, val in zip(st.targets[0].elts, st.value.elts):
                if isinstance(val, ast.Constant):          # nothing to evaluate first
                    stores.append(ast.Assign(targets=[tgt], value=val))
                    continue
                e = self.pure(val, sc)
                tmp = "v_%d" % self._tmp
                self._tmp += 1
                pyname = "\0rhs" + tmp
                sc[pyname] = tmp
                lines.append("%slet %s := %s\n" % (pad, tmp, e))
                stores.append(ast.Assign(targets=[tgt], value=ast.Name(id=pyname, ctx=ast.Load())))
            return "".join(lines) + self.block(stores + rest, sc, ind, ctx)
        if (isinstance(st, ast.Assign) and len(st.targets) == 1 and isinstance(st.targets[0], ast.Tuple)
                and all(isinstance(e, ast.Name) for e in st.targets[0].elts)):
            e = self.pure(st.value, scope)          # a monadic right-hand side is hoisted, then destructured
            lines, sc = self.bind_target(st.targets[0], e, scope)
            return "".join(pad + l + "\n" for l in lines) + self.block(rest, sc, ind, ctx)
        if isinstance(st, ast.Assign) and len(st.targets) == 1 and isinstance(st.targets[0], (ast.Attribute, ast.Subscript)):
            raise Untranslatable("no rule for the store `%s`" % ast.unparse(st).splitlines()[0])
        return P.Translator2.block(self, stmts, scope, ind, ctx)

    def top_ctx(self):
        def end(scope, ind):
            if self.r.end is None:
                raise Untranslatable("control reaches the end of the function without return/raise")
            try:
                return "  " * ind + self.r.end.format(**{k: v for k, v in scope.items() if k.isidentifier()})
            except KeyError as e:
                raise Untranslatable("end of function: no variable %s" % e)
        return P._Ctx(exit_=lambda v, s, i: "  " * i + v, end=end)

    def function(self, fn, arg_names, ind=1, allow_unused=("kwargs",)):
        node, _src = P.source_ast(fn)
        node = _norm(node)
        self._globals = getattr(fn, "__globals__", {})
        a = node.args
        params = [x.arg for x in a.posonlyargs + a.args + a.kwonlyargs]
        if a.vararg:
            params.append(a.vararg.arg)
        if a.kwarg:
            params.append(a.kwarg.arg)
        mentioned = {n.id for st in node.body for n in ast.walk(st) if isinstance(n, ast.Name)}
        for p in params:
            if p not in arg_names and not (p in allow_unused and p not in mentioned):
                raise Untranslatable("signature of %s changed: %s" % (node.name, ast.unparse(node.args)))
        for p in arg_names:
            if p not in params:
                raise Untranslatable("signature of %s changed: %s" % (node.name, ast.unparse(node.args)))
        return self.block(list(node.body), dict(arg_names), ind, self.top_ctx())


# ======================================================================================================================
# the vocabulary
# ======================================================================================================================

HT = "HT d α"
IMPL = "{d : Nat} {α : Type}"
FT = {"c": "false", "k": "true"}

# ---- words every body of the homogeneous family may use (specific patterns first)
HOM_EXPR = [
    ("np.linalg.inv($x)", "inv {x}", "bind"),
    ("$s._h_matrix_pseudoinverse()", "m_h_matrix_pseudoinverse {s}", "bind"),
    ("$s._h_matrix.copy()", "({s}).h"),
    ("$s._h_matrix", "({s}).h"),
    ("$s.h_matrix", "m_h_matrix {s}", "bind"),
    ("$s.translation_component", "m_translation_component {s}", "bind"),
    ("$s.linear_component", "m_linear_component {s}", "bind"),
    ("$s.rotation_matrix", "m_rotation_matrix {s}", "bind"),
    ("$s.n_dims", "m_n_dims {s}", "bind"),
    ("$s._source", "({s}).source"),
    ("$s._target", "({s}).target"),
    ("$s.__class__.__new__($s.__class__)", "(HT.blank ({s}).cls : " + HT + ")"),
    # `copy=` of a freshly computed inverse matrix is immaterial at value level (the translation does not see aliasing)
    ("$s.__class__($m, copy=$c, skip_checks=True)", "ctor_dyn_FT ({s}).cls {m}", "bind"),
    ("$s.__class__($m, skip_checks=True)", "ctor_dyn_FT ({s}).cls {m}", "bind"),
    ("Translation($t, skip_checks=True)", "ctor_Translation_T {t}", "bind"),
    ("UniformScale($x, $n, skip_checks=True)", "ctor_UniformScale_T {x} {n}", "bind"),
    ("NonUniformScale($v, skip_checks=True)", "ctor_NonUniformScale_T {v}", "bind"),
    ("Rotation($r, skip_checks=True)", "ctor_Rotation_T {r}", "bind"),
    ("np.eye($n)", "(npEyeD {n})"),
]
HOM_STMT = [
    ("$s._h_matrix = None", "s", "{s}"),
    ("$s._h_matrix[:-1, :-1] = $v", "s", "({s}).setH (setLin ({s}).h {v})"),
    ("$s._h_matrix = $v", "s", "({s}).setH {v}"),
    ("$h[:-1, -1] = $t", "h", "(setTransCol {h} {t})"),
    ("$h[-1, -1] = $x", "h", "(setCorner {h} {x})"),
    ("$s.__dict__ = $o.__dict__.copy()", "s", "({s}).withDictOf {o}"),
    ("$s._source = $v", "s", "({s}).setSource {v}"),
    ("$s._target = $v", "s", "({s}).setTarget {v}"),
    ("$s._set_h_matrix($v, copy=$c, skip_checks=$k)", "s", "m_set_h_matrix_FT {s} {v}", "bind", FT),
    ("$s.set_rotation_matrix($v, skip_checks=$k)", "s", "m_set_rotation_matrix_T {s} {v}", "bind", {"k": "true"}),
    ("Homogeneous.__init__($s, $h, copy=$c, skip_checks=$k)", "s", "gen_Homogeneous_init_FT {s} {h}", "bind", FT),
    ("Affine.__init__($s, $h, copy=$c, skip_checks=$k)", "s", "gen_Affine_init_FT {s} {h}", "bind", FT),
    ("Similarity.__init__($s, $h, copy=$c, skip_checks=$k)", "s", "gen_Similarity_init_FT {s} {h}", "bind", FT),
]


def hom_rules(expr=(), stmt=(), end=None):
    return Rules4(expr=list(expr) + HOM_EXPR, stmt=list(stmt) + HOM_STMT, ret="some ({e})", raise_="none", end=end)


def _cls(name):
    """the live class of that name (homogeneous family, mix-ins, warps)"""
    import menpo.transform as T
    from menpo.transform.homogeneous import base as hb
    from menpo.transform.homogeneous.affine import DiscreteAffine
    from menpo.transform.base import invertible, alignment
    from menpo.transform.piecewiseaffine import base as pb
    import menpo.base as mb
    for mod in (T, hb, invertible, alignment, pb, mb):
        if hasattr(mod, name):
            return getattr(mod, name)
    if name == "DiscreteAffine":
        return DiscreteAffine
    raise Untranslatable("class %s not found" % name)


def _fn(cls_name, attr):
    """the plain function behind a method / property of the class that DEFINES it"""
    c = _cls(cls_name)
    if attr not in vars(c):
        raise Untranslatable("%s no longer defines %s" % (cls_name, attr))
    f = vars(c)[attr]
    if isinstance(f, property):
        f = f.fget
    if isinstance(f, (staticmethod, classmethod)):
        f = f.__func__
    return f


def method_table():
    """{class: {python attribute: supplier class name or '-'}} from the live MRO"""
    import menpo.transform as T
    out = {}
    for n in FAMILY:
        c = getattr(T, n, None)
        row = {}
        for _lean, attr in METHS:
            row[attr] = "-" if c is None else next((k.__name__ for k in c.__mro__ if attr in vars(k)), "-")
        out[n] = row
    return out


def sup_lean(name):
    if name == "-":
        return ".missing"
    if name in SUP_NAMES:
        return "." + name
    return '(.other "%s")' % name


# ---- the items: (key, lean signature, function getter, python parameter -> lean term, rules, stub body)

def items(tab):
    """list of (name, signature line, thunk -> body text, stub).  `tab` = method_table()."""
    out = []

    def add(name, sig, cls_name, attr, args, rules, stub="none"):
        def thunk():
            return T4(rules).function(_fn(cls_name, attr), args, ind=1)
        out.append((name, "def %s %s :=" % (name, sig), thunk, "  " + stub))

    def suppliers(attr, ignore=("-", "Copyable", "Targetable")):
        seen = []
        for n in FAMILY:
            s = tab[n][attr]
            if s not in seen and s not in ignore:
                seen.append(s)
        return seen

    def dispatcher(name, meth, attr, bodies, arg_sig, arg_app, res, known):
        """the Lean text of the dispatcher `name`: the body of the class the table names for the receiver's class"""
        pairs = ", ".join("(%s, %s)" % (sup_lean(s), b) for s, b in bodies)
        return ("def %s %s (s : %s)%s : Option (%s) :=\n"
                "  (callM (β := %s) [%s] (supOf s.cls .%s)).bind fun f => f s%s\n" % (
                    name, IMPL, HT, arg_sig, res, known, pairs, meth, arg_app))

    # --- properties
    add("gen_Homogeneous_h_matrix", "%s (self : %s) : Option (Mat (d + 1))" % (IMPL, HT), "Homogeneous", "h_matrix",
        {"self": "self"}, hom_rules())
    add("gen_Affine_h_matrix", "%s (self : %s) : Option (Mat (d + 1))" % (IMPL, HT), "Affine", "h_matrix",
        {"self": "self"}, hom_rules())
    out.append(("m_h_matrix", None, dispatcher(
        "m_h_matrix", "hMatrix", "h_matrix",
        [(s, "gen_%s_h_matrix" % s) for s in suppliers("h_matrix") if s in ("Homogeneous", "Affine")],
        "", "", "Mat (d + 1)", "%s → Option (Mat (d + 1))" % HT), None))
    add("gen_Homogeneous_n_dims", "%s (self : %s) : Option Nat" % (IMPL, HT), "Homogeneous", "n_dims", {"self": "self"},
        hom_rules(expr=[("$m.shape[1]", "(shapeOf {m})")]))
    out.append(("m_n_dims", None, dispatcher(
        "m_n_dims", "nDims", "n_dims", [(s, "gen_%s_n_dims" % s) for s in suppliers("n_dims") if s == "Homogeneous"],
        "", "", "Nat", "%s → Option Nat" % HT), None))
    add("gen_Affine_translation_component", "%s (self : %s) : Option (Vec d)" % (IMPL, HT), "Affine",
        "translation_component", {"self": "self"}, hom_rules(expr=[("$m[:-1, -1]", "(transPart {m})")]))
    out.append(("m_translation_component", None, dispatcher(
        "m_translation_component", "translationComponent", "translation_component",
        [(s, "gen_%s_translation_component" % s) for s in suppliers("translation_component") if s == "Affine"],
        "", "", "Vec d", "%s → Option (Vec d)" % HT), None))
    add("gen_Affine_linear_component", "%s (self : %s) : Option (Mat d)" % (IMPL, HT), "Affine", "linear_component",
        {"self": "self"}, hom_rules(expr=[("$m[:-1, :-1]", "(linPart {m})")]))
    out.append(("m_linear_component", None, dispatcher(
        "m_linear_component", "linearComponent", "linear_component",
        [(s, "gen_%s_linear_component" % s) for s in suppliers("linear_component") if s == "Affine"],
        "", "", "Mat d", "%s → Option (Mat d)" % HT), None))
    add("gen_Rotation_rotation_matrix", "%s (self : %s) : Option (Mat d)" % (IMPL, HT), "Rotation", "rotation_matrix",
        {"self": "self"}, hom_rules())
    out.append(("m_rotation_matrix", None, dispatcher(
        "m_rotation_matrix", "rotationMatrix", "rotation_matrix",
        [(s, "gen_%s_rotation_matrix" % s) for s in suppliers("rotation_matrix") if s == "Rotation"],
        "", "", "Mat d", "%s → Option (Mat d)" % HT), None))
    add("gen_UniformScale_scale", "%s (self : %s) : Option Rat" % (IMPL, HT), "UniformScale", "scale", {"self": "self"},
        hom_rules(expr=[("$m[0, 0]", "({m} 0 0)")]))
    add("gen_NonUniformScale_scale", "%s (self : %s) : Option (Vec d)" % (IMPL, HT), "NonUniformScale", "scale",
        {"self": "self"}, hom_rules(expr=[("$m.diagonal()[:-1].copy()", "(diagHead {m})")]))
    out.append(("m_scale_u", None, dispatcher(
        "m_scale_u", "scale", "scale", [(s, "gen_%s_scale" % s) for s in suppliers("scale") if s == "UniformScale"],
        "", "", "Rat", "%s → Option Rat" % HT), None))
    out.append(("m_scale_v", None, dispatcher(
        "m_scale_v", "scale", "scale", [(s, "gen_%s_scale" % s) for s in suppliers("scale") if s == "NonUniformScale"],
        "", "", "Vec d", "%s → Option (Vec d)" % HT), None))

    # --- _set_h_matrix (copy=False, skip_checks=True), set_rotation_matrix (skip_checks=True)
    seth_sig = "%s (self : %s) (value : Mat (d + 1)) : Option (%s)" % (IMPL, HT, HT)
    seth_args = {"self": "self", "value": "value", "copy": "false", "skip_checks": "true"}
    seth_rules = hom_rules(expr=[("$x.copy()", "{x}")], end="some {self}")
    seth_bodies = []
    for s in suppliers("_set_h_matrix"):
        if s in ("Homogeneous", "Affine"):
            add("gen_%s_set_h_matrix_FT" % s, seth_sig, s, "_set_h_matrix", seth_args, seth_rules)
            seth_bodies.append((s, "gen_%s_set_h_matrix_FT" % s))
    out.append(("m_set_h_matrix_FT", None, dispatcher(
        "m_set_h_matrix_FT", "setHMatrix", "_set_h_matrix", seth_bodies, " (value : Mat (d + 1))", " value", HT,
        "%s → Mat (d + 1) → Option (%s)" % (HT, HT)), None))
    add("gen_Rotation_set_rotation_matrix_T", "%s (self : %s) (value : Mat d) : Option (%s)" % (IMPL, HT, HT), "Rotation",
        "set_rotation_matrix", {"self": "self", "value": "value", "skip_checks": "true"}, hom_rules(end="some {self}"))
    out.append(("m_set_rotation_matrix_T", None, dispatcher(
        "m_set_rotation_matrix_T", "setRotationMatrix", "set_rotation_matrix",
        [(s, "gen_%s_set_rotation_matrix_T" % s) for s in suppliers("set_rotation_matrix") if s == "Rotation"],
        " (value : Mat d)", " value", HT, "%s → Mat d → Option (%s)" % (HT, HT)), None))

    # --- constructors (copy=False, skip_checks=True)
    init_sig = "%s (self : %s) (hmatrix : Mat (d + 1)) : Option (%s)" % (IMPL, HT, HT)
    init_args = {"self": "self", "h_matrix": "hmatrix", "copy": "false", "skip_checks": "true"}
    for c in ("Homogeneous", "Affine", "Similarity"):
        add("gen_%s_init_FT" % c, init_sig, c, "__init__", init_args, hom_rules(end="some {self}"))
    dyn = [(s, "gen_%s_init_FT" % s) for s in suppliers("__init__") if s in ("Homogeneous", "Affine", "Similarity")]
    out.append(("ctor_dyn_FT", None, (
        "/-- `cls(h_matrix, copy=False, skip_checks=True)` for a class whose `__init__` takes a matrix -/\n"
        "def ctor_dyn_FT %s (c : Cls) (hmatrix : Mat (d + 1)) : Option (%s) :=\n"
        "  (callM (β := %s → Mat (d + 1) → Option (%s)) [%s] (supOf c .init)).bind fun f => f (HT.blank c) hmatrix\n" % (
            IMPL, HT, HT, HT, ", ".join("(%s, %s)" % (sup_lean(s), b) for s, b in dyn))), None))
    add("gen_Translation_init_T", "%s (self : %s) (translation : Vec d) : Option (%s)" % (IMPL, HT, HT), "Translation",
        "__init__", {"self": "self", "translation": "translation", "skip_checks": "true"},
        hom_rules(expr=[("np.asarray($x)", "{x}"), ("$x.shape[0]", "(vlen {x})")], end="some {self}"))
    add("gen_UniformScale_init_T", "%s (self : %s) (scale : Rat) (ndims : Nat) : Option (%s)" % (IMPL, HT, HT),
        "UniformScale", "__init__", {"self": "self", "scale": "scale", "n_dims": "ndims", "skip_checks": "true"},
        hom_rules(stmt=[("np.fill_diagonal($h, $x)", "h", "(fillDiag {h} {x})")], end="some {self}"))
    add("gen_NonUniformScale_init_T", "%s (self : %s) (scale : Vec d) : Option (%s)" % (IMPL, HT, HT), "NonUniformScale",
        "__init__", {"self": "self", "scale": "scale", "skip_checks": "true"},
        hom_rules(expr=[("np.asarray($x)", "{x}"), ("$x.size", "(vlen {x})")],
                  stmt=[("np.fill_diagonal($h, $x)", "h", "(fillDiagVec {h} {x})")], end="some {self}"))
    add("gen_Rotation_init_T", "%s (self : %s) (rotationmatrix : Mat d) : Option (%s)" % (IMPL, HT, HT), "Rotation",
        "__init__", {"self": "self", "rotation_matrix": "rotationmatrix", "skip_checks": "true"},
        hom_rules(expr=[("$x.shape[0]", "(shapeOf {x})")], end="some {self}"))
    for c, sig, app in (("Translation", "(t : Vec d)", "t"), ("UniformScale", "(x : Rat) (n : Nat)", "x n"),
                        ("NonUniformScale", "(v : Vec d)", "v"), ("Rotation", "(r : Mat d)", "r")):
        out.append(("ctor_%s_T" % c, None, (
            "/-- `%s(…, skip_checks=True)`: `__new__`, then the `__init__` the class resolves to -/\n"
            "def ctor_%s_T %s %s : Option (%s) :=\n"
            "  if supOf .%s .init = .%s then gen_%s_init_T (HT.blank .%s) %s else none\n" % (
                c, c, IMPL, sig, HT, CLS_LEAN[c], c, c, CLS_LEAN[c], app)), None))

    # --- _h_matrix_pseudoinverse, has_true_inverse
    add("gen_Homogeneous_h_matrix_pseudoinverse", "%s (self : %s) : Option (Mat (d + 1))" % (IMPL, HT), "Homogeneous",
        "_h_matrix_pseudoinverse", {"self": "self"}, hom_rules())
    out.append(("m_h_matrix_pseudoinverse", None, dispatcher(
        "m_h_matrix_pseudoinverse", "hMatrixPseudoinverse", "_h_matrix_pseudoinverse",
        [(s, "gen_%s_h_matrix_pseudoinverse" % s) for s in suppliers("_h_matrix_pseudoinverse") if s == "Homogeneous"],
        "", "", "Mat (d + 1)", "%s → Option (Mat (d + 1))" % HT), None))
    add("gen_Homogeneous_has_true_inverse", "%s (self : %s) : Option Bool" % (IMPL, HT), "Homogeneous",
        "has_true_inverse", {"self": "self"}, hom_rules())
    out.append(("m_has_true_inverse", None, dispatcher(
        "m_has_true_inverse", "hasTrueInverse", "has_true_inverse",
        [(s, "gen_%s_has_true_inverse" % s) for s in suppliers("has_true_inverse") if s == "Homogeneous"],
        "", "", "Bool", "%s → Option Bool" % HT), None))

    # --- copy (alignments), the pseudoinverse bodies
    add("gen_HomogFamilyAlignment_copy", "%s (self : %s) : Option (%s)" % (IMPL, HT, HT), "HomogFamilyAlignment", "copy",
        {"self": "self"}, hom_rules())
    out.append(("m_copy", None, dispatcher(
        "m_copy", "copy", "copy",
        [(s, "gen_%s_copy" % s) for s in suppliers("copy") if s == "HomogFamilyAlignment"],
        "", "", HT, "%s → Option (%s)" % (HT, HT)), None))
    pinv_sig = "%s (self : %s) : Option (%s)" % (IMPL, HT, HT)
    pinv_extra = {
        "Homogeneous": hom_rules(),
        "HomogFamilyAlignment": hom_rules(expr=[("$s.copy()", "m_copy {s}", "bind")]),
        "Translation": hom_rules(expr=[("-$x", "(vneg {x})")]),
        "UniformScale": hom_rules(expr=[("$s.scale", "m_scale_u {s}", "bind"), ("1.0 / $x", "(1 / {x})")]),
        "NonUniformScale": hom_rules(expr=[("$s.scale", "m_scale_v {s}", "bind"), ("1.0 / $x", "(vrecip {x})")]),
        "Rotation": hom_rules(),
    }
    pinv_bodies = []
    for s in suppliers("pseudoinverse"):
        name = "gen_%s_pseudoinverse" % s
        if s in pinv_extra:
            add(name, pinv_sig, s, "pseudoinverse", {"self": "self"}, pinv_extra[s])
        else:
            # a class the vocabulary does not know supplies pseudoinverse now: try with the plain words, else a stub
            add(name, pinv_sig, s, "pseudoinverse", {"self": "self"}, hom_rules())
        pinv_bodies.append((s, name))
    out.append(("srcPinv", None, (
        "/-- `t.pseudoinverse()` AS THE SOURCE SAYS IT NOW: the translated body of the class the live MRO names -/\n"
        + dispatcher("srcPinv", "pseudoinverse", "pseudoinverse", pinv_bodies, "", "", HT,
                     "%s → Option (%s)" % (HT, HT))), None))

    # --- pseudoinverse_vector (from_vector / as_vector are parameters: C05's subject)
    def pv():
        r = Rules4(expr=[("$s.from_vector($v)", "fromVec {s} {v}", "bind"), ("$s.pseudoinverse()", "srcPinv {s}", "bind"),
                         ("$s.as_vector()", "(asVec {s})")], ret="some ({e})", raise_="none")
        return T4(r).function(_fn("VInvertible", "pseudoinverse_vector"), {"self": "self", "vector": "vector"}, ind=1)
    out.append(("gen_VInvertible_pseudoinverse_vector",
                "def gen_VInvertible_pseudoinverse_vector {d : Nat} {α V : Type} (fromVec : %s → V → Option (%s)) "
                "(asVec : %s → V) (self : %s) (vector : V) : Option V :=" % (HT, HT, HT, HT), pv, "  none"))
    return out


# ---- thin plate splines, piecewise affine, tcoords, the apply kernels

def warp_items():
    out = []
    import menpo.transform as T
    from menpo.transform import tcoords as tc
    from menpo.transform.piecewiseaffine import base as pb

    TPSO = "TPSObj n"
    tps_expr = [
        ("$s.n_dims", "(2)"),
        ("$s.min_singular_val", "({s}).msv"),
        ("$s.kernel.apply($p)", "(kernApply φ ({s}).kernel {p})"),
        ("type($s.kernel)($p)", "(({s}).kernel.map fun k0 => Kernel.mk k0.cls {p})"),
        ("$s.kernel", "({s}).kernel"),
        ("R2LogR2RBF($p)", "(some (Kernel.mk .R2LogR2RBF {p}))"),
        ("$s.source.points", "({s}).src"), ("$s.target.points", "({s}).tgt"),
        ("$s.source", "({s}).src"), ("$s.target", "({s}).tgt"),
        ("$x.points", "{x}"),
        ("np.concatenate([np.ones([$s.n_points, 1]), $p], axis=1)", "(pMat {p})"),
        ("np.zeros([3, 3])", "zeros33"),
        ("np.concatenate([$a, $b], axis=1)", "(hcat {a} {b})"),
        ("np.concatenate([$a, $b], axis=0)", "(vcat {a} {b})"),
        ("$s.k", "(arrOr0 ({s}).k)"), ("$s.p.T", "(trM (arrOr0 ({s}).p))"), ("$s.p", "(arrOr0 ({s}).p)"),
        ("ThinPlateSplines($a, $b, kernel=$k, min_singular_val=$m)",
         "gen_ThinPlateSplines_init φ TPSObj.blank {a} {b} {k} {m}", "bind"),
    ]
    tps_stmt = [
        ("Alignment.__init__($s, $a, $b)", "s", "{{ {s} with src := {a}, tgt := {b} }}"),
        ("$s.min_singular_val = $v", "s", "{{ {s} with msv := {v} }}"),
        ("$s.kernel = $v", "s", "{{ {s} with kernel := {v} }}"),
        ("$s.k = $v", "s", "{{ {s} with k := some {v} }}"),
        ("$s.p = $v", "s", "{{ {s} with p := some {v} }}"),
        ("$s.l = $v", "s", "{{ {s} with l := some {v} }}"),
        ("$s.v = $x", "s", "{s}"), ("$s.y = $x", "s", "{s}"), ("$s.coefficients = $x", "s", "{s}"),
        ("$s._build_coefficients()", "s", "{s}"),
    ]

    def tps(attr, args, end=None):
        def thunk():
            r = Rules4(expr=tps_expr, stmt=tps_stmt, ret="some ({e})", raise_="none", end=end)
            f = vars(T.ThinPlateSplines)[attr]
            if isinstance(f, property):
                f = f.fget
            tr = T4(r)
            if attr == "__init__":
                dflt = tr.defaults(f)
                if dflt.get("kernel") != "None":
                    raise Untranslatable("default of `kernel` changed: %r" % dflt)
            return tr.function(f, args, ind=1)
        return thunk
    out.append(("gen_ThinPlateSplines_init",
                "def gen_ThinPlateSplines_init {n : Nat} (φ : KCls → Rat → Rat) (self : %s) (source target : Fin n → P2) "
                "(kernel : Option (Kernel n)) (minsingularval : Rat) : Option (%s) :=" % (TPSO, TPSO),
                tps("__init__", {"self": "self", "source": "source", "target": "target", "kernel": "kernel",
                                 "min_singular_val": "minsingularval"}, end="some {self}"), "  none"))
    out.append(("gen_ThinPlateSplines_pseudoinverse",
                "def gen_ThinPlateSplines_pseudoinverse {n : Nat} (φ : KCls → Rat → Rat) (self : %s) : Option (%s) :="
                % (TPSO, TPSO), tps("pseudoinverse", {"self": "self"}), "  none"))
    out.append(("gen_ThinPlateSplines_has_true_inverse",
                "def gen_ThinPlateSplines_has_true_inverse {n : Nat} (self : %s) : Option Bool :=" % TPSO,
                tps("has_true_inverse", {"self": "self"}), "  none"))

    # ---- piecewise affine
    pwa_expr = [
        ("isinstance($x, TriMesh)", "({x}).trilist.isSome"),
        ("TriMesh($p, $t)", "(mkTriMesh delaunay {p} {t})"),
        ("TriMesh($p)", "(mkTriMesh delaunay {p} none)"),
        ("PointCloud($p)", "(ShapeObj.mk {p} none)"),
        ("type($s)($a, $b)", "gen_AbstractPWA_init delaunay (PWAObj.blank ({s}).kind) {a} {b}", "bind"),
        ("$s.n_dims", "(2)"),
        ("$s.source", "({s}).source"), ("$s.target", "({s}).target"),
        ("$x.points", "({x}).points"), ("$x.trilist", "({x}).trilist"),
    ]
    pwa_stmt = [
        ("Alignment.__init__($s, $a, $b)", "s", "{{ {s} with source := {a}, target := {b} }}"),
        ("$s.ti = $x", "s", "{s}"), ("$s.tij = $x", "s", "{s}"), ("$s.tik = $x", "s", "{s}"),
        ("$s._rebuild_target_vectors()", "s", "{s}"),
    ]

    def pwa(attr, args, end=None):
        def thunk():
            r = Rules4(expr=pwa_expr, stmt=pwa_stmt, ret="some ({e})", raise_="none", end=end)
            f = vars(pb.AbstractPWA)[attr]
            if isinstance(f, property):
                f = f.fget
            return T4(r).function(f, args, ind=1)
        return thunk
    D = "(delaunay : List P2 → List (Nat × Nat × Nat))"
    out.append(("gen_AbstractPWA_init",
                "def gen_AbstractPWA_init %s (self : PWAObj) (source target : ShapeObj) : Option PWAObj :=" % D,
                pwa("__init__", {"self": "self", "source": "source", "target": "target"}, end="some {self}"), "  none"))
    out.append(("gen_AbstractPWA_pseudoinverse",
                "def gen_AbstractPWA_pseudoinverse %s (self : PWAObj) : Option PWAObj :=" % D,
                pwa("pseudoinverse", {"self": "self"}), "  none"))
    out.append(("gen_AbstractPWA_has_true_inverse", "def gen_AbstractPWA_has_true_inverse (self : PWAObj) : Option Bool :=",
                pwa("has_true_inverse", {"self": "self"}), "  none"))

    # ---- set_target of the two warps: Targetable.set_target -> _target_setter_with_verification -> _verify_target,
    #      Alignment._target_setter, then the class's _sync_state_from_target
    import menpo.base as mb
    from menpo.transform.base.alignment import Alignment

    def resolves(cls, attr, want):
        got = next((k.__name__ for k in cls.__mro__ if attr in vars(k)), "-")
        if got != want:
            raise Untranslatable("%s.%s is supplied by %s now, not by %s" % (cls.__name__, attr, got, want))

    def settarget_items(kind, obj, tcls, sync_owner, newt_sig, extra_expr, store, n_points):
        live = T.ThinPlateSplines if kind == "tps" else pb.PythonPWA
        pre = "{n : Nat} (φ : KCls → Rat → Rat) " if kind == "tps" else ""
        app = "φ " if kind == "tps" else ""
        expr = extra_expr + [("$x.n_dims", "(2)"), ("$x.n_points", n_points)]
        stmt = [
            ("$s._target_setter_with_verification($t)", "s",
             "gen_Targetable_target_setter_with_verification_%s %s{s} {t}" % (kind, app), "bind"),
            ("$s._verify_target($t)", "s", "gen_Targetable_verify_target_%s %s{s} {t}" % (kind, app), "bind"),
            ("$s._target_setter($t)", "s", "gen_Alignment_target_setter_%s %s{s} {t}" % (kind, app), "bind"),
            ("$s._sync_state_from_target()", "s", "gen_%s_sync_state_from_target %s{s}" % (sync_owner, app), "bind"),
            ("$s._target = $v", "s", store),
            ("$s._build_coefficients()", "s", "{s}"), ("$s._rebuild_target_vectors()", "s", "{s}"),
        ]

        def mk(owner_cls, attr, args, check=None):
            def thunk():
                if check:
                    resolves(live, attr, check)
                r = Rules4(expr=expr, stmt=stmt, ret="some ({e})", raise_="none", end="some {self}")
                return T4(r).function(vars(owner_cls)[attr], args, ind=1)
            return thunk
        two = {"self": "self", "new_target": "newtarget"}
        sig2 = "%s(self : %s) (newtarget : %s) : Option (%s) :=" % (pre, obj, newt_sig, obj)
        sig1 = "%s(self : %s) : Option (%s) :=" % (pre, obj, obj)
        return [
            ("gen_Targetable_verify_target_%s" % kind, "def gen_Targetable_verify_target_%s %s" % (kind, sig2),
             mk(mb.Targetable, "_verify_target", two, "Targetable"), "  none"),
            ("gen_Alignment_target_setter_%s" % kind, "def gen_Alignment_target_setter_%s %s" % (kind, sig2),
             mk(Alignment, "_target_setter", two, "Alignment"), "  none"),
            ("gen_Targetable_target_setter_with_verification_%s" % kind,
             "def gen_Targetable_target_setter_with_verification_%s %s" % (kind, sig2),
             mk(mb.Targetable, "_target_setter_with_verification", two, "Targetable"), "  none"),
            ("gen_%s_sync_state_from_target" % sync_owner, "def gen_%s_sync_state_from_target %s" % (sync_owner, sig1),
             mk(tcls, "_sync_state_from_target", {"self": "self"}, sync_owner), "  none"),
            ("gen_Targetable_set_target_%s" % kind, "def gen_Targetable_set_target_%s %s" % (kind, sig2),
             mk(mb.Targetable, "set_target", two, "Targetable"), "  none"),
        ]
    out += settarget_items("tps", "TPSObj n", T.ThinPlateSplines, "ThinPlateSplines", "Fin n → P2",
                           [("$s.target is None", "false"), ("$s.target", "({s}).tgt")],
                           "{{ {s} with tgt := {v} }}", "(n)")
    out += settarget_items("pwa", "PWAObj", pb.AbstractPWA, "AbstractPWA", "ShapeObj",
                           [("$s.target is None", "false"), ("$s.target", "({s}).target")],
                           "{{ {s} with target := {v} }}", "(({x}).points.length)")

    # ---- the arithmetic of the piecewise affine map, per point and triangle
    def ab():
        r = Rules4(expr=[("$p[..., None] - $i", "({p} - {i})"),
                         ('np.einsum("dt, dt -> t", $a, $b)', "(P2.dot {a} {b})"),
                         ('np.einsum("vdt, dt -> vt", $a, $b)', "(P2.dot {a} {b})"),
                         ("1.0 / $x", "(1 / {x})")], ret="some ({e})", raise_="none")
        return T4(r).function(pb.alpha_beta, {"i": "i", "ij": "ij", "ik": "ik", "points": "points"}, ind=1)
    out.append(("gen_alpha_beta", "def gen_alpha_beta (i ij ik points : P2) : Option (Rat × Rat) :=", ab, "  none"))

    def bv():
        r = Rules4(expr=[("np.transpose($p[$t], axes=[1, 2, 0])", "(triOf {p} {t})"),
                         ("$x[0]", "({x}).a"), ("$x[1]", "({x}).b"), ("$x[2]", "({x}).c")],
                   ret="some ({e})", raise_="none")
        return T4(r).function(pb.barycentric_vectors, {"points": "points", "trilist": "trilist"}, ind=1)
    out.append(("gen_barycentric_vectors",
                "/-- one triangle of the trilist -/\n"
                "def gen_barycentric_vectors (points : List P2) (trilist : Nat × Nat × Nat) : Option (P2 × P2 × P2) :=",
                bv, "  none"))

    def rtv():
        r = Rules4(expr=[("$s.target.points[$s.trilist]", "(triOf ({s}).tgt ({s}).tri)"),
                         ("$x[:, 0]", "({x}).a"), ("$x[:, 1]", "({x}).b"), ("$x[:, 2]", "({x}).c")],
                   stmt=[("$s.ti = $v", "s", "{{ {s} with vecs := {{ ({s}).vecs with ti := {v} }} }}"),
                         ("$s.tij = $v", "s", "{{ {s} with vecs := {{ ({s}).vecs with tij := {v} }} }}"),
                         ("$s.tik = $v", "s", "{{ {s} with vecs := {{ ({s}).vecs with tik := {v} }} }}")],
                   ret="some ({e})", raise_="none", end="some {self}")
        return T4(r).function(vars(pb.AbstractPWA)["_rebuild_target_vectors"], {"self": "self"}, ind=1)
    out.append(("gen_rebuild_target_vectors",
                "/-- seen from one triangle of the trilist -/\n"
                "def gen_rebuild_target_vectors (self : PWATri) : Option PWATri :=", rtv, "  none"))

    def papply():
        r = Rules4(expr=[("$s.index_alpha_beta($x)", "iab {x}", "bind"),
                         ("$s.ti[$k]", "(({s}) {k}).ti"), ("$s.tij[$k]", "(({s}) {k}).tij"),
                         ("$s.tik[$k]", "(({s}) {k}).tik"),
                         ("$a[:, None] * $b", "({a} * {b})")], ret="some ({e})", raise_="none")
        return T4(r).function(vars(pb.AbstractPWA)["_apply"], {"self": "self", "x": "x"}, ind=1)
    out.append(("gen_AbstractPWA_apply",
                "/-- one point: `iab` = `index_alpha_beta` on it, `self k` = the rows (ti, tij, tik) of triangle `k` -/\n"
                "def gen_AbstractPWA_apply (iab : P2 → Option (Nat × Rat × Rat)) (self : Nat → TriVecs) (x : P2) : Option P2 :=",
                papply, "  none"))

    # ---- Homogeneous._apply, per point
    def happly():
        r = Rules4(expr=[("np.hstack([$x, np.ones([$x.shape[0], 1])])", "(hom {x})"),
                         ("$a.dot($s.h_matrix.T)", "(Mat.mulVec ({s}).h {a})"),
                         ("np.dot($a, $s.h_matrix.T)", "(Mat.mulVec ({s}).h {a})"),
                         ("$a @ $s.h_matrix.T", "(Mat.mulVec ({s}).h {a})"),
                         ("($y / $y[:, -1][:, None])[:, :-1]", "dehom {y}", "bind")],
                   ret="some ({e})", raise_="none")
        from menpo.transform.homogeneous.base import Homogeneous
        return T4(r).function(vars(Homogeneous)["_apply"], {"self": "self", "x": "x"}, ind=1)
    out.append(("gen_Homogeneous_apply", "def gen_Homogeneous_apply %s (self : %s) (x : Vec d) : Option (Vec d) :=" % (
        IMPL, HT), happly, "  none"))

    # ---- tcoords.py
    def tcoords1():
        r = Rules4(expr=[("np.array([[$a, $b, $c], [$e, $f, $g], [$h, $i, $j]])", "(m3 {a} {b} {c} {e} {f} {g} {h} {i} {j})"),
                         ("Homogeneous($m)", "ctor_Homogeneous_default (α := Unit) {m}", "bind"),
                         ("np.array($x)", "(shapeVec {x})"), ("$v - 1", "(vsubOne {v})"),
                         ("Scale($v)", "(scaleFactory {v} : HT 2 Unit)"),
                         ("$a.compose_before($b)", "(HT.composeBeforeH {a} {b})")],
                   ret="some ({e})", raise_="none")
        return T4(r).function(tc.tcoords_to_image_coords, {"image_shape": "imageshape"}, ind=1)
    out.append(("gen_tcoords_to_image_coords",
                "def gen_tcoords_to_image_coords (imageshape : Rat × Rat) : Option (HT 2 Unit) :=", tcoords1, "  none"))

    def tcoords2():
        r = Rules4(expr=[("tcoords_to_image_coords($x)", "gen_tcoords_to_image_coords {x}", "bind"),
                         ("$t.pseudoinverse()", "srcPinv {t}", "bind")], ret="some ({e})", raise_="none")
        return T4(r).function(tc.image_coords_to_tcoords, {"image_shape": "imageshape"}, ind=1)
    out.append(("gen_image_coords_to_tcoords",
                "def gen_image_coords_to_tcoords (imageshape : Rat × Rat) : Option (HT 2 Unit) :=", tcoords2, "  none"))
    return out


HEADER = """/- TRANSLATED by harness/trans_c04.py (harness/py2lean2.py) from the SOURCE TEXT of menpo's pseudoinverse code of
   the current working tree (menpo/transform/homogeneous/*.py, base/invertible.py, thinplatesplines.py,
   piecewiseaffine/base.py, tcoords.py) on every run of `./check C04`; do not edit.
   `supOf` is the live method-resolution table; the `m_*` / `ctor_*` definitions pick the translated body of the class
   it names.  GenProps/C04Src.lean proves every definition equal to the Core definition the C04 theorems are about. -/
import MenpoModel.Core.C04Src

set_option linter.unusedVariables false

namespace MenpoModel.Generated.C04Src
open MenpoModel.C04

/-- `np.eye(n)` where the context needs a `(d+1)²` matrix (any other size: not an identity) -/
def npEyeD {d : Nat} (n : Nat) : Mat (d + 1) := if n = d + 1 then Mat.one else fun _ _ => 0
/-- `v.shape[0]` / `v.size` of a vector -/
def vlen {d : Nat} (_ : Vec d) : Nat := d
/-- `(h_y / h_y[:, -1][:, None])[:, :-1]`: division by the homogeneous coordinate (points where it vanishes are outside
the domain: numpy returns inf / nan there) -/
def dehom {d : Nat} (y : Vec (d + 1)) : Option (Vec d) :=
  if y (Fin.last d) = 0 then none else some fun i => y i.castSucc / y (Fin.last d)
"""


def supof_text(tab):
    arms = []
    for n in FAMILY:
        for lean, attr in METHS:
            arms.append("  | .%s, .%s => %s" % (CLS_LEAN[n], lean, sup_lean(tab[n][attr])))
    return ("/-- which class supplies each method for each family class: the live MRO -/\n"
            "def supOf : Cls → Meth → Sup\n" + "\n".join(arms) + "\n")


def _default_homogeneous_ctor():
    """`Homogeneous(m)` with the default options (copy=True, skip_checks=False), as tcoords.py calls it"""
    from menpo.transform.homogeneous.base import Homogeneous
    r = hom_rules(expr=[("$x.copy()", "{x}")],
                  stmt=[("$s._set_h_matrix($v, copy=$c, skip_checks=$k)", "s",
                         "(if supOf ({s}).cls .setHMatrix = .Homogeneous then gen_Homogeneous_set_h_matrix_TF {s} {v} else none)",
                         "bind", {"c": "true", "k": "false"})], end="some {self}")
    parts = []
    args = {"self": "self", "value": "value", "copy": "true", "skip_checks": "false"}
    body = T4(r).function(vars(Homogeneous)["_set_h_matrix"], args, ind=1)
    parts.append("def gen_Homogeneous_set_h_matrix_TF %s (self : %s) (value : Mat (d + 1)) : Option (%s) :=\n%s\n" % (
        IMPL, HT, HT, body))
    d = T4(r).defaults(vars(Homogeneous)["__init__"])
    if d.get("copy") != "True" or d.get("skip_checks") != "False":
        raise Untranslatable("defaults of Homogeneous.__init__ changed: %r" % d)
    body = T4(r).function(vars(Homogeneous)["__init__"],
                          {"self": "self", "h_matrix": "hmatrix", "copy": "true", "skip_checks": "false"}, ind=1)
    parts.append("def gen_Homogeneous_init_TF %s (self : %s) (hmatrix : Mat (d + 1)) : Option (%s) :=\n%s\n" % (
        IMPL, HT, HT, body))
    parts.append("/-- `Homogeneous(m)` -/\ndef ctor_Homogeneous_default %s (m : Mat (d + 1)) : Option (%s) :=\n"
                 "  if supOf .homogeneous .init = .Homogeneous then gen_Homogeneous_init_TF (HT.blank .homogeneous) m else none\n"
                 % (IMPL, HT))
    return "\n".join(parts)


def generate():
    """(lean text, [reasons of the definitions that could not be translated], method table)"""
    tab = method_table()
    parts, failed = [HEADER, supof_text(tab)], []

    def emit(name, sig, thunk, stub):
        if sig is None:                 # fixed text (dispatchers)
            parts.append(thunk)
            return
        try:
            body = thunk()
        except Untranslatable as e:
            failed.append("%s: %s" % (name, e))
            body = "  /- UNTRANSLATABLE: %s -/\n%s" % (str(e).replace("-/", "- /"), stub)
        except (KeyError, AttributeError, TypeError, ImportError) as e:
            failed.append("%s: %r" % (name, e))
            body = "  /- UNTRANSLATABLE: %s -/\n%s" % (repr(e).replace("-/", "- /"), stub)
        parts.append(sig + "\n" + body + "\n")

    for it in items(tab):
        emit(*it)
    try:
        parts.append(_default_homogeneous_ctor())
    except Untranslatable as e:
        failed.append("ctor_Homogeneous_default: %s" % e)
        parts.append("def ctor_Homogeneous_default %s (m : Mat (d + 1)) : Option (%s) :=\n  /- UNTRANSLATABLE: %s -/\n  none\n"
                     % (IMPL, HT, str(e).replace("-/", "- /")))
    for it in warp_items():
        emit(*it)
    parts.append("end MenpoModel.Generated.C04Src\n")
    return "\n".join(parts), failed, tab


# one obligation per theorem of GenProps/C04Src.lean that mentions a translated definition (kept in step by
# tools: `grep -c '^theorem' lean/MenpoModel/GenProps/C04Src.lean`)
def n_obligations():
    path = os.path.join(os.path.dirname(os.path.dirname(os.path.abspath(__file__))), "lean", "MenpoModel", "GenProps",
                        "C04Src.lean")
    try:
        return sum(1 for l in open(path) if l.startswith("theorem "))
    except OSError:
        return 0


def generated_files():
    text, failed, tab = generate()
    return {GEN_REL: text}, failed, tab


if __name__ == "__main__":
    import sys
    sys.path.insert(0, os.environ.get("MENPO_REPO", "/repo"))
    t, f, _ = generate()
    print(t)
    print("FAILED:", f, file=sys.stderr)
