"""C18 — menpo/feature/base.py, features.py, visualize.py and predefined.py TRANSLATED from the source text of the
current working tree into Lean (`Generated/C18Src.lean`) on every run of `./check C18`; `GenProps/C18Src.lean` proves
every translated definition equal, for all arguments, to the hand-written Core definition the C18 theorems are about.

harness/py2lean2.py + harness/py2lean2f.py are the translator; this file is the C18 vocabulary: which numpy / menpo
expression of the feature code stands for which operation of `Core/C18Src.lean` (one operation per expression, with
the meaning the expression has on its own: numpy broadcasting, partial attribute access, slices with a step).

  source                                         generated definition        equal to (GenProps/C18Src.lean)
  base.ndfeature (inner `wrapper`)               genNdfeature                ndfeature
  base.imgfeature (inner `wrapper`)              genImgfeature               imgfeature
  base.winitfeature (inner `wrapper`)            genWinitfeature             winitfeature
  base.rebuild_feature_image                     genRebuild                  rebuild
  base.rebuild_feature_image_with_centres        genRebuildCentres           rebuildCentres
  base.sample_mask_for_centres                   genSampleMask               sampleMask
  base.lm_centres_correction                     genCentresCorrection        (centresMin, centresStep)
  features.normalize (+ its decorator)           genNormalizeRaw / genNormalize     normalizeImg (fixed := true) / imgfeature ∘ …
  features.normalize_std / _norm / _var (+ dec.) genNormalizeStd / Norm / Var       normalizeNd np.std / np.norm / var
  features.no_op (+ decorator)                   genNoOp                     ndfeature noOp
  features.gradient (+ decorator)                genGradient                 ndfeature (gradient2)
  features.gaussian_filter (+ decorator)         genGaussianFilter           ndfeature (gauss2)
  features.igo, predefined.double_igo            genIgo, genDoubleIgo        ndfeature (igoChecked)
  features.es                                    genEs                       esChecked (values), ndfeature shape
  visualize.sum_channels                         genSumChannels              ndfeature (sumChannels2)
  the decorator of every module-level def        genDecorators               expectedDecorators (decide)
  the default of every keyword parameter         genDefaults                 expectedDefaults (decide)

Conventions: a function that may raise returns `Except Err _` (`Except NErr _` inside `normalize`); the argument of a
decorated function is `Arg P` (an ndarray or an image object); `verbose` is fixed to False (the dead arm, which only
prints, is not translated).
"""
import ast
import os

from . import py2lean2 as P2
from . import py2lean2f as F

GEN_REL = os.path.join("MenpoModel", "Generated", "C18Src.lean")
GEN_TARGETS = ["MenpoModel.Generated.C18Src", "MenpoModel.GenProps.C18Src", "MenpoModel.GenProps.C18SrcProps"]

EXC = ".error (.feature codeMisuse)"


ENTRY_POINTS = ("lm_centres_correction", "sample_mask_for_centres", "rebuild_feature_image",
                "rebuild_feature_image_with_centres", "imgfeature", "ndfeature", "winitfeature",
                "gradient", "gaussian_filter", "igo", "es", "daisy", "normalize", "normalize_norm", "normalize_std",
                "normalize_var", "no_op", "sum_channels")
_HELPERS = {}


def helpers():
    """the module-level functions of base.py / features.py / visualize.py that are not themselves translated entry points:
    code the entry points may have been split into; calls to them are inlined (py2lean2f)"""
    if not _HELPERS:
        import menpo.feature.base as B
        import menpo.feature.features as FE
        import menpo.feature.visualize as VI
        for mod in (B, FE, VI):
            _HELPERS.update(F.module_helpers(mod, exclude=ENTRY_POINTS))
    return _HELPERS


def rules(expr=(), stmt=(), ret=".ok ({e})", raise_by=None, unit=".ok ({e})", **kw):
    return F.Rules2F(expr=list(expr), stmt=list(stmt), ret=ret, raise_=None, raise_by=raise_by or {}, unit=unit,
                     helpers=helpers(), **kw)


# ---------------------------------------------------------------------------------------------- base.py

# the decorators: written over whatever the variables hold (classes AsPx / AsImg / HasPixels / ToArg of Core/C18Src.lean),
# so that a renamed or additional temporary keeps the translation
WRAP_RULES = [
    ("isinstance($x, np.ndarray)", "(Arg.isArr {x})"),
    ("$x.pixels", "(HasPixels.pixelsE {x})", "bind"),
    ("Image($x, copy=False)", "(mkImage (P := P) {x})", "bind"),
    ("rebuild_feature_image($im, $f)", "(callImg (fun im => genRebuild sh im {f}) {im})", "bind"),
    ("rebuild_feature_image_with_centres($im, $f, $c)", "(callImg (fun im => genRebuildCentres im {f} {c}) {im})", "bind"),
]
ND_RULES = WRAP_RULES + [("wrapped($a, *args, **kwargs)", "(callArr f {a})", "bind")]
IMG_RULES = WRAP_RULES + [("wrapped($a, *args, **kwargs)", "(callImg g {a})", "bind")]
WINIT_RULES = WRAP_RULES + [("wrapped($a, *args, **kwargs)[0]", "((callArr f {a}).map Prod.fst)", "bind"),
                            ("wrapped($a, *args, **kwargs)", "(callArr f {a})", "bind")]

# one rule per attribute access / call (so a mask held in a temporary, a closure or an extracted helper keeps the
# translation): `x.mask` is the mask of an image object or the data of a mask (class HasMask)
REBUILD_RULES = [
    ("$a.shape[1:]", "(sh {a})"),
    ("$im.shape", "(sh {im}.pixels)"),
    ('hasattr($im, "mask")', "({im}.mask.isSome)"),
    ("$m.resize($s)", "(resizeMask {m} {s})", "bind"),
    ("$m.copy()", "{m}"),
    ("sample_mask_for_centres($m, $c)", "(genSampleMask {m} {c})", "bind"),
    ("$x.mask", "(HasMask.maskOf {x})", "bind"),
    ("MaskedImage($p, mask=$m, copy=False)", "(Img.mk {p} (some {m}) [])"),
    ("Image($p, copy=False)", "(Img.mk {p} none [])"),
    ("$im.has_landmarks", "(!({im}.lms.isEmpty))"),
    ("np.array($a) / np.array($b)", "(ratio {a} {b})"),
    ("lm_centres_correction($c)", "(genCentresCorrection {c})"),
]
REBUILD_STMT = [
    ("$x.landmarks = NonUniformScale($sf).apply($im.landmarks)", "x", "{{ {x} with lms := scaleLms {sf} {im}.lms }}"),
    ("$x.landmarks = $t.apply($im.landmarks)", "x", "{{ {x} with lms := applyCorr {t} {im}.lms }}"),
    ("$x.landmarks = $im.landmarks", "x", "{{ {x} with lms := {im}.lms }}"),
]

CENTRES_RULES = [
    ("Translation(-$c.min(axis=0).min(axis=0), skip_checks=True)", "(centresMin {c})"),
    ("$c[$i, $j, 0]", "(((cAt {c} {i} {j}).1 : Nat) : Int)"),
    ("$c[$i, $j, 1]", "(((cAt {c} {i} {j}).2 : Nat) : Int)"),
    ("$c.shape[0]", "(List.length {c})"),
    ("$c.shape[1]", "(List.length (List.headD {c} []))"),
    ("NonUniformScale((1.0 / $a, 1.0 / $b), skip_checks=True)", "(({a}, {b}) : Int × Int)"),
    ("$t.compose_before($s)", "(({t}, {s}) : Corr)"),
    ("BooleanImage($m[$c[..., 0], $c[..., 1]], copy=False)", "(sampleMask {m} {c})"),
]


def _wrapper(fn, extra, arg="x"):
    """body of the inner `wrapper(image, *args, **kwargs)` of a decorator"""
    from menpo.feature import base as B
    node = F.decorator_shape(getattr(B, fn), "wrapper", ["wraps(wrapped)"])
    r = rules(expr=extra, ret=".ok (ToArg.toArg ({e}))", ret_bind=True)
    return F.Translator2F(r).function_node(node, {"image": arg, "args": "()", "kwargs": "()"}, ind=1)


# ---------------------------------------------------------------------------------------------- features.py

NORMALIZE_RULES = [
    ('"all"', "ModeArg.all"),
    ('"per_channel"', "ModeArg.perChannel"),
    ("np.array([1.0])", "([1] : Scl)"),
    ("img.as_vector(keep_channels=True)", "(asVector {img})"),
    ("img.from_vector($v)", "(fromVector {img} {v})"),
    ("np.mean($p, axis=1, keepdims=True)", "(List.map mean {p})"),
    ("np.mean($p)", "([mean (List.flatten {p})] : Scl)"),
    ("scale_func($x, axis=1)", "(callScale {scale_func} {x} (some 1))", "bind"),
    ("scale_func($x)", "(callScale {scale_func} {x} none)", "bind"),
    ("$s.reshape([-1, 1])", "{s}"),
    ("($s == 0).ravel()", "(List.map (fun v => v == 0) {s})"),
    ("np.any($z)", "(List.any {z} id)"),
    ("np.where($s == 0, 1, $s)", "(List.map (fun v => if v == 0 then 1 else v) {s})"),
]
NORMALIZE_BINOP = {ast.Sub: "(bsub {a} {b})", ast.Div: "(bdiv {a} {b})"}

STAT_RULES = [
    ("np.std($x, axis=$a)", "(reduceAx np.std {x} {a})"),
    ("np.linalg.norm($x, axis=$a)", "(reduceAx np.norm {x} {a})"),
    ("np.var($x, axis=$a)", "(reduceAx var {x} {a})"),
    ("normalize($p, scale_func=$f, mode=$m, error_on_divide_by_zero=$e)",
     "((genNormalize {f} {m} {e} (Arg.arr {p})).bind Arg.arrE)", "bind"),
]

GRADIENT_RULES = [
    ("pixels.dtype == np.uint8", "isU8"),
    ("pixels.ndim", "(3 : Nat)"),
    ("np.gradient($g, edge_order=1)", "(npGradient {g})", "bind"),
    ("list(itertools.chain.from_iterable($l))", "(List.flatten {l})"),
    ("$g[None, ...]", "([{g}] : Px)"),
    ("$l[$i::$n]", "(takeEvery {n} {i} {l})"),
    ("range($n)", "(List.range {n})"),
    ("np.concatenate($l, axis=0)", "(List.flatten {l})"),
]

GAUSS_RULES = [
    ("np.empty($p.shape, dtype=$p.dtype)", "(List.replicate (List.length {p}) ([] : Chan2))"),
    ("$p.shape[0]", "(List.length {p})"),
    ("range($n)", "(List.range {n})"),
]
GAUSS_STMT = [
    ("scipy_gaussian_filter($p[$d], $s, output=$o[$d])", "o", "(List.set {o} {d} (scipyGauss {s} (List.getD {p} {d} [])))"),
]


SLICE_RULES = [
    ("$g[:$n]", "(List.take {n} {g})"),
    ("$g[$n:]", "(List.drop {n} {g})"),
]
SLICE_STMT = [
    ("$x[:$n] = $v", "x", "(setSlice {x} 0 {n} {v})"),
    ("$x[$a:$b] = $v", "x", "(setSlice {x} {a} {b} {v})"),
    ("$x[$a:] = $v", "x", "(setSliceFrom {x} {a} {v})"),
]
# igo / es: one rule per numpy call (the parts of a nested expression mean something on their own, so naming a part
# in a temporary keeps the translation): a complex array is the pair of its real and imaginary part
IGO_COMMON = [
    ("len($p.shape)", "(nDims + 1)"),
    ("$p.shape[0]", "(List.length {p})"),
    ("$p.shape[1]", "(nRows (List.headD {p} []))"),
    ("$p.shape[2]", "(nCols (List.headD {p} []))"),
    ("$p.shape", "(shape3 {p})"),
    ("gradient($p)", "((genGradient false (Arg.arr {p})).bind Arg.arrE)", "bind"),
    ("$a + 1j * $b", "(Cplx.mk {a} {b})"),
    ("np.angle($z)", "(angleC {z})"),
    ("np.abs($z)", "(absC mag {z})"),
    ("2 * $o", "(dblAngle {o})"),
    ("np.sin($o)", "(sinA mag {o})"),
    ("np.cos($o)", "(cosA mag {o})"),
    ("$a + np.median($b)", "(addScalar {a} (medianPx {b}))"),
] + SLICE_RULES
IGO_RULES = IGO_COMMON + [
    ("np.empty(($c, $h, $w), dtype=$p.dtype)", "(List.replicate {c} ([] : Chan2))"),
]
ES_RULES = IGO_COMMON + [
    ("np.empty(($c, $h, $w), dtype=$p.dtype)", "(List.replicate {c} ([] : OChan2))"),
]
ES_BINOP = {ast.Div: "(divPx {a} {b})"}

SUM_RULES = [
    ("np.sum(pixels[channels], axis=0)", "(sumAxis0 (selectChans {pixels} (Option.getD {channels} [])))"),
    ("np.sum(pixels, axis=0)", "(sumAxis0 {pixels})"),
    ("$s.reshape((1,) + $s.shape)", "([{s}] : Px)"),
]

DAISY_RULES = [
    ("len(sigmas)", "(optLen {sigmas})"),
    ("len(ring_radii)", "(optLen {ring_radii})"),
    ("ring_radii[-1]", "(optLastE {ring_radii})", "bind"),
    ("range($n)", "(pyRangeQ {n})"),
    ("float($x)", "((({x}) : Int) : Rat)"),
    ('"l1"', "(some DaisyNorm.l1)"), ('"l2"', "(some DaisyNorm.l2)"), ('"daisy"', "(some DaisyNorm.daisy)"),
    ('"off"', "(some DaisyNorm.off)"),
    ("$x not in [$a, $b, $c, $d]", "(!(List.contains [{a}, {b}, {c}, {d}] {x}))"),
    ("_daisy(pixels, step=$st, radius=$ra, rings=$ri, histograms=$hi, orientations=$ori, normalization=$no, sigmas=$si, "
     "ring_radii=$rr)", "(lib {pixels} ⟨{st}, {ra}, {ri}, {hi}, {ori}, {no}, {si}, {rr}⟩)", "bind"),
]
DAISY_BINOP = {ast.Div: "({a} / {b})"}


def _decorated(fn, raw, sh):
    """the Lean term for `fn` as exported: its decorator (read from the source) applied to the translated body `raw`"""
    deco = F.decorators(fn)
    if deco == ["ndfeature"]:
        return "genNdfeature %s (%s)" % (sh, raw)
    if deco == ["imgfeature"]:
        return "genImgfeature (%s)" % raw
    if deco == ["winitfeature"]:
        return "genWinitfeature (%s)" % raw
    raise F.Untranslatable("decorators of %s are now %r" % (getattr(fn, "__name__", fn), deco))


EXPECTED_DECORATORS = [
    ("gradient", "ndfeature"), ("gaussian_filter", "ndfeature"), ("igo", "ndfeature"), ("es", "ndfeature"),
    ("daisy", "ndfeature"), ("normalize", "imgfeature"), ("normalize_norm", "ndfeature"),
    ("normalize_std", "ndfeature"), ("normalize_var", "ndfeature"), ("no_op", "ndfeature"),
    ("sum_channels", "ndfeature")]


def _decorator_table():
    import menpo.feature.features as FE
    import menpo.feature.visualize as VI
    rows = []
    for mod in (FE, VI):
        for name, deco in F.module_functions(mod):
            if deco or name in ENTRY_POINTS:       # undecorated helpers the features are split into carry no row
                rows.append('("%s", "%s")' % (name, "+".join(deco)))
    return "  [" + ",\n   ".join(rows) + "]"


def _defaults_table():
    """the default of every keyword parameter of every feature, as source text"""
    import menpo.feature.features as FE
    import menpo.feature.visualize as VI
    T = F.Translator2F(F.Rules2F())
    rows = []
    for fn in (FE.gradient, FE.gaussian_filter, FE.igo, FE.es, FE.daisy, FE.normalize, FE.normalize_norm, FE.normalize_std,
               FE.normalize_var, FE.no_op, VI.sum_channels):
        for par, dflt in T.defaults(fn).items():
            rows.append('("%s", "%s", "%s")' % (fn.__name__, par, dflt.replace('"', "'")))
    return "  [" + ",\n   ".join(rows) + "]"


def items():
    """[(lean signature ending in `:=`, thunk -> body text, stub body)]"""
    from menpo.feature import base as B
    import menpo.feature.features as FE
    out = []

    def add(sig, stub, thunk):
        out.append((sig, thunk, stub))

    def T(expr=(), **kw):
        return F.Translator2F(rules(expr=expr, **kw))

    # ---- base.py
    add("def genSampleMask (mask : Mask) (centres : Centres) : Except Err Mask :=", EXC,
        lambda: T(CENTRES_RULES, ret="{e}").function(B.sample_mask_for_centres, {"mask": "mask", "centres": "centres"}, ind=1))
    add("def genCentresCorrection (centres : Centres) : Corr :=", "((0, 0), (0, 0))",
        lambda: T(CENTRES_RULES, ret="{e}").function(B.lm_centres_correction, {"centres": "centres"}, ind=1))
    add("def genRebuild {P : Type} (sh : P → List Nat) (image : Img P) (fpixels : P) : Except Err (Img P) :=", EXC,
        lambda: T(REBUILD_RULES, stmt=REBUILD_STMT).function(
            B.rebuild_feature_image, {"image": "image", "f_pixels": "fpixels"}, ind=1))
    add("def genRebuildCentres {P : Type} (image : Img P) (fpixels : P) (centres : Centres) : Except Err (Img P) :=", EXC,
        lambda: T(REBUILD_RULES, stmt=REBUILD_STMT).function(
            B.rebuild_feature_image_with_centres, {"image": "image", "f_pixels": "fpixels", "centres": "centres"}, ind=1))
    add("def genNdfeature {P : Type} (sh : P → List Nat) (f : P → Except Err P) (x : Arg P) : Except Err (Arg P) :=", EXC,
        lambda: _wrapper("ndfeature", ND_RULES))
    add("def genImgfeature {P : Type} (g : Img P → Except Err (Img P)) (x : Arg P) : Except Err (Arg P) :=", EXC,
        lambda: _wrapper("imgfeature", IMG_RULES))
    add("def genWinitfeature {P : Type} (f : P → Except Err (P × Centres)) (x : Arg P) : Except Err (Arg P) :=", EXC,
        lambda: _wrapper("winitfeature", WINIT_RULES))

    # ---- features.normalize: the body on an image object, then as exported (its decorator applied)
    add("def genNormalizeRaw (img : Img Arr) (scalefunc : Option ScaleFn) (mode : ModeArg) (err : Bool) : Except NErr (Img Arr) :=",
        ".error .nonFinite",
        lambda: T(NORMALIZE_RULES, binop=NORMALIZE_BINOP, raise_by={"ValueError": ".error .zeroScale"},
                  skip=["warnings.warn($m)"], optional={"scale_func": "ScaleFn"}).function(
            FE.normalize, {"img": "img", "scale_func": "scalefunc", "mode": "mode", "error_on_divide_by_zero": "err"}, ind=1))
    add("def genNormalize (scalefunc : Option ScaleFn) (mode : ModeArg) (err : Bool) : Arg Arr → Except Err (Arg Arr) :=", "fun _ => " + EXC,
        lambda: "  " + _decorated(FE.normalize, "fun img => liftN (genNormalizeRaw img scalefunc mode err)", "(fun p => p.shape)"))
    for name, lean in (("normalize_std", "Std"), ("normalize_norm", "Norm"), ("normalize_var", "Var")):
        fn = getattr(FE, name)
        add("def genNormalize%sRaw (np : NpStats) (pixels : Arr) (mode : ModeArg) (err : Bool) : Except Err Arr :=" % lean, EXC,
            lambda fn=fn: T(STAT_RULES).function(
                fn, {"pixels": "pixels", "mode": "mode", "error_on_divide_by_zero": "err"}, ind=1))
        add("def genNormalize%s (np : NpStats) (mode : ModeArg) (err : Bool) : Arg Arr → Except Err (Arg Arr) :=" % lean,
            "fun _ => " + EXC,
            lambda fn=fn, lean=lean: "  " + _decorated(fn, "fun pixels => genNormalize%sRaw np pixels mode err" % lean,
                                                       "(fun p => p.shape)"))
    # ---- no_op, gradient, gaussian_filter
    # `.copy()` is a word of its own: the result type `Fresh P` cannot be met by returning the argument itself
    add("def genNoOpRaw {P : Type} (pixels : P) : Except Err (Fresh P) :=", EXC,
        lambda: T([("$p.copy()", "(Fresh.mk {p})")]).function(FE.no_op, {"pixels": "pixels"}, ind=1))
    add("def genNoOp {P : Type} (sh : P → List Nat) : Arg P → Except Err (Arg P) :=", "fun _ => " + EXC,
        lambda: "  " + _decorated(FE.no_op, "fun pixels => (genNoOpRaw pixels).map Fresh.val", "sh"))
    add("def genGradientRaw (isU8 : Bool) (pixels : Px) : Except Err Px :=", EXC,
        lambda: T(GRADIENT_RULES, raise_by={"TypeError": ".error (.feature codeTypeError)"}).function(
            FE.gradient, {"pixels": "pixels"}, ind=1))
    add("def genGradient (isU8 : Bool) : Arg Px → Except Err (Arg Px) :=", "fun _ => " + EXC,
        lambda: "  " + _decorated(FE.gradient, "genGradientRaw isU8", "sh2"))
    add("def genGaussianFilterRaw (pixels : Px) (sigma : Option Kern × Option Kern) : Except Err Px :=", EXC,
        lambda: T(GAUSS_RULES, stmt=GAUSS_STMT).function(FE.gaussian_filter, {"pixels": "pixels", "sigma": "sigma"}, ind=1))
    add("def genGaussianFilter (sigma : Option Kern × Option Kern) : Arg Px → Except Err (Arg Px) :=", "fun _ => " + EXC,
        lambda: "  " + _decorated(FE.gaussian_filter, "fun pixels => genGaussianFilterRaw pixels sigma", "sh2"))
    # ---- igo / double_igo / es / sum_channels
    VERB = {"verbose": "false"}
    add("def genIgoRaw (mag : Rat → Rat → Rat) (nDims : Nat) (pixels : Px) (dbl : Bool) : Except Err Px :=", EXC,
        lambda: T(IGO_RULES, stmt=SLICE_STMT, names=VERB, raise_by={"ValueError": ".error (.feature codeNot2D)"}).function(
            FE.igo, {"pixels": "pixels", "double_angles": "dbl", "verbose": "false"}, ind=1))
    add("def genIgo (mag : Rat → Rat → Rat) (nDims : Nat) (dbl : Bool) : Arg Px → Except Err (Arg Px) :=", "fun _ => " + EXC,
        lambda: "  " + _decorated(FE.igo, "fun pixels => genIgoRaw mag nDims pixels dbl", "sh2"))

    def double_igo():
        import menpo.feature.predefined as PD
        node = F.module_assign(PD, "double_igo")
        r = rules(expr=[("partial_doc(igo, double_angles=$d)", "(fun mag nDims => genIgo mag nDims {d})")])
        return "  " + F.Translator2F(r).expression_node(node)
    add("def genDoubleIgo : (Rat → Rat → Rat) → Nat → Arg Px → Except Err (Arg Px) :=", "fun _ _ _ => " + EXC, double_igo)
    add("def genEsRaw (mag : Rat → Rat → Rat) (nDims : Nat) (pixels : Px) : Except Err (List OChan2) :=", EXC,
        lambda: T(ES_RULES, stmt=SLICE_STMT, binop=ES_BINOP, names=VERB,
                  raise_by={"ValueError": ".error (.feature codeNot2D)"}).function(
            FE.es, {"pixels": "pixels", "verbose": "false"}, ind=1))

    def sum_channels():
        import menpo.feature.visualize as VI
        return T(SUM_RULES).function(VI.sum_channels, {"pixels": "pixels", "channels": "channels"}, ind=1)
    add("def genSumChannelsRaw (pixels : Px) (channels : Option (List Nat)) : Except Err Px :=", EXC, sum_channels)

    def sum_channels_deco():
        import menpo.feature.visualize as VI
        return "  " + _decorated(VI.sum_channels, "fun pixels => genSumChannelsRaw pixels channels", "sh2")
    add("def genSumChannels (channels : Option (List Nat)) : Arg Px → Except Err (Arg Px) :=", "fun _ => " + EXC,
        sum_channels_deco)
    # ---- daisy: the option plumbing up to the call of `_daisy` (the descriptor computation is the abstract `lib`)
    add("def genDaisyRaw (lib : Px → DaisyCall → Except Err Px) (pixels : Px) (step : Nat) (radius : Rat) (rings : Int)\n"
        "    (histograms orientations : Nat) (normalization : Option DaisyNorm) (sigmas ringradii : Option (List Rat)) :\n"
        "    Except Err Px :=", EXC,
        lambda: T(DAISY_RULES, binop=DAISY_BINOP, names=VERB, optional={"sigmas": "List Rat", "ring_radii": "List Rat"},
                  raise_by={"ValueError": ".error (.feature codeValueError)"}).function(
            FE.daisy, {"pixels": "pixels", "step": "step", "radius": "radius", "rings": "rings",
                       "histograms": "histograms", "orientations": "orientations", "normalization": "normalization",
                       "sigmas": "sigmas", "ring_radii": "ringradii", "verbose": "false"}, ind=1))
    add("def genDaisy (lib : Px → DaisyCall → Except Err Px) (step : Nat) (radius : Rat) (rings : Int)\n"
        "    (histograms orientations : Nat) (normalization : Option DaisyNorm) (sigmas ringradii : Option (List Rat)) :\n"
        "    Arg Px → Except Err (Arg Px) :=", "fun _ => " + EXC,
        lambda: "  " + _decorated(FE.daisy, "fun pixels => genDaisyRaw lib pixels step radius rings histograms orientations "
                                            "normalization sigmas ringradii", "sh2"))
    # ---- which decorator every module-level function carries
    add("def genDecorators : List (String × String) :=", "[]", _decorator_table)
    add("def genDefaults : List (String × String × String) :=", "[]", _defaults_table)
    return out


HEADER = """/- TRANSLATED by harness/trans_c18.py (harness/py2lean2.py, harness/py2lean2f.py) from the SOURCE TEXT of
   menpo/feature/base.py, features.py, visualize.py and predefined.py of the current working tree on every run of
   `./check C18`; do not edit.  GenProps/C18Src.lean proves every definition equal to the Core definition the C18
   theorems are about. -/
import MenpoModel.Core.C18Src

set_option linter.unusedVariables false

namespace MenpoModel.Generated.C18Src
open MenpoModel.C18
"""
FOOTER = "\nend MenpoModel.Generated.C18Src\n"


N_DEFS = 0


def generated_files():
    """({relative path: text}, [reasons why a function could not be translated])"""
    global N_DEFS
    _HELPERS.clear()
    its = items()
    N_DEFS = len(its)
    text, reasons = P2.translate_or_stub(its, HEADER, FOOTER)
    return {GEN_REL: text}, reasons


if __name__ == "__main__":
    import sys
    sys.path.insert(0, os.environ.get("MENPO_REPO", "/repo"))
    files, why = generated_files()
    print(files[GEN_REL])
    print("untranslatable:", why)
