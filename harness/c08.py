"""C08 — retargeting an alignment equals rebuilding it, whatever happened before (DESIGN.md section 6, C08).

Parties
  implementation  the real alignment classes of menpo: constructors, set_target, copy, GeneralizedProcrustesAnalysis
  oracle          the property text on the real objects: after every history the object is compared with a *freshly
                  constructed* alignment of the same class / options from copies of the same source to the last
                  accepted target (map on probe points, h_matrix, target, aligned source); byte digests of every point
                  set the caller passed in; wrong-shaped targets must raise ValueError; GPA transforms against fresh
                  AlignmentSimilarity(source_i, gpa.target).  Independent of the Lean model.
  model           Core/C08Retarget.lean run by the driver with the *reference fits* this harness computes with its own
                  numpy code (centroid difference, norm ratio, Kabsch, least squares, Procrustes, TPS solve, barycentric
                  map): the model decides which fit, with which remembered options, on which target is in effect after
                  the history and how the partial in-place writes assemble the matrix; GPA with symbolic fits and the
                  convergence flags of an independent re-implementation of the iteration.
"""
import json

from . import common
from .common import fq

PROP = "C08"
INFO = dict(
    technique="Lean 4 proof (state machine over set_target histories, generic in the numerical fits: whole-object "
              "equality with the fresh alignment by induction over the history; heap refinement for in-place writes, "
              "shared point sets and copies; GPA invariant over the fuel-bounded iteration) + model/implementation "
              "correspondence with independently computed reference fits + fresh-construction oracle on random histories",
    level_text="Theorems over an executable model of Targetable.set_target, the seven alignment constructors and every "
               "_sync_state_from_target (which remembered options each re-fit passes, which part of the homogeneous "
               "matrix it overwrites in place), HomogFamilyAlignment.copy and GeneralizedProcrustesAnalysis, for "
               "arbitrary fit functions: after any finite history of accepted and rejected set_target calls the object "
               "equals the freshly built alignment (same class, options, source) to the last accepted target - state, "
               "target, aligned source, stored options; wrong-shaped targets are rejected and change nothing; on a heap "
               "with shared point sets and in-place matrix writes any interleaving of set_target and copy over any number "
               "of objects computes what independent values compute, never writes a point set, and leaves every object "
               "the fresh alignment to its own current target; on every exit path GPA's transforms are the fresh "
               "alignments of each source to the reported target.  The tree as found is characterised universally and "
               "refuted by kernel-checked witnesses (AlignmentSimilarity forgets rotation=False; AlignmentAffine / "
               "AlignmentRotation constructors leave the aligned source in .target).  Tied to /repo by running real "
               "histories (all classes x all option combinations x 1-6 targets x copies x rejected targets, 2-D and 3-D) "
               "and diffing matrices / maps / targets / verdicts against the Lean driver; the fresh-construction oracle "
               "decides the property on the real code.",
    level_note="Trusted: Lean kernel; axioms propext/Classical.choice/Quot.sound; Python harness (generators, oracle, "
               "reference fits); driver parser.  Contract parameters (abstract in the theorems, their values supplied "
               "by the harness's own numpy code and thereby cross-checked against menpo on every case): centroid, "
               "Frobenius norm, SVD/Kabsch rotation, least-squares affine, Procrustes composition, TPS system solve "
               "with singular-value floor, barycentric map, Delaunay triangulation, GPA mean/rescale/convergence test.  "
               "Float rounding (model exact; 1e-9 relative tolerance).  Python reference semantics of attributes and "
               "ndarray views are modelled by the heap of Core/C08Retarget.lean, not verified.",
    rule="a case = one history on one alignment object family (class, options, dimension): 1-6 set_target calls drawn "
         "from 3-5 valid targets, wrong-shaped targets and the source itself, copies at random points, calls on copies, "
         "pure apply calls in between; or one GPA run on 3-8 shapes; distinct = distinct (class, options, points, "
         "history); non-trivial = at least two accepted set_target calls or a set_target after a copy (GPA: at least "
         "one re-targeting iteration)",
    partial=["the numerical fits are abstract functions in the theorems (their optimality is C07); that menpo's fits are "
             "functions of (options, source, target) only is checked by the oracle, not proved",
             "GPA's max_iterations exit is proved for the model but cannot be driven through the public API "
             "(max_iterations is fixed at 100 inside the constructor); it is exercised only when a generated case "
             "fails to converge",
             "that no re-fit writes a point set is a transcription fact of the heap model (no model operation has a "
             "point-set write; theorem retarget_frame states it); on the real code it is decided by the byte-digest oracle",
             "Copyable.copy of ThinPlateSplines / PiecewiseAffine deep-copies source and target point sets; the heap "
             "model keeps them shared (never written, so unobservable in the model); decided by the oracle"],
    assumptions=["numpy / LAPACK SVD, solve and lstsq are deterministic and accurate to 1e-10 on the conditioned inputs "
                 "the generators produce (singular values of every correlation matrix separated by >= 5% of the largest)"],
    design_ref="DESIGN.md section 6, C08; section 7 items 6 and 22")
IMPORTS = ["MenpoModel.Props.C08"]
THEOREMS = [
    "MenpoModel.C08.retarget_eq_rebuild",
    "MenpoModel.C08.retarget_eq_rebuild_sound",
    "MenpoModel.C08.retarget_same_observables",
    "MenpoModel.C08.retarget_history_independent",
    "MenpoModel.C08.lastAccepted_all",
    "MenpoModel.C08.setTarget_build",
    "MenpoModel.C08.retarget_rejects_mismatch",
    "MenpoModel.C08.retarget_rejects_dims",
    "MenpoModel.C08.retarget_rejects_points",
    "MenpoModel.C08.fixed_sound",
    "MenpoModel.C08.coded_sound",
    "MenpoModel.C08.coded_similarity_forgets_rotation",
    "MenpoModel.C08.coded_ctor_target_affine",
    "MenpoModel.C08.coded_ctor_target_rotation",
    "MenpoModel.C08.coded_retarget_ne_rebuild_witness",
    "MenpoModel.C08.coded_fresh_target_witness",
    "MenpoModel.C08.hRun_refines",
    "MenpoModel.C08.retarget_frame",
    "MenpoModel.C08.copies_evolve_independently",
    "MenpoModel.C08.retarget_frame_and_copies",
    "MenpoModel.C08.vStep_other",
    "MenpoModel.C08.vStep_self",
    "MenpoModel.C08.hBuild_spec",
    "MenpoModel.C08.gpa_transforms_are_alignments",
    "MenpoModel.C08.buildAll_getElem",
    "MenpoModel.C08.gpa_fixed_target_reports_it",
]
TOL = 1e-9
SV_FLOORS = [1e-4, 0.5, 4.0]
COND = 0.05

# (model class, implementation class, dims, option dicts)
def families():
    fam = []
    for d in (2, 3):
        fam.append(("affine", "AlignmentAffine", d, {}))
        for rot in (True, False):
            for mir in (False, True):
                fam.append(("similarity", "AlignmentSimilarity", d, {"rotation": rot, "allow_mirror": mir}))
        for mir in (False, True):
            fam.append(("rotation", "AlignmentRotation", d, {"allow_mirror": mir}))
        fam.append(("translation", "AlignmentTranslation", d, {}))
        fam.append(("uniformScale", "AlignmentUniformScale", d, {}))
    for k in (0, 1, 2):
        for sv in SV_FLOORS:
            fam.append(("tps", "ThinPlateSplines", 2, {"kernel": k, "min_singular_val": sv}))
    fam.append(("pwa", "PiecewiseAffine", 2, {"source": "pointcloud"}))
    fam.append(("pwa", "PiecewiseAffine", 2, {"source": "trimesh"}))
    fam.append(("pwa", "PythonPWA", 2, {"source": "trimesh"}))
    return fam


# ------------------------------------------------------------------------------- reference fits (own numpy code)

def ref_translation(S, T):
    return T.mean(0) - S.mean(0)


def ref_scale(S, T):
    import numpy as np
    return np.sqrt(((T - T.mean(0)) ** 2).sum()) / np.sqrt(((S - S.mean(0)) ** 2).sum())


def ref_rotation(S, T, mirror):
    """Kabsch on the points as given (no centring): R maximising tr(R^T T^T S)"""
    import numpy as np
    U, _, Vt = np.linalg.svd(T.T.dot(S))
    R = U.dot(Vt)
    if not mirror and np.linalg.det(R) < 0:
        E = np.eye(S.shape[1])
        E[-1, -1] = -1.0
        R = U.dot(E).dot(Vt)
    return R


def ref_affine(S, T):
    import numpy as np
    d = S.shape[1]
    hs = np.hstack([S, np.ones((S.shape[0], 1))])
    X = np.linalg.lstsq(hs, T, rcond=None)[0]      # hs X = T
    h = np.eye(d + 1)
    h[:d, :] = X.T
    return h


def ref_procrustes(S, T, rot, mirror):
    import numpy as np
    d = S.shape[1]
    cs, ct = S.mean(0), T.mean(0)
    s = ref_scale(S, T)
    R = np.eye(d)
    if rot:
        R = ref_rotation((S - cs) * s, T - ct, mirror)
    h = np.eye(d + 1)
    h[:d, :d] = s * R
    h[:d, d] = ct - s * R.dot(cs)
    return h


def apply_h(h, X):
    d = X.shape[1]
    return X.dot(h[:d, :d].T) + h[:d, d]


def tps_kernel(k, X, C):
    import numpy as np
    r2 = ((X[:, None, :] - C[None, :, :]) ** 2).sum(-1)
    with np.errstate(divide="ignore", invalid="ignore"):
        u = r2 * np.log(r2) if k in (0, 1) else r2 * 0.5 * np.log(r2)
    u[r2 == 0] = 0.0
    return u


def tps_system(k, S):
    import numpy as np
    n = S.shape[0]
    K = tps_kernel(k, S, S)
    P = np.hstack([np.ones((n, 1)), S])
    return np.vstack([np.hstack([K, P]), np.hstack([P.T, np.zeros((3, 3))])])


def ref_tps_apply(k, sv, S, T, X):
    import numpy as np
    L = tps_system(k, S)
    U, s, Vt = np.linalg.svd(L)
    keep = int((s >= sv).sum())
    pinv = Vt[:keep].T.dot((1.0 / s[:keep])[:, None] * U[:, :keep].T)
    Y = np.vstack([T, np.zeros((3, 2))])
    W = pinv.dot(Y)
    n = S.shape[0]
    return np.hstack([np.ones((X.shape[0], 1)), X]).dot(W[n:]) + tps_kernel(k, X, S).dot(W[:n])


def rot_conditioned(S, T):
    """singular values of the correlation matrix bounded away from 0 and the two smallest separated"""
    import numpy as np
    for A, B in ((S, T), ((S - S.mean(0)) * ref_scale(S, T), T - T.mean(0))):
        s = np.linalg.svd(B.T.dot(A), compute_uv=False)
        if s[-1] < COND * s[0] or (s[-2] - s[-1]) < COND * s[0]:
            return False
    return True


# ------------------------------------------------------------------------------- generators

def dy(rng, lo, hi, m=2):
    return rng.randint(lo * 2 ** m, hi * 2 ** m) / float(2 ** m)


def spread(P, floor):
    import numpy as np
    return np.linalg.svd(P - P.mean(0), compute_uv=False)[-1] >= floor and \
        np.linalg.svd(P, compute_uv=False)[-1] >= floor


def gen_cloud(rng, n, d):
    import numpy as np
    while True:
        P = np.array([[dy(rng, -8, 8) for _ in range(d)] for _ in range(n)])
        if spread(P, 1.5) and len({tuple(p) for p in P.tolist()}) == n:
            return P


def gen_grid(rng):
    """jittered grid (no folding: jitter < 1/4 cell) with its row/col counts"""
    import numpy as np
    rows, cols = rng.choice([(2, 3), (3, 3), (3, 2), (2, 4)])
    pts = [[4.0 * i + rng.randint(-3, 3) / 4.0, 4.0 * j + rng.randint(-3, 3) / 4.0]
           for i in range(rows) for j in range(cols)]
    tl = []
    for i in range(rows - 1):
        for j in range(cols - 1):
            a, b, c, e = cols * i + j, cols * i + j + 1, cols * (i + 1) + j, cols * (i + 1) + j + 1
            tl += [[a, b, c], [b, e, c]]
    return np.array(pts), np.array(tl)


def gen_target(rng, S, need_rot):
    """a target of S's shape: an affine / similarity / reflected image of S plus dyadic noise, or unrelated points"""
    import numpy as np
    n, d = S.shape
    for _ in range(200):
        kind = rng.random()
        if kind < 0.25:
            T = gen_cloud(rng, n, d)
        else:
            while True:
                M = np.array([[dy(rng, -2, 2) for _ in range(d)] for _ in range(d)])
                if abs(np.linalg.det(M)) >= 0.5:
                    break
            if kind < 0.45:   # near a similarity, sometimes reflected
                c, s_ = common.rat_circle(rng, 6)
                M = np.eye(d)
                M[:2, :2] = [[float(c), -float(s_)], [float(s_), float(c)]]
                M = M * rng.choice([0.5, 1.0, 1.5, 2.0])
                if rng.random() < 0.4:
                    M[:, 0] = -M[:, 0]
                M = np.round(M * 64) / 64
            T = S.dot(M.T) + np.array([dy(rng, -6, 6) for _ in range(d)])
            T = T + np.array([[rng.randint(-3, 3) / 8.0 for _ in range(d)] for _ in range(n)])
            T = np.round(T * 1024) / 1024
        if not spread(T, 0.5):
            continue
        if need_rot and not rot_conditioned(S, T):
            continue
        return T
    return None


def gen_case(rng, fam, n_ops=None):
    """one history case as a JSON-able dict"""
    import numpy as np
    mcls, icls, d, opts = fam
    tl = None
    if mcls == "pwa":
        S, tl = gen_grid(rng)
        n = S.shape[0]
    else:
        n = rng.randint(4, 8) if d == 2 else rng.randint(5, 8)
        S = gen_cloud(rng, n, d)
    if mcls == "tps":
        L = tps_system(opts["kernel"], S)
        s = np.linalg.svd(L, compute_uv=False)
        if s[0] / s[-1] > 1e6 or any(abs(x - opts["min_singular_val"]) <= 1e-6 * max(1.0, x) for x in s):
            return None
    need_rot = mcls in ("similarity", "rotation")
    sets = [S]
    n_valid = rng.randint(3, 5)
    for _ in range(n_valid):
        T = gen_target(rng, S, need_rot)
        if T is None:
            return None
        if any(np.array_equal(T, X) for X in sets):
            return None
        sets.append(T)
    # previous lives of the object under test: (a) its first target was stored with an integer dtype (points on the
    # pixel grid); (b) it was born as the pseudoinverse() of the reverse alignment instead of from the constructor
    first_int, birth = False, None
    if rng.random() < 0.2:
        T1 = np.round(sets[1])
        if spread(T1, 0.5) and ((not need_rot) or rot_conditioned(S, T1)) and \
                not any(np.array_equal(T1, X) for X in [S] + sets[2:]):
            sets[1], first_int = T1, True
    elif mcls != "pwa" and rng.random() < 0.25:
        birth = "pinv"      # (a pinv-born PWA keeps the other point set's triangulation: not "the same source")
    valid = list(range(1, len(sets)))
    if (not need_rot) or rot_conditioned(S, S):
        valid.append(0)                                    # the source itself as a target
    bad = []
    sets.append(gen_cloud(rng, n + rng.choice([-1, 1, 2]), d))       # wrong number of points
    bad.append(len(sets) - 1)
    sets.append(gen_cloud(rng, n, 5 - d))                            # wrong dimension
    bad.append(len(sets) - 1)
    ops = []
    n_objs = 1
    k = n_ops or rng.randint(1, 6)
    done = 0
    while done < k:
        r = rng.random()
        i = rng.randrange(n_objs)
        if r < 0.62:
            ops.append(["S", i, rng.choice(valid)])
            done += 1
        elif r < 0.74:
            ops.append(["S", i, rng.choice(bad)])
            done += 1
        elif r < 0.88 and n_objs < 4:
            ops.append(["C", i])
            n_objs += 1
        else:
            ops.append(["A", i])
    if birth == "pinv":
        # the property speaks about the object *after set_target*: a pinv-born object is first retargeted
        ops.insert(0, ["S", 0, rng.choice([v for v in valid if v != 0] or valid)])
    if mcls == "pwa":
        tri = tl if opts["source"] == "trimesh" else None
        probes, pinfo = pwa_probes(rng, S, tl if tri is not None else delaunay(S))
    else:
        probes = np.array([[dy(rng, -8, 8, 3) for _ in range(d)] for _ in range(5)])
        pinfo = None
    return {"kind": "hist", "mcls": mcls, "icls": icls, "d": d, "opts": opts,
            "sets": [X.tolist() for X in sets], "trilist": tl.tolist() if (tl is not None and opts.get("source") == "trimesh") else None,
            "ops": ops, "probes": probes.tolist(), "pinfo": pinfo, "first_int": first_int, "birth": birth}


def delaunay(S):
    from menpo.shape import TriMesh
    return TriMesh(S.copy()).trilist


def pwa_probes(rng, S, trilist):
    """points strictly inside triangles, with (triangle index, barycentric weights)"""
    import numpy as np
    P, info = [], []
    for _ in range(5):
        t = rng.randrange(len(trilist))
        a, b, c = rng.randint(2, 10), rng.randint(2, 10), rng.randint(2, 10)
        w = [a / float(a + b + c), b / float(a + b + c), c / float(a + b + c)]
        P.append(sum(w[j] * S[trilist[t][j]] for j in range(3)).tolist())
        info.append([t, w])
    return np.array(P), info


# ------------------------------------------------------------------------------- implementation side

def make_obj(case, S_pc, T_pc):
    """the real constructor call (fresh kernel objects per call)"""
    import menpo.transform as mt
    from menpo.transform.piecewiseaffine.base import PythonPWA
    o = case["opts"]
    icls = case["icls"]
    if icls == "ThinPlateSplines":
        kern = [None, mt.R2LogR2RBF, mt.R2LogRRBF][o["kernel"]]
        kern = kern(S_pc.points.copy()) if kern is not None else None
        return mt.ThinPlateSplines(S_pc, T_pc, kernel=kern, min_singular_val=o["min_singular_val"])
    if icls == "PythonPWA":
        return PythonPWA(S_pc, T_pc)
    if icls == "PiecewiseAffine":
        return mt.PiecewiseAffine(S_pc, T_pc)
    return getattr(mt, icls)(S_pc, T_pc, **o)


def make_source(case, arr):
    from menpo.shape import PointCloud, TriMesh
    import numpy as np
    if case["trilist"] is not None:
        return TriMesh(arr, trilist=np.array(case["trilist"]))
    return PointCloud(arr)


def apply_pts(obj, X):
    return obj.apply(X.copy())


def arr_close(a, b, scale):
    import numpy as np
    a, b = np.asarray(a, dtype=float), np.asarray(b, dtype=float)
    return a.shape == b.shape and bool(np.all(np.abs(a - b) <= TOL * (1.0 + scale)))


def case_scale(case):
    import numpy as np
    m = 1.0
    for X in case["sets"]:
        m = max(m, float(np.abs(np.array(X)).max()))
    return m


def run_case(ctx, case, lines=None, pending=None, count=True):
    """run one history on the real code, apply the oracle after every call, queue the model query"""
    import numpy as np
    from menpo.shape import PointCloud
    icls, mcls, d = case["icls"], case["mcls"], case["d"]
    site = "C08/retarget/" + icls
    sets_arr = [np.array(X, dtype=float) for X in case["sets"]]
    probes = np.array(case["probes"], dtype=float)
    scale = case_scale(case)
    if mcls == "tps":
        scale = max(scale, float(np.abs(tps_kernel(case["opts"]["kernel"], sets_arr[0], sets_arr[0])).max()))
    rp = {"case": case, "how": "objs=[Cls(sets[0], sets[1], **opts)]; S i r: objs[i].set_target(sets[r]); "
                               "C i: objs.append(objs[i].copy()); A i: objs[i].apply(probes); then compare objs[i] with "
                               "Cls(copy of sets[0], copy of last accepted target, **opts); "
                               "./check C08 --replay <this file> re-runs it"}
    pcs = [make_source(case, sets_arr[0].copy())] + [PointCloud(X.copy()) for X in sets_arr[1:]]
    if case.get("first_int"):
        pcs[1] = PointCloud(sets_arr[1].astype(np.int64))
    digest0 = [p.points.tobytes() for p in pcs]

    def fresh(r):
        return make_obj(case, make_source(case, sets_arr[0].copy()), PointCloud(sets_arr[r].copy()))

    def compare(obj, r, when):
        """property oracle: obj against the fresh alignment to sets[r]"""
        ok = True
        try:
            f = fresh(r)
            fa, oa = apply_pts(f, probes), apply_pts(obj, probes)
        except Exception as e:
            ctx.fail(site, "raises", "%s: apply / fresh construction raised %s: %s" % (when, type(e).__name__, str(e)[:100]), rp)
            return False
        if not arr_close(oa, fa, scale):
            ctx.fail(site, "map-differs", "%s: map differs from the fresh alignment to set %d: max deviation %.3g on "
                     "the probe points" % (when, r, float(np.abs(oa - fa).max())), rp)
            ok = False
        if hasattr(obj, "h_matrix") and not arr_close(obj.h_matrix, f.h_matrix, scale):
            ctx.fail(site, "map-differs", "%s: h_matrix differs from the fresh alignment to set %d" % (when, r), rp)
            ok = False
        if not (np.array_equal(obj.target.points, f.target.points)):
            ctx.fail(site, "target-differs", "%s: .target differs from the fresh alignment's .target (retargeted "
                     "object holds the given target: %s; fresh object holds the given target: %s)" % (
                         when, np.array_equal(obj.target.points, sets_arr[r]), np.array_equal(f.target.points, sets_arr[r])), rp)
            ok = False
        elif not np.array_equal(obj.target.points, sets_arr[r]):
            ctx.fail(site, "target-differs", "%s: .target is not the target that was set" % when, rp)
            ok = False
        try:
            if not arr_close(obj.aligned_source().points, f.aligned_source().points, scale):
                ctx.fail(site, "aligned-source-differs", "%s: aligned_source() differs from the fresh alignment's" % when, rp)
                ok = False
        except Exception as e:
            ctx.fail(site, "raises", "%s: aligned_source raised %s" % (when, type(e).__name__), rp)
            ok = False
        if not np.array_equal(obj.source.points, sets_arr[0]):
            ctx.fail(site, "source-altered", "%s: the source of the alignment changed" % when, rp)
            ok = False
        if obj.n_points != sets_arr[0].shape[0] or obj.n_dims != d:
            ctx.fail(site, "shape", "%s: n_points / n_dims wrong" % when, rp)
            ok = False
        return ok

    ctx.count("birth:%s%s" % (case.get("birth") or "constructor", "/int-first-target" if case.get("first_int") else ""))
    try:
        objs = None
        if case.get("birth") == "pinv":
            try:
                rev = make_obj(case, make_source(case, sets_arr[1].copy()), PointCloud(sets_arr[0].copy()))
                born = rev.pseudoinverse()
                if np.array_equal(born.source.points, sets_arr[0]) and np.array_equal(born.target.points, sets_arr[1]):
                    objs = [born]
            except Exception:      # a singular reverse alignment has no inverse: use the constructor
                objs = None
        if objs is None:
            objs = [make_obj(case, pcs[0], pcs[1])]
    except Exception as e:
        ctx.fail(site, "raises", "constructor raised %s: %s" % (type(e).__name__, str(e)[:100]), rp)
        return
    cur = [1]                 # last accepted target of every object
    verdicts = []
    accepted = 0
    after_copy = False
    ok_all = True
    if objs[0] is not None and not (case.get("birth") == "pinv" and case["ops"] and case["ops"][0][0] == "S"):
        ok_all = compare(objs[0], 1, "after construction")
    for k, op in enumerate(case["ops"]):
        if op[0] == "S":
            i, r = op[1], op[2]
            good = sets_arr[r].shape == sets_arr[0].shape
            try:
                objs[i].set_target(pcs[r])
                raised = None
            except ValueError:
                raised = "ValueError"
            except Exception as e:
                raised = type(e).__name__
            if good:
                verdicts.append("a" if raised is None else "err")
                if raised is not None:
                    ctx.fail(site, "raises", "op %d: set_target with a well-shaped target raised %s" % (k, raised), rp)
                    ok_all = False
                    continue
                cur[i] = r
                accepted += 1
                after_copy = after_copy or len(objs) > 1
            else:
                verdicts.append("err" if raised is not None else "a")
                if raised is None:
                    ctx.fail(site, "mismatch-accepted", "op %d: set_target accepted a target of shape %r on an alignment "
                             "of shape %r" % (k, sets_arr[r].shape, sets_arr[0].shape), rp)
                    ok_all = False
                    cur[i] = r
                    continue
                if raised != "ValueError":
                    ctx.fail(site, "mismatch-wrong-exception", "op %d: wrong-shaped target raised %s, not ValueError" % (k, raised), rp)
                    ok_all = False
            ok_all = compare(objs[i], cur[i], "op %d (%s)" % (k, " ".join(map(str, op)))) and ok_all
        elif op[0] == "C":
            try:
                objs.append(objs[op[1]].copy())
                cur.append(cur[op[1]])
            except Exception as e:
                ctx.fail(site, "raises", "op %d: copy raised %s" % (k, type(e).__name__), rp)
                return
        elif op[0] == "A":
            try:
                apply_pts(objs[op[1]], probes)
            except Exception as e:
                ctx.fail(site, "raises", "op %d: apply raised %s" % (k, type(e).__name__), rp)
                ok_all = False
    # every object, original or copy, at the end (copies must not have been dragged along)
    for i, obj in enumerate(objs):
        if sets_arr[cur[i]].shape == sets_arr[0].shape:
            ok_all = compare(obj, cur[i], "at the end, object %d" % i) and ok_all
    for j, p in enumerate(pcs):
        if p.points.tobytes() != digest0[j]:
            ctx.fail(site, "caller-pointset-altered", "point set %d passed by the caller was modified" % j, rp)
            ok_all = False
    if count:
        ctx.count("class:" + icls)
        ctx.count("dims:%d" % d)
        for key, v in sorted(case["opts"].items()):
            ctx.count("opt:%s=%s" % (key, v))
        ctx.count("ops:set_target", sum(1 for o in case["ops"] if o[0] == "S"))
        ctx.count("ops:copy", sum(1 for o in case["ops"] if o[0] == "C"))
        ctx.count("ops:rejected", sum(1 for v, o in zip(verdicts, [o for o in case["ops"] if o[0] == "S"])
                                     if v == "err"))
        ctx.case(("hist", icls, json.dumps(case["opts"], sort_keys=True), case["sets"][0], case["ops"]),
                 nontrivial=accepted >= 2 or after_copy,
                 sample={"class": icls, "opts": case["opts"], "d": d, "n": len(case["sets"][0]), "ops": case["ops"]})
    # ---- model query
    if lines is not None and ok_all:
        cid = "h%d" % len(lines)
        lines.append("%s %s" % (cid, hist_line(case, sets_arr)))
        pending[cid] = ("hist", case, verdicts, objs, cur)
        if case.get("witness") and all(op[0] != "C" for op in case["ops"]):
            # the same history through the model of the tree as found: must differ exactly where the findings are
            lines.append("%sc %s" % (cid, hist_line(case, sets_arr, tree="coded")))
            pending[cid + "c"] = ("coded", cid, case)


def hist_line(case, sets_arr, tree="fixed"):
    """`hist` request with the reference fits from set 0 to every well-shaped set"""
    o = case["opts"]
    mcls = case["mcls"]
    S = sets_arr[0]
    toks = ["hist", tree, mcls, "1" if o.get("rotation", True) else "0", "1" if o.get("allow_mirror", False) else "0",
            str(o.get("kernel", 0)), fq(o.get("min_singular_val", 1e-4)), str(len(sets_arr))]

    def lst(a):
        import numpy as np
        a = np.asarray(a, dtype=float).ravel()
        return "%d %s" % (len(a), " ".join(fq(x) for x in a)) if len(a) else "0"

    for r, T in enumerate(sets_arr):
        toks.append("%d %d %d" % (r, T.shape[0], T.shape[1]))
        good = T.shape == S.shape
        toks.append(lst(ref_translation(S, T)) if good and mcls == "translation" else "0")
        toks.append(fq(ref_scale(S, T)) if good and mcls == "uniformScale" else "1")
        for m in (False, True):
            toks.append(lst(ref_rotation(S, T, m)) if good and mcls == "rotation" else "0")
        toks.append(lst(ref_affine(S, T)) if good and mcls == "affine" else "0")
        for rot in (False, True):
            for m in (False, True):
                toks.append(lst(ref_procrustes(S, T, rot, m)) if good and mcls == "similarity" else "0")
    mops = [op for op in case["ops"] if op[0] in ("S", "C")]
    toks.append(str(len(mops)))
    for op in mops:
        toks.append(" ".join(str(x) for x in op))
    return " ".join(toks)


def parse_hist(reply):
    """('err', kind) | ('ok', verdicts, [obj dict])"""
    if reply.startswith("err"):
        return ("err", reply.split()[1])
    if not reply.startswith("ok"):
        return ("bad", reply)
    parts = reply[2:].split(" ; ")
    verdicts = parts[0].split()
    objs = []
    for p in parts[1:]:
        t = p.split()
        objs.append({"src": int(t[0]), "tgt": int(t[1]), "rot": t[2], "mir": t[3], "ker": t[4], "sv": t[5],
                     "kind": t[6], "rest": t[7:]})
    return ("ok", verdicts, objs)


def compare_model(ctx, reply, case, verdicts, objs, cur):
    """model (Lean) against implementation on one history"""
    import numpy as np
    import re
    sets_arr = [np.array(X, dtype=float) for X in case["sets"]]
    probes = np.array(case["probes"], dtype=float)
    scale = case_scale(case)
    rp = {"case": case, "model_reply": reply[:600]}
    m = parse_hist(reply)
    if m[0] != "ok":
        ctx.mismatch("hist", "model says %r, the implementation constructed the alignment" % (reply[:80],), rp)
        return
    mver = ["a" if v == "a" else "err" for v in m[1]]
    if mver != verdicts:
        ctx.mismatch("hist/verdicts", "accept/reject sequence: model %r, implementation %r" % (m[1], verdicts), rp)
        return
    if len(m[2]) != len(objs):
        ctx.mismatch("hist/objects", "model has %d objects, implementation %d" % (len(m[2]), len(objs)), rp)
        return
    for i, (mo, obj) in enumerate(zip(m[2], objs)):
        if not np.array_equal(obj.target.points, sets_arr[mo["tgt"]]) or mo["tgt"] != cur[i]:
            ctx.mismatch("hist/target", "object %d: model target is set %d, implementation holds set %d" % (
                i, mo["tgt"], cur[i]), rp)
            continue
        if mo["kind"] == "hom":
            d = case["d"]
            vals = np.array([float(common.pq(x)) for x in mo["rest"]]).reshape(d + 1, d + 1)
            if not arr_close(obj.h_matrix, vals, max(scale, float(np.abs(vals).max()))):
                ctx.mismatch("hist/matrix", "object %d: h_matrix differs from the model's by %.3g" % (
                    i, float(np.abs(obj.h_matrix - vals).max())), rp)
        elif mo["kind"] == "tps":
            mm = re.match(r"L\(k(\d+),p(\d+)\) C\(L\(k(\d+),p(\d+)\),(-?\d+)/(\d+),p(\d+)\)$", " ".join(mo["rest"]))
            if not mm or mm.group(1) != mm.group(3) or mm.group(2) != "0" or mm.group(4) != "0":
                ctx.mismatch("hist/tps", "object %d: unexpected state descriptor %r" % (i, mo["rest"]), rp)
                continue
            k, sv, t = int(mm.group(1)), int(mm.group(5)) / float(int(mm.group(6))), int(mm.group(7))
            want = ref_tps_apply(k, sv, sets_arr[0], sets_arr[t], probes)
            got = apply_pts(obj, probes)
            sc = max(scale, float(np.abs(tps_kernel(k, sets_arr[0], sets_arr[0])).max()))
            if not arr_close(got, want, sc):
                ctx.mismatch("hist/tps", "object %d: map differs from the reference TPS (kernel %d, floor %g, target set "
                             "%d) by %.3g" % (i, k, sv, t, float(np.abs(got - want).max())), rp)
        elif mo["kind"] == "pwa":
            mm = re.match(r"V\(p(\d+),p(\d+)\)$", " ".join(mo["rest"]))
            if not mm or mm.group(1) != "0":
                ctx.mismatch("hist/pwa", "object %d: unexpected state descriptor %r" % (i, mo["rest"]), rp)
                continue
            t = int(mm.group(2))
            tl = np.array(case["trilist"]) if case["trilist"] is not None else delaunay(sets_arr[0])
            want = np.array([sum(w[j] * sets_arr[t][tl[ti][j]] for j in range(3)) for ti, w in case["pinfo"]])
            got = apply_pts(obj, probes)
            if not arr_close(got, want, scale):
                ctx.mismatch("hist/pwa", "object %d: map differs from the barycentric reference to set %d by %.3g" % (
                    i, t, float(np.abs(got - want).max())), rp)


# ------------------------------------------------------------------------------- witness (the Lean witnesses, on the real code)

def witness_cases():
    S = [[1.0, 1.0], [-1.0, 1.0], [-1.0, -1.0], [1.0, -1.0]]
    T1 = [[-2.0, 2.0], [-2.0, -2.0], [2.0, -2.0], [2.0, 2.0]]      # S turned by 90 degrees and doubled
    T5 = [[2.0, 1.0], [-1.0, 1.0], [-1.0, -1.0], [1.0, -1.0]]
    P3 = [[0.0, 0.0], [3.0, 1.0], [1.0, 4.0]]
    P4 = [[0.0, 0.0, 1.0], [3.0, 1.0, 0.0], [1.0, 4.0, 2.0], [2.0, 2.0, 5.0]]
    sets = [S, S, T1, P3, P4, T5]
    probes = [[0.5, 0.25], [2.0, -1.0], [-3.0, 0.5], [1.0, 1.0], [0.0, 0.0]]
    out = []
    for mcls, icls, opts, ops in [
        ("similarity", "AlignmentSimilarity", {"rotation": False, "allow_mirror": False}, [["S", 0, 2]]),
        ("affine", "AlignmentAffine", {}, [["S", 0, 5]]),
        ("rotation", "AlignmentRotation", {"allow_mirror": False}, [["S", 0, 5], ["S", 0, 2]]),
        ("translation", "AlignmentTranslation", {}, [["S", 0, 2], ["S", 0, 3], ["S", 0, 4], ["S", 0, 5], ["S", 0, 3]]),
        ("translation", "AlignmentTranslation", {}, [["C", 0], ["S", 0, 5], ["S", 1, 2], ["S", 1, 3]]),
        ("uniformScale", "AlignmentUniformScale", {}, [["S", 0, 5], ["S", 0, 2]]),
    ]:
        out.append({"kind": "hist", "mcls": mcls, "icls": icls, "d": 2, "opts": opts, "sets": sets, "trilist": None,
                    "ops": ops, "probes": probes, "pinfo": None, "witness": "history"})
    for mcls, icls, opts in [("affine", "AlignmentAffine", {}), ("rotation", "AlignmentRotation", {"allow_mirror": False})]:
        # finding 22: the freshly constructed object itself (no call at all), first target not an exact fit
        out.append({"kind": "hist", "mcls": mcls, "icls": icls, "d": 2, "opts": opts, "sets": [S, T5, T1, P3, P4],
                    "trilist": None, "ops": [], "probes": probes, "pinfo": None, "witness": "fresh"})
    return out


def witness_table(ctx):
    """the values the Lean witnesses assume for the real fits are the values the real fits have"""
    import numpy as np
    import menpo.transform as mt
    from menpo.shape import PointCloud
    w = witness_cases()[0]["sets"]
    S, T1, T5 = (np.array(w[i]) for i in (0, 2, 5))
    pc = PointCloud
    checks = [
        ("procrustes rotation=True S->T1", mt.AlignmentSimilarity(pc(S), pc(T1)).h_matrix, [[0, -2, 0], [2, 0, 0], [0, 0, 1]]),
        ("procrustes rotation=False S->T1", mt.AlignmentSimilarity(pc(S), pc(T1), rotation=False).h_matrix,
         [[2, 0, 0], [0, 2, 0], [0, 0, 1]]),
        ("affine S->T5", mt.AlignmentAffine(pc(S), pc(T5)).h_matrix, [[1.25, 0.25, 0.25], [0, 1, 0], [0, 0, 1]]),
        ("translation S->T5", mt.AlignmentTranslation(pc(S), pc(T5)).h_matrix, [[1, 0, 0.25], [0, 1, 0], [0, 0, 1]]),
        ("rotation S->T1", mt.AlignmentRotation(pc(S), pc(T1)).h_matrix, [[0, -1, 0], [1, 0, 0], [0, 0, 1]]),
        ("scale S->T1", mt.AlignmentUniformScale(pc(S), pc(T1)).h_matrix, [[2, 0, 0], [0, 2, 0], [0, 0, 1]]),
    ]
    for name, got, want in checks:
        if not arr_close(got, want, 2.0):
            ctx.mismatch("witness-table", "%s: the real fit gives %r, the Lean witness table says %r" % (
                name, np.round(got, 6).tolist(), want), {"check": name})


# ------------------------------------------------------------------------------- GPA

def gen_gpa(rng):
    import numpy as np
    d = rng.choice([2, 2, 3])
    n = rng.randint(4, 8) if d == 2 else rng.randint(5, 8)
    k = rng.randint(3, 8)
    base = gen_cloud(rng, n, d)
    shapes = []
    reflect = rng.random() < 0.3
    amp = rng.choice([1 / 32.0, 1 / 8.0, 1 / 4.0, 1 / 2.0])
    for _ in range(k):
        c, s_ = common.rat_circle(rng, 6)
        M = np.eye(d)
        M[:2, :2] = [[float(c), -float(s_)], [float(s_), float(c)]]
        M = np.round(M * rng.choice([0.5, 1.0, 1.5, 2.0]) * 64) / 64
        if reflect and rng.random() < 0.3:
            M[:, 0] = -M[:, 0]
        P = base.dot(M.T) + np.array([dy(rng, -6, 6) for _ in range(d)])
        P = P + np.array([[rng.randint(-4, 4) * amp for _ in range(d)] for _ in range(n)])
        shapes.append((np.round(P * 1024) / 1024).tolist())
    return {"kind": "gpa", "d": d, "shapes": shapes, "allow_mirror": rng.random() < 0.4,
            "fixed_target": rng.random() < 0.2}


def ref_gpa(shapes, mirror, target0=None):
    """independent re-implementation of the iteration with fresh fits only: (targets T_0.., flags, near_tie)"""
    import numpy as np
    T = np.mean(shapes, axis=0) if target0 is None else target0
    size0 = np.sqrt(((T - T.mean(0)) ** 2).sum())
    targets, flags, near = [T], [], False
    for _ in range(100):
        al = [apply_h(ref_procrustes(S, T, True, mirror), S) for S in shapes]
        new = np.mean(al, axis=0)
        c = new.mean(0)
        new = (new - c) * (size0 / np.sqrt(((new - c) ** 2).sum())) + c
        delta = np.sqrt(((T - new) ** 2).sum())
        if abs(delta - 1e-6) < 1e-9:
            near = True
        flags.append(bool(delta < 1e-6))
        if flags[-1]:
            break
        T = new
        targets.append(T)
    return targets, flags, near


def run_gpa(ctx, case, lines=None, pending=None, count=True):
    import numpy as np
    from menpo.shape import PointCloud
    from menpo.transform import GeneralizedProcrustesAnalysis, AlignmentSimilarity
    site = "C08/gpa"
    shapes = [np.array(X, dtype=float) for X in case["shapes"]]
    mirror = case["allow_mirror"]
    fixed_t = case.get("fixed_target", False)
    for i, S in enumerate(shapes):
        for T in shapes[:1] + [np.mean(shapes, axis=0)]:
            if not rot_conditioned(S, T):
                return False
    t0 = shapes[0] * 1.25 + 0.5 if fixed_t else None
    targets, flags, near = ref_gpa(shapes, mirror, t0)
    if near:
        return False
    for T in targets:
        if any(not rot_conditioned(S, T) for S in shapes):
            return False
    rp = {"case": case, "how": "g = GeneralizedProcrustesAnalysis([PointCloud(s) for s in shapes], target=%s, "
                               "allow_mirror=...); compare g.transforms[i] with AlignmentSimilarity(PointCloud(shapes[i]), "
                               "g.target, allow_mirror=...)" % ("shapes[0]*1.25+0.5" if fixed_t else "None")}
    pcs = [PointCloud(S.copy()) for S in shapes]
    dig = [p.points.tobytes() for p in pcs]
    scale = max(1.0, float(np.abs(np.array(shapes)).max()))
    try:
        g = GeneralizedProcrustesAnalysis(pcs, target=PointCloud(t0.copy()) if fixed_t else None, allow_mirror=mirror)
    except Exception as e:
        ctx.fail(site, "raises", "GPA raised %s: %s" % (type(e).__name__, str(e)[:100]), rp)
        return True
    ok = True
    if not fixed_t:      # the property clause
        if len(g.transforms) != len(shapes):
            ctx.fail(site, "count", "%d transforms for %d shapes" % (len(g.transforms), len(shapes)), rp)
            ok = False
        for i, (t, S) in enumerate(zip(g.transforms, shapes)):
            f = AlignmentSimilarity(PointCloud(S.copy()), PointCloud(g.target.points.copy()), allow_mirror=mirror)
            if not arr_close(t.h_matrix, f.h_matrix, scale):
                ctx.fail(site, "transform-not-alignment-to-reported-target", "transforms[%d] differs from the fresh "
                         "AlignmentSimilarity of shape %d to gpa.target by %.3g" % (i, i, float(np.abs(t.h_matrix - f.h_matrix).max())), rp)
                ok = False
            if not np.array_equal(t.target.points, g.target.points):
                ctx.fail(site, "transform-target", "transforms[%d].target is not gpa.target" % i, rp)
                ok = False
            if not np.array_equal(t.source.points, S):
                ctx.fail(site, "transform-source", "transforms[%d].source is not input shape %d" % (i, i), rp)
                ok = False
            if not arr_close(t.aligned_source().points, f.aligned_source().points, scale):
                ctx.fail(site, "aligned-source-differs", "transforms[%d].aligned_source() differs from the fresh one" % i, rp)
                ok = False
    for j, p in enumerate(pcs):
        if p.points.tobytes() != dig[j]:
            ctx.fail(site, "caller-pointset-altered", "input shape %d was modified by GPA" % j, rp)
            ok = False
    if count:
        ctx.count("gpa:%s" % ("fixed-target" if fixed_t else "free"))
        ctx.count("gpa:iterations=%d" % min(g.n_iterations, 9))
        ctx.case(("gpa", case["shapes"], mirror, fixed_t), nontrivial=g.n_iterations >= 2,
                 sample={"gpa_shapes": len(shapes), "d": case["d"], "n": len(case["shapes"][0]),
                         "allow_mirror": mirror, "iterations": g.n_iterations})
    if lines is not None and ok:
        cid = "g%d" % len(lines)
        lines.append("%s gpa fixed 100 %d %d %d %d %d %d %s" % (
            cid, len(shapes), shapes[0].shape[0], shapes[0].shape[1], int(mirror), int(fixed_t), len(flags),
            " ".join("1" if f else "0" for f in flags)))
        pending[cid] = ("gpa", case, g, targets, shapes)
    return True


def compare_gpa(ctx, reply, case, g, targets, shapes):
    import numpy as np
    rp = {"case": case, "model_reply": reply[:400]}
    if not reply.startswith("ok"):
        ctx.mismatch("gpa", "model says %r" % reply[:80], rp)
        return
    parts = reply[2:].split(" ; ")
    n_it, conv, tgt = (int(x) for x in parts[0].split())
    scale = max(1.0, float(np.abs(np.array(shapes)).max()))
    if n_it != g.n_iterations or bool(conv) != bool(g.converged):
        ctx.mismatch("gpa/iterations", "model: %d iterations converged=%d; implementation: %d, %s" % (
            n_it, conv, g.n_iterations, g.converged), rp)
        return
    if case.get("fixed_target"):
        want_t = shapes[0] * 1.25 + 0.5
    else:
        want_t = targets[tgt - 1000]
    if not arr_close(g.target.points, want_t, scale):
        ctx.mismatch("gpa/target", "gpa.target differs from reference target %d" % (tgt - 1000), rp)
        return
    for i, (p, t) in enumerate(zip(parts[1:], g.transforms)):
        tok = p.split()
        s_id, t_code, rot, mir = int(tok[4 + 1]), int(tok[4]), tok[4 + 2] == "1", tok[4 + 3] == "1"
        want = ref_procrustes(shapes[s_id], targets[t_code - 1000], rot, mir)
        if not arr_close(t.h_matrix, want, scale):
            ctx.mismatch("gpa/transform", "transforms[%d] differs from the reference Procrustes fit (source %d, target "
                         "%d, rotation=%s, mirror=%s) by %.3g" % (i, s_id, t_code - 1000, rot, mir,
                                                                  float(np.abs(t.h_matrix - want).max())), rp)
        if not arr_close(t.target.points, targets[int(tok[1]) - 1000], scale):
            ctx.mismatch("gpa/transform-target", "transforms[%d].target is not reference target %d" % (i, int(tok[1]) - 1000), rp)


# ------------------------------------------------------------------------------- shrinking

class _Probe(object):
    """a throw-away context: collects oracle failures only"""
    def __init__(self):
        self.failures = []

    def fail(self, site, pattern, text, replay):
        self.failures.append((site, pattern, text, replay))

    def count(self, *a, **k):
        pass

    def case(self, *a, **k):
        pass

    def mismatch(self, *a, **k):
        pass


def _valid_ops(ops):
    n = 1
    for op in ops:
        if op[1] >= n:
            return False
        if op[0] == "C":
            n += 1
    return True


def checked_case(ctx, case, lines=None, pending=None):
    """run_case, and when the oracle fails minimise the history (drop calls while the same failure remains)"""
    n0 = len(ctx.failures)
    run_case(ctx, case, lines, pending)
    if len(ctx.failures) == n0 or case.get("witness"):
        return
    pairs = []
    for f in ctx.failures[n0:]:
        if (f[0], f[1]) not in pairs:
            pairs.append((f[0], f[1]))
    for site, pattern in pairs[:4]:
        best, best_fail = case, None
        progress = True
        while progress and len(best["ops"]) > 1:
            progress = False
            for k in range(len(best["ops"])):
                ops = best["ops"][:k] + best["ops"][k + 1:]
                if not _valid_ops(ops):
                    continue
                trial = dict(best, ops=ops)
                pr = _Probe()
                run_case(pr, trial, count=False)
                hit = [f for f in pr.failures if f[0] == site and f[1] == pattern]
                if hit:
                    best, best_fail, progress = trial, hit[0], True
                    break
        if best_fail is not None:
            for j in range(n0, len(ctx.failures)):
                if ctx.failures[j][0] == site and ctx.failures[j][1] == pattern:
                    ctx.failures[j] = (site, pattern, best_fail[2] + " [history minimised from %d to %d calls]" % (
                        len(case["ops"]), len(best["ops"])), best_fail[3])
                    break


# ------------------------------------------------------------------------------- exploration

def explore(ctx, n_hist, n_gpa, lines, pending, witnesses=True):
    rng = ctx.rng
    if witnesses:
        witness_table(ctx)
        for case in witness_cases():
            checked_case(ctx, case, lines, pending)
    fams = families()
    done = 0
    i = 0
    while done < n_hist:
        fam = fams[i % len(fams)]
        i += 1
        case = gen_case(rng, fam)
        if case is None:
            ctx.count("generator-rejections")
            continue
        checked_case(ctx, case, lines, pending)
        done += 1
    done = 0
    tries = 0
    while done < n_gpa and tries < 20 * n_gpa + 20:
        tries += 1
        if run_gpa(ctx, gen_gpa(rng), lines, pending):
            done += 1
        else:
            ctx.count("generator-rejections")


def settle(ctx, lines, pending):
    if not lines:
        return
    model = common.run_driver(PROP, lines)
    differs = []
    for cid, item in pending.items():
        if item[0] == "hist":
            compare_model(ctx, model[cid], *item[1:])
        elif item[0] == "coded":
            if model[cid] != model[item[1]]:
                differs.append("%s/%s" % (item[2]["icls"], item[2]["witness"]))
        else:
            compare_gpa(ctx, model[cid], *item[1:])
    if any(it[0] == "coded" for it in pending.values()):
        # findings 6 and 22 are visible through the driver: the two models disagree on exactly these witnesses
        ctx.notes["coded_model_differs_on_witnesses"] = sorted(differs)
        if sorted(differs) != ["AlignmentAffine/fresh", "AlignmentRotation/fresh", "AlignmentSimilarity/history"]:
            raise common.Infra("driver: coded/fixed models differ on %r, expected exactly the three witness classes" % differs)


def search(ctx):
    """directed search on the real code (oracle only): the classes / options of the mismatching cases first,
    then every family with longer histories"""
    before = ctx.evaluations
    fams = families()
    hot = []
    for op, text, rp in ctx.mismatches[:20]:
        c = rp.get("case") if isinstance(rp, dict) else None
        if c and c.get("kind") == "hist":
            hot += [f for f in fams if f[1] == c["icls"]]
    rng = ctx.rng
    for fam in hot * 10 + fams * 12:
        case = gen_case(rng, fam, n_ops=rng.randint(2, 8))
        if case is not None:
            checked_case(ctx, case)
        if ctx.failures:
            break
    if not ctx.failures:
        for _ in range(60):
            run_gpa(ctx, gen_gpa(rng))
    ctx.searched += ctx.evaluations - before
    return bool(ctx.failures)


def run(ctx):
    common.prepare_lean(ctx, PROP, IMPORTS, THEOREMS)
    lines, pending = [], {}
    explore(ctx, ctx.n(1500, 20000), ctx.n(100, 1500), lines, pending)
    settle(ctx, lines, pending)
    return ctx.finish(search)


def replay(ctx, path):
    """re-execute the recorded case against the current tree and the model"""
    data = json.load(open(path))
    rp = data.get("replay") or {}
    case = rp.get("case")
    if case is None:
        for b in data.get("broken_correspondence", []):
            if isinstance(b.get("case"), dict) and b["case"].get("case"):
                case = b["case"]["case"]
                break
    if case is None:
        print("no recorded case in %s; re-running the quick exploration with seed %r" % (path, data.get("seed")))
        return run(common.Ctx(PROP, "quick", int(data.get("seed", 0))))
    print("replaying %s case: %s" % (case["kind"], json.dumps({k: v for k, v in case.items() if k not in ("sets", "shapes", "probes", "pinfo")})))
    common.prepare_lean(ctx, PROP, IMPORTS, THEOREMS)
    lines, pending = [], {}
    if case["kind"] == "hist":
        run_case(ctx, case, lines, pending)
    else:
        run_gpa(ctx, case, lines, pending)
    settle(ctx, lines, pending)
    for site, pattern, text, _ in ctx.failures:
        print("  oracle: [%s | %s] %s" % (site, pattern, text))
    for op, text, _ in ctx.mismatches:
        print("  model/implementation: [%s] %s" % (op, text))
    return ctx.finish(None)
