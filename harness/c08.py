"""C08 — retargeting an alignment equals rebuilding it, whatever happened before (DESIGN.md section 6, C08).

Parties
  implementation  the real alignment classes of menpo: constructors, set_target, copy, pseudoinverse, from_vector_inplace /
                  set_rotation_matrix / compose_*_inplace, GeneralizedProcrustesAnalysis - on PointCloud objects that share
                  ndarrays, that the caller overwrites in place between calls, of int / float32 dtype, flagged read-only
  oracle          the property text on the real objects: after every accepted set_target the object is compared with a
                  *freshly constructed* alignment of the same class / options from a copy of the source to a copy of the
                  coordinates the given target has at that moment (map on probe points, h_matrix, target, aligned source),
                  whatever happened before - and every object nothing happened to since is compared again at the end; bytes of
                  every array the caller owns against what the caller itself put there; wrong-shaped targets must raise
                  ValueError; GPA transforms against fresh AlignmentSimilarity(source_i, gpa.target).  Independent of the model.
  model           Core/C08Retarget.lean + Core/C08Heap.lean run by the driver with the *reference fits* this harness computes
                  with its own numpy code (centroid difference, norm ratio, Kabsch, least squares, Procrustes, TPS solve,
                  barycentric map): the model decides which fit, with which remembered options, on which coordinates, is in
                  effect after the history; which PointCloud object every alignment holds (Python identity is compared with
                  the model's references); how partial in-place writes, re-bindings and exact matrix products assemble the
                  matrix; what every array of the caller holds; GPA with symbolic fits and the convergence flags of an
                  independent re-implementation of the iteration (Lean: refGpa, theorem gpa_eq_fresh_iteration).
  table           Generated/C08RW.lean, rewritten on every run: the instance attributes set_target reads / writes / writes in
                  place on live objects of every class and option combination; GenProps/C08.lean: they are the model's.
  translation     Generated/C08Src.lean, rewritten on every run from the SOURCE TEXT of the working tree (harness/trans_c08.py,
                  harness/py2lean2.py): set_target and the verified setter, every _sync_state_from_target, every alignment
                  constructor and its homogeneous parents, _build_coefficients / _rebuild_target_vectors, copy / pseudoinverse,
                  the parameter-edit overrides, procrustes_alignment, GeneralizedProcrustesAnalysis (the recursion with both
                  exits); GenProps/C08Src.lean: each translated definition equals the Core definition, for all arguments;
                  GenProps/C08SrcProps.lean: the property for the translated definitions (sync after init = init, retarget =
                  rebuild, GPA transforms = fresh alignments on every exit path).
"""
import json

from . import common
from .common import fq

PROP = "C08"
INFO = dict(
    technique="Lean 4 proof (state machine over histories of set_target, parameter edits and in-place writes of the caller, "
              "generic in the numerical fits: whole-object equality with the fresh alignment by induction over the history; "
              "frame theorems of the re-fit (reads / writes) tied to the live classes by a regenerated attribute table with "
              "`decide` obligations; heap refinement for PointCloud objects sharing arrays, in-place matrix writes, "
              "shallow / deep copies; GPA equal to the iteration with fresh alignments only) + model/implementation "
              "correspondence with independently computed reference fits and Python object identities + "
              "fresh-construction oracle on random histories + SOURCE TRANSLATION: 65 definitions (57 functions, 8 option defaults) of the alignment machinery "
              "are translated from the source text of the working tree into Lean on every run (harness/trans_c08.py over "
              "harness/py2lean2.py) and proved equal, for all arguments, to the Core definitions the theorems are about "
              "(62 obligations, shape-independent proofs), so that the property theorems are also stated and proved for "
              "the translated definitions themselves",
    level_text="Theorems over an executable model of Targetable.set_target, the seven alignment constructors, every "
               "_sync_state_from_target (which remembered options each re-fit passes, which part of the homogeneous matrix "
               "it overwrites in place), _sync_target_from_state, from_vector_inplace / set_rotation_matrix / "
               "compose_*_inplace of the five homogeneous alignments (exact matrix product), HomogFamilyAlignment.copy, "
               "Copyable.copy of TPS / PWA, GeneralizedProcrustesAnalysis, on a heap of PointCloud objects referring to "
               "ndarrays the caller may share between objects and overwrite in place, for arbitrary fit functions: (1) after "
               "any finite history of accepted and rejected set_target calls the object equals the freshly built alignment "
               "(same class, options, source) to the last accepted target; (2) the same after *anything* - parameter edits, "
               "the caller moving the held target, copies: one accepted set_target(t) makes the object the fresh alignment "
               "to the coordinates t has at that moment, also when t is the very object already held; a rejected call "
               "changes nothing anywhere; (3) the re-fit reads / writes exactly the fields readsOf / writesOf list, and from "
               "that alone the fitted state after any history is a function of (class, options, source, kept matrix part) "
               "and the last accepted target; the measured attribute reads / writes of the live classes are those lists "
               "(regenerated obligation); (4) any interleaving over any number of objects computes what independent values "
               "compute and never writes an array of coordinates - arrays change only by the caller's own writes; (5) on "
               "every exit path GPA's transforms are the fresh alignments of each source to the reported target, and its "
               "target / n_iterations / converged are those of the iteration with fresh alignments only; "
               "mean_aligned_shape / alignment errors are functions of (sources, reported target).  The tree as found is "
               "characterised universally and refuted by kernel-checked witnesses.  Tied to /repo by running real "
               "histories (all classes x all option combinations x set_target / copy / apply / parameter edits / caller "
               "writes / rejected targets, aliasing PointClouds, int / float32 / read-only arrays, pinv-born objects, 2-D "
               "and 3-D) and diffing matrices / maps / targets / held-object identities / array contents / verdicts "
               "against the Lean driver; the fresh-construction oracle decides the property on the real code.  "
               "TRANSLATED rather than transcribed (Generated/C08Src.lean, from the source text on every run; "
               "GenProps/C08Src.lean proves `translated = Core` for all arguments): Targetable.n_dims / n_points / set_target / "
               "_target_setter_with_verification / _verify_target / _sync_target_from_state; Alignment.__init__ / "
               "_verify_source_and_target / aligned_source / _target_setter / _new_target_from_state; the "
               "_sync_state_from_target of AlignmentAffine / AlignmentSimilarity / AlignmentRotation / AlignmentTranslation / "
               "AlignmentUniformScale / ThinPlateSplines / AbstractPWA (which fit, of which point sets, with which "
               "remembered option, written into which part of the matrix) behind a dispatcher generated from the live "
               "MROs; ThinPlateSplines._build_coefficients and AbstractPWA._rebuild_target_vectors numpy expression by "
               "numpy expression; the __init__ of the seven alignment classes (option storage, defaults of every option "
               "parameter, the target re-binding after the constructor's own re-sync) and of Homogeneous / Affine / "
               "Similarity / Rotation / Translation / UniformScale / PythonPWA / CachedPWA, for every newborn object; the "
               "overrides AlignmentAffine._set_h_matrix, AlignmentRotation.set_rotation_matrix, the three "
               "_from_vector_inplace, Homogeneous._compose_before_inplace / _compose_after_inplace (= the model's vEdit), "
               "HomogFamilyAlignment.pseudoinverse and ThinPlateSplines.pseudoinverse (= the model's pinv, at value level: "
               "matrix inverted, source and target swapped, kernel kind and floor passed on), HomogFamilyAlignment.copy "
               "(value level: an equal object whose matrix is an owned array; independence of copies is NOT part of the "
               "translated obligations - heap model, correspondence and oracle decide it); "
               "procrustes_alignment's plumbing (rotation=False composes no rotation, allow_mirror reaches only the "
               "rotation fit); MultipleAlignment.__init__ (argument checks), GeneralizedProcrustesAnalysis.__init__ and "
               "_recursive_procrustes: the recursion with the `n_iterations > max_iterations` exit and the convergence exit "
               "equals the model's iteration for every max_iterations (Python's recursion depth as fuel that is never the "
               "limit).  For the translated definitions themselves: (6) `_sync_state_from_target` after `__init__` with "
               "the same target is the identity, for every class and option value (src_sync_after_init); (7) after any "
               "history of translated set_target calls the object is what the translated constructor builds to the last "
               "accepted target (src_retarget_eq_rebuild); a wrong-shaped target raises ValueError and changes nothing "
               "(src_set_target_rejects); (8) on both exits of the translated recursion GPA's transforms are the translated "
               "fresh AlignmentSimilarity of every source to the reported target, n_iterations <= max_iterations + 1 and "
               "converged = False only on the max_iterations exit (src_gpa_transforms_are_alignments).",
    level_note="Trusted: Lean kernel; axioms propext/Classical.choice/Quot.sound; Python harness (generators, oracle, "
               "reference fits, attribute read tracing); driver parser.  Contract parameters (abstract in the theorems, their "
               "values supplied by the harness's own numpy code and thereby cross-checked against menpo on every case): "
               "centroid, Frobenius norm, SVD/Kabsch rotation, least-squares affine, Procrustes composition, TPS system "
               "solve with singular-value floor, barycentric map, Delaunay triangulation, GPA mean/rescale/convergence test.  "
               "Float rounding (model exact; 1e-9 relative tolerance, 1e-5 when a float32 array is involved).  Python "
               "reference semantics of attributes and ndarrays are modelled by the heap of Core/C08Heap.lean (objects, "
               "references, whole-array sharing), checked by identity comparisons on every case, not verified.  "
               "Source translation: harness/py2lean2.py + harness/trans_c08.py (the translator and the C08 rule table: which "
               "Lean term each Python expression / statement stands for) are trusted; what the rules do not translate but "
               "name: Affine._set_h_matrix and Rotation.set_rotation_matrix (numpy shape checks; Core/C08Py.lean: affineSetH, "
               "rotationSetR), Similarity._from_vector_inplace (the matrix a parameter vector stands for), every numpy "
               "operation (abstract functions of `Np`, `GpaK`, `ProcK`: one per numpy expression, so that hoisting an "
               "expression into a local or a helper keeps the source translatable; private helper functions of menpo "
               "modules are translated in place at every call); which point set a TPS kernel is centred on (the "
               "model's kernels are numbers: the rules exist only for `R2LogR2RBF(source.points)` in the constructor and "
               "`type(self.kernel)(self.target.points)` in pseudoinverse, any other centre is untranslatable = a broken "
               "obligation, but the equalities themselves do not mention the centre); ownership of arrays: `.copy()` / "
               "`_h_matrix_pseudoinverse()` in HomogFamilyAlignment.copy / pseudoinverse are translated into a wrapper type "
               "(`Owned`), so a dropped copy does not type-check, every other `.copy()`, `copy=` flag and in-place-versus-"
               "rebinding distinction is invisible to the translated obligations - the aliasing / non-mutation clause is "
               "decided by the oracle's byte digests, the measured read / write table, the measured copy table (copyTable_ok: "
               "`c._h_matrix is not o._h_matrix` on live objects of every class) and the heap correspondence, not by them; the `if self.target is None: return` branch of _verify_target is dropped (constructed objects "
               "always hold a target).  Read / write tracing (Generated/C08RW.lean) covers the instance attributes of the "
               "alignment object on one sampled execution per class and option combination; state outside the instance "
               "dictionary and data-dependent reads on other paths are the oracle's business.  The table instantiation "
               "of the fits used by the driver (`tableExt`) ignores the *source* argument of every fit (one source per "
               "case): a model that picked the wrong source would not be exposed by the driver, only by the theorems.  "
               "The class families (`families()`, `MODEL_CLASSES`) are enumerated by hand; the concrete Alignment "
               "subclasses of the live tree are listed in the evidence (`alignment_subclasses_live`) and counted when one "
               "is not covered.",
    rule="a case = one history on one alignment object family (class, options, dimension): 1-6 set_target calls drawn "
         "from 3-5 valid targets (float64 / int64 / float32 arrays, some read-only), wrong-shaped targets (other number of "
         "points, other dimension, both with the same number of elements), the source "
         "itself and PointClouds sharing an array, copies at random points, calls on copies, pure apply calls, in-place "
         "writes of the caller into target arrays followed by set_target with the very object held, parameter edits "
         "(from_vector_inplace / set_rotation_matrix / compose_before_inplace / compose_after_inplace) in between; or one "
         "GPA run on 2-8 shapes (max_iterations 100 or pinned to 1-3); distinct = distinct (class, options, points, "
         "history); non-trivial = at least two accepted set_target calls or a set_target after a copy (GPA: at least "
         "one re-targeting iteration)",
    partial=["the numerical fits are abstract functions in the theorems (their optimality is C07)",
             "that no re-fit writes a point set: in the model no operation other than the caller's own write has an "
             "array write (theorems arrays_change_only_by_caller, retarget_frame state it - a transcription fact); on the "
             "real code it is decided by the regenerated table (source, previous target and argument of the measured "
             "set_target calls come out byte-identical), the byte-digest oracle and read-only arrays in the histories",
             "arrays are shared whole (PointCloud(a, copy=False) on the same ndarray); partially overlapping views are "
             "not modelled; the caller never overwrites an array some alignment uses as its source (hypothesis LegalAct "
             "of the heap theorems: ThinPlateSplines builds its kernel and system matrix once from the source)",
             "in-place compositions: the theorems take the operand's matrix to be class-shaped (identity outside the part "
             "the class owns) - what composes_inplace_with enforces by type; that every Rotation / Translation / "
             "UniformScale object has such a matrix is C03's subject.  Products are computed exactly in the model",
             "pseudoinverse() is a model operation at value level only (theorems base_pinv, pinv_then_set_target; "
             "HomogFamilyAlignment.pseudoinverse and ThinPlateSplines.pseudoinverse are translated from source and proved "
             "equal to it; the inverse matrix is a contract parameter that must stay class-shaped); pinv-born objects are "
             "in the histories (oracle, and correspondence from their first set_target on) but the driver does not run "
             "pinv, and PiecewiseAffine.pseudoinverse (which keeps the old triangle list) is left out",
             "translated source: the equalities are at value level (aliasing is the heap model's subject); the obligations "
             "through _sync_target_from_state (constructors of AlignmentAffine / AlignmentRotation, parameter edits) assume "
             "that applying a transform keeps the number of points and dimensions (ApplyKeepsShape: satisfiable, examples "
             "in GenProps/C08SrcProps.lean); the TPS / PWA obligations assume that the abstract fits are the numpy "
             "expressions the code assembles (NpFits; satisfiable for every Np: Ext.withNp); reading an attribute that "
             "was never stored is modelled as the callee's default (the real code raises AttributeError; either way the "
             "obligation `sync after init = init` fails); GeneralizedProcrustesAnalysis: max_iterations is the constant "
             "the constructor assigns (100); a subclass pinning it (as the harness does to drive the other exit) is "
             "covered by genRecursiveProcrustes_eq, which holds for every max_iterations"],
    assumptions=["numpy / LAPACK SVD, solve and lstsq are deterministic and accurate to 1e-10 on the conditioned inputs "
                 "the generators produce (singular values of every correlation matrix separated by >= 5% of the largest)",
                 "heap theorems: the caller never overwrites an array some alignment uses as its source (hypothesis "
                 "LegalAct); operands of in-place compositions have class-shaped matrices (hypothesis ClassShaped)",
                 "translated obligations are value level: aliasing, ownership of arrays (beyond the matrix of "
                 "HomogFamilyAlignment.copy / pseudoinverse) and non-mutation are decided by the oracle's digests, the "
                 "measured write table and the heap correspondence",
                 "translated constructors: applying a transform keeps the number of points and dimensions "
                 "(ApplyKeepsShape); TPS / PWA fits are the numpy expressions the code assembles (NpFits)",
                 "a rejected set_target is any raised exception (ValueError is compared with the model as a "
                 "correspondence item only); a rejected call is expected to leave the object the fresh alignment to its "
                 "last accepted target"],
    design_ref="DESIGN.md section 6, C08; section 7 items 6 and 22; section 14.2 (seeded C08-1..4); section 14.5 "
               "(translator tie); notes/BUILDER_GUIDE.md (py2lean2)")
IMPORTS = ["MenpoModel.Props.C08", "MenpoModel.GenProps.C08"]
TARGETS = ["MenpoModel.Props.C08", "MenpoModel.Drive.C08", "MenpoModel.GenProps.C08"]
THEOREMS = [
    # --- histories of set_target on one object (value level), both trees
    "MenpoModel.C08.retarget_eq_rebuild",
    "MenpoModel.C08.retarget_eq_rebuild_sound",
    "MenpoModel.C08.retarget_same_observables",
    "MenpoModel.C08.retarget_history_independent",
    "MenpoModel.C08.lastAccepted_all",
    "MenpoModel.C08.setTarget_build",
    "MenpoModel.C08.retarget_rejects_mismatch",
    "MenpoModel.C08.retarget_rejects_dims",
    "MenpoModel.C08.retarget_rejects_points",
    "MenpoModel.C08.fixed_sound",
    "MenpoModel.C08.coded_sound",
    "MenpoModel.C08.coded_similarity_forgets_rotation",
    "MenpoModel.C08.coded_ctor_target_affine",
    "MenpoModel.C08.coded_ctor_target_rotation",
    "MenpoModel.C08.coded_retarget_ne_rebuild_witness",
    "MenpoModel.C08.coded_fresh_target_witness",
    # --- objects that are not fresh when set_target is called: stale targets, parameter edits
    "MenpoModel.C08.setTarget_of_base",
    "MenpoModel.C08.step_of_base",
    "MenpoModel.C08.base_vEdit",
    "MenpoModel.C08.shaped_mul",
    "MenpoModel.C08.base_vHistory",
    "MenpoModel.C08.set_target_erases_history",
    "MenpoModel.C08.rejected_after_history",
    "MenpoModel.C08.base_pinv",
    "MenpoModel.C08.pinv_then_set_target",
    # --- the frame of the re-fit and what follows from it alone
    "MenpoModel.C08.readsOf_writesOf_overlap",
    "MenpoModel.C08.build_kinded",
    "MenpoModel.C08.sync_reads_only",
    "MenpoModel.C08.sync_writes_only",
    "MenpoModel.C08.setTarget_determined",
    "MenpoModel.C08.retarget_state_function",
    # --- heap: shared point sets, in-place writes, copies, parameter edits, the caller's own writes
    "MenpoModel.C08.hCopy_spec",
    "MenpoModel.C08.hEdit_spec",
    "MenpoModel.C08.hStep_spec",
    "MenpoModel.C08.hRun_refines",
    "MenpoModel.C08.retarget_frame",
    "MenpoModel.C08.copies_evolve_independently",
    "MenpoModel.C08.retarget_frame_and_copies",
    "MenpoModel.C08.vStep_other",
    "MenpoModel.C08.vStep_self",
    "MenpoModel.C08.hBuild_spec",
    "MenpoModel.C08.hWrite_absObj",
    "MenpoModel.C08.aRun_inv",
    "MenpoModel.C08.set_target_after_anything",
    "MenpoModel.C08.retarget_eq_rebuild_heap",
    "MenpoModel.C08.rejected_set_target_changes_nothing",
    "MenpoModel.C08.arrays_change_only_by_caller",
    # --- GPA
    "MenpoModel.C08.gpa_transforms_are_alignments",
    "MenpoModel.C08.buildAll_getElem",
    "MenpoModel.C08.gpa_fixed_target_reports_it",
    "MenpoModel.C08.gpa_targets_all_equal",
    "MenpoModel.C08.gpa_mean_aligned_shape",
    "MenpoModel.C08.gpa_alignment_errors",
    "MenpoModel.C08.gpa_iterations",
    "MenpoModel.C08.gpa_eq_fresh_iteration",
    # --- obligations over the regenerated read / write table
    "MenpoModel.GenProps.C08.rwTable_ok",
    "MenpoModel.GenProps.C08.rwTable_covers",
    "MenpoModel.GenProps.C08.rwTable_options",
    "MenpoModel.GenProps.C08.dispatch_ok",
    "MenpoModel.GenProps.C08.dispatch_covers",
    "MenpoModel.GenProps.C08.copyTable_ok",
    "MenpoModel.GenProps.C08.copyTable_covers",
]
# obligations over the TRANSLATED source (Generated/C08Src.lean is rewritten from the source text on every run)
SRC_THEOREMS = ["MenpoModel.GenProps.C08Src." + t for t in [
    # Targetable / Alignment: the verified setter
    "genNDims_eq", "genNPoints_eq", "genVerifyTarget_eq", "genTargetSetter_eq", "genTargetSetterWithVerification_eq",
    "genAlignedSource_eq", "genNewTargetFromState_eq", "genSyncTargetFromState_eq", "genSyncTargetFromState_hom",
    # every _sync_state_from_target, the dispatcher, set_target
    "genSync_AlignmentAffine_eq", "genSync_AlignmentSimilarity_eq", "genSync_AlignmentRotation_eq",
    "genSync_AlignmentTranslation_eq", "genSync_AlignmentUniformScale_eq", "genBuildCoefficients_eq",
    "genRebuildTargetVectors_eq", "genSync_ThinPlateSplines_eq", "genSync_AbstractPWA_eq", "genSync_eq", "genSetTarget_eq",
    # constructors
    "genVerifySourceAndTarget_eq", "genInit_Alignment_eq", "genInit_Similarity_eq", "genInit_Affine_eq",
    "genInit_AlignmentTranslation_eq", "genInit_AlignmentUniformScale_eq", "genInit_AlignmentSimilarity_eq",
    "genInit_AlignmentAffine_eq", "genInit_AlignmentRotation_eq", "genInit_ThinPlateSplines_eq", "genInit_AbstractPWA_eq",
    "genInit_PythonPWA_eq", "genInit_CachedPWA_eq", "genBuild_eq", "genDefaultOpts_eq", "genDefaults_eq",
    # what may happen between two set_target calls: copy, pseudoinverse, parameter edits; procrustes_alignment's plumbing
    "syncTarget_hom", "genCopy_eq", "genPseudoinverse_eq", "genPseudoinverse_ThinPlateSplines_eq",
    "genFromVector_Translation_eq", "genFromVector_UniformScale_eq", "genFromVector_AlignmentSimilarity_eq",
    "genFromVector_AlignmentTranslation_eq", "genFromVector_AlignmentUniformScale_eq", "genVirtSetRot_eq", "genCompose_eq",
    "genProcrustesAlignment_eq", "procrustes_rotation_off_ignores_mirror",
    # GPA
    "mapExcept_setTarget", "genNew_AlignmentSimilarity_eq", "mapExcept_new", "genRecursiveProcrustes_step",
    "genRecursiveProcrustes_eq", "genInit_MultipleAlignment_eq", "genInit_GeneralizedProcrustesAnalysis_eq",
    # the property for the translated definitions
    "src_sync_after_init", "src_retarget_eq_rebuild", "src_set_target_rejects", "src_set_target_accepts",
    "src_gpa_transforms_are_alignments", "src_gpa_needs_two_sources",
]]
TOL = 1e-9
SV_FLOORS = [1e-4, 0.5, 4.0]
COND = 0.05

# (model class, implementation class, dims, option dicts)
def families():
    fam = []
    for d in (2, 3):
        fam.append(("affine", "AlignmentAffine", d, {}))
        for rot in (True, False):
            for mir in (False, True):
                fam.append(("similarity", "AlignmentSimilarity", d, {"rotation": rot, "allow_mirror": mir}))
        for mir in (False, True):
            fam.append(("rotation", "AlignmentRotation", d, {"allow_mirror": mir}))
        fam.append(("translation", "AlignmentTranslation", d, {}))
        fam.append(("uniformScale", "AlignmentUniformScale", d, {}))
    for k in (0, 1, 2):
        for sv in SV_FLOORS:
            fam.append(("tps", "ThinPlateSplines", 2, {"kernel": k, "min_singular_val": sv}))
    fam.append(("pwa", "PiecewiseAffine", 2, {"source": "pointcloud"}))
    fam.append(("pwa", "PiecewiseAffine", 2, {"source": "trimesh"}))
    fam.append(("pwa", "PythonPWA", 2, {"source": "trimesh"}))
    return fam


# ------------------------------------------------------------------------------- reference fits (own numpy code)

def ref_translation(S, T):
    return T.mean(0) - S.mean(0)


def ref_scale(S, T):
    import numpy as np
    return np.sqrt(((T - T.mean(0)) ** 2).sum()) / np.sqrt(((S - S.mean(0)) ** 2).sum())


def ref_rotation(S, T, mirror):
    """Kabsch on the points as given (no centring): R maximising tr(R^T T^T S)"""
    import numpy as np
    U, _, Vt = np.linalg.svd(T.T.dot(S))
    R = U.dot(Vt)
    if not mirror and np.linalg.det(R) < 0:
        E = np.eye(S.shape[1])
        E[-1, -1] = -1.0
        R = U.dot(E).dot(Vt)
    return R


def ref_affine(S, T):
    import numpy as np
    d = S.shape[1]
    hs = np.hstack([S, np.ones((S.shape[0], 1))])
    X = np.linalg.lstsq(hs, T, rcond=None)[0]      # hs X = T
    h = np.eye(d + 1)
    h[:d, :] = X.T
    return h


def ref_procrustes(S, T, rot, mirror):
    import numpy as np
    d = S.shape[1]
    cs, ct = S.mean(0), T.mean(0)
    s = ref_scale(S, T)
    R = np.eye(d)
    if rot:
        R = ref_rotation((S - cs) * s, T - ct, mirror)
    h = np.eye(d + 1)
    h[:d, :d] = s * R
    h[:d, d] = ct - s * R.dot(cs)
    return h


def apply_h(h, X):
    d = X.shape[1]
    return X.dot(h[:d, :d].T) + h[:d, d]


def tps_kernel(k, X, C):
    import numpy as np
    r2 = ((X[:, None, :] - C[None, :, :]) ** 2).sum(-1)
    with np.errstate(divide="ignore", invalid="ignore"):
        u = r2 * np.log(r2) if k in (0, 1) else r2 * 0.5 * np.log(r2)
    u[r2 == 0] = 0.0
    return u


def tps_system(k, S):
    import numpy as np
    n = S.shape[0]
    K = tps_kernel(k, S, S)
    P = np.hstack([np.ones((n, 1)), S])
    return np.vstack([np.hstack([K, P]), np.hstack([P.T, np.zeros((3, 3))])])


def ref_tps_apply(k, sv, S, T, X):
    import numpy as np
    L = tps_system(k, S)
    U, s, Vt = np.linalg.svd(L)
    keep = int((s >= sv).sum())
    pinv = Vt[:keep].T.dot((1.0 / s[:keep])[:, None] * U[:, :keep].T)
    Y = np.vstack([T, np.zeros((3, 2))])
    W = pinv.dot(Y)
    n = S.shape[0]
    return np.hstack([np.ones((X.shape[0], 1)), X]).dot(W[n:]) + tps_kernel(k, X, S).dot(W[:n])


def rot_conditioned(S, T):
    """singular values of the correlation matrix bounded away from 0 and the two smallest separated"""
    import numpy as np
    for A, B in ((S, T), ((S - S.mean(0)) * ref_scale(S, T), T - T.mean(0))):
        s = np.linalg.svd(B.T.dot(A), compute_uv=False)
        if s[-1] < COND * s[0] or (s[-2] - s[-1]) < COND * s[0]:
            return False
    return True


# ------------------------------------------------------------------------------- generators

def dy(rng, lo, hi, m=2):
    return rng.randint(lo * 2 ** m, hi * 2 ** m) / float(2 ** m)


def spread(P, floor):
    import numpy as np
    return np.linalg.svd(P - P.mean(0), compute_uv=False)[-1] >= floor and \
        np.linalg.svd(P, compute_uv=False)[-1] >= floor


def gen_cloud(rng, n, d):
    import numpy as np
    while True:
        P = np.array([[dy(rng, -8, 8) for _ in range(d)] for _ in range(n)])
        if spread(P, 1.5) and len({tuple(p) for p in P.tolist()}) == n:
            return P


def gen_grid(rng):
    """jittered grid (no folding: jitter < 1/4 cell) with its row/col counts"""
    import numpy as np
    rows, cols = rng.choice([(2, 3), (3, 3), (3, 2), (2, 4)])
    pts = [[4.0 * i + rng.randint(-3, 3) / 4.0, 4.0 * j + rng.randint(-3, 3) / 4.0]
           for i in range(rows) for j in range(cols)]
    tl = []
    for i in range(rows - 1):
        for j in range(cols - 1):
            a, b, c, e = cols * i + j, cols * i + j + 1, cols * (i + 1) + j, cols * (i + 1) + j + 1
            tl += [[a, b, c], [b, e, c]]
    return np.array(pts), np.array(tl)


def gen_target(rng, S, need_rot):
    """a target of S's shape: an affine / similarity / reflected image of S plus dyadic noise, or unrelated points"""
    import numpy as np
    n, d = S.shape
    for _ in range(200):
        kind = rng.random()
        if kind < 0.25:
            T = gen_cloud(rng, n, d)
        else:
            while True:
                M = np.array([[dy(rng, -2, 2) for _ in range(d)] for _ in range(d)])
                if abs(np.linalg.det(M)) >= 0.5:
                    break
            if kind < 0.45:   # near a similarity, sometimes reflected
                c, s_ = common.rat_circle(rng, 6)
                M = np.eye(d)
                M[:2, :2] = [[float(c), -float(s_)], [float(s_), float(c)]]
                M = M * rng.choice([0.5, 1.0, 1.5, 2.0])
                if rng.random() < 0.4:
                    M[:, 0] = -M[:, 0]
                M = np.round(M * 64) / 64
            T = S.dot(M.T) + np.array([dy(rng, -6, 6) for _ in range(d)])
            T = T + np.array([[rng.randint(-3, 3) / 8.0 for _ in range(d)] for _ in range(n)])
            T = np.round(T * 1024) / 1024
        if not spread(T, 0.5):
            continue
        if need_rot and not rot_conditioned(S, T):
            continue
        return T
    return None


DTYPES = ("float64", "int64", "float32")


def _np_dtype(name):
    import numpy as np
    return {"float64": np.float64, "int64": np.int64, "float32": np.float32}[name]


def simple_case(mcls, icls, d, opts, sets, ops, probes, trilist=None, pinfo=None, **extra):
    """a history case in which every point set has its own float64 array and its own PointCloud"""
    case = {"kind": "hist", "mcls": mcls, "icls": icls, "d": d, "opts": opts,
            "vals": sets, "dtypes": ["float64"] * len(sets), "arrs": list(range(len(sets))),
            "pcs": list(range(len(sets))), "ro": [], "trilist": trilist, "ops": ops, "probes": probes,
            "pinfo": pinfo, "birth": None}
    case.update(extra)
    return case


def edit_params(rng, mcls, d, kind):
    """parameters of one parameter edit: kind F = the vector given to from_vector_inplace (rotation 2-D: the
    matrix given to set_rotation_matrix), B / A = the operand of compose_before_inplace / compose_after_inplace,
    described by the parameters of its own class"""
    def q(lo, hi, m=2):
        return dy(rng, lo, hi, m)

    def rot():
        import numpy as np
        c, s_ = common.rat_circle(rng, 6)
        R = np.eye(d)
        R[:2, :2] = [[float(c), -float(s_)], [float(s_), float(c)]]
        if d == 3 and rng.random() < 0.5:
            R = R[[1, 2, 0]][:, [1, 2, 0]]
        return R

    if mcls == "translation":
        return [q(-4, 4) for _ in range(d)]
    if mcls == "uniformScale":
        return [rng.choice([0.5, 1.5, 2.0, 3.0, 0.25])]
    if mcls == "rotation":
        if kind == "F" and d == 3:          # a quaternion (normalised by the code)
            while True:
                p = [float(rng.randint(-3, 3)) for _ in range(4)]
                if any(p):
                    return p
        return rot().ravel().tolist()
    if mcls == "similarity":
        if kind == "F":                      # 2-D only: [a, b, tx, ty]
            return [q(-1, 1), q(-1, 1), q(-3, 3), q(-3, 3)]
        import numpy as np
        h = np.eye(d + 1)
        h[:d, :d] = rot() * rng.choice([0.5, 1.0, 2.0])
        h[:d, d] = [q(-3, 3) for _ in range(d)]
        return h.ravel().tolist()
    if mcls == "affine":
        if kind == "F":
            return [q(-1, 1) for _ in range(d * (d + 1))]
        import numpy as np
        while True:
            h = np.eye(d + 1)
            h[:d, :] += np.array([[q(-1, 1) for _ in range(d + 1)] for _ in range(d)])
            if abs(np.linalg.det(h)) >= 0.25:
                return h.ravel().tolist()
    return None


def edit_matrix(mcls, d, kind, p):
    """own code: the (d+1)x(d+1) matrix a parameter vector stands for / the h_matrix of the operand"""
    import numpy as np
    p = np.asarray(p, dtype=float)
    h = np.eye(d + 1)
    if mcls == "translation":
        h[:d, d] = p
    elif mcls == "uniformScale":
        h[:d, :d] = np.eye(d) * p[0]
    elif mcls == "rotation":
        if kind == "F" and d == 3:
            n = p.dot(p)
            qq = np.outer(p, p) * (2.0 / n)
            h[:3, :3] = [[1.0 - qq[2, 2] - qq[3, 3], qq[1, 2] - qq[3, 0], qq[1, 3] + qq[2, 0]],
                         [qq[1, 2] + qq[3, 0], 1.0 - qq[1, 1] - qq[3, 3], qq[2, 3] - qq[1, 0]],
                         [qq[1, 3] - qq[2, 0], qq[2, 3] + qq[1, 0], 1.0 - qq[1, 1] - qq[2, 2]]]
        else:
            h[:d, :d] = p.reshape(d, d)
    elif mcls == "similarity":
        if kind == "F":
            h = np.array([[1 + p[0], -p[1], p[2]], [p[1], 1 + p[0], p[3]], [0, 0, 1.0]])
        else:
            h = p.reshape(d + 1, d + 1)
    elif mcls == "affine":
        if kind == "F":
            h[:d, :] += p.reshape((d, d + 1), order="F")
        else:
            h = p.reshape(d + 1, d + 1)
    return h


def gen_case(rng, fam, n_ops=None):
    """one history case as a JSON-able dict.

    vals    coordinate values (0 = the source); dtypes[v] = the dtype a value is stored with
    arrs    the caller's ndarrays: the value each holds initially;   ro = arrays flagged read-only
    pcs     the caller's PointCloud objects: the array each refers to (aliases share one)
    ops     S i r   objs[i].set_target(pcs[r])           C i   objs.append(objs[i].copy())
            A i     objs[i].apply(probes)                W r v pcs[r].points[...] = vals[v]   (caller, in place)
            E i k p parameter edit (k = F: from_vector_inplace / set_rotation_matrix, B / A: compose_*_inplace)
    """
    import numpy as np
    mcls, icls, d, opts = fam
    tl = None
    if mcls == "pwa":
        S, tl = gen_grid(rng)
        n = S.shape[0]
    else:
        n = rng.randint(4, 8) if d == 2 else rng.randint(5, 8)
        if rng.random() < 0.35:
            n = 6          # (6 points: a wrongly shaped target with the SAME number of elements exists in 2-D and 3-D)
        S = gen_cloud(rng, n, d)
    if mcls == "tps":
        L = tps_system(opts["kernel"], S)
        s = np.linalg.svd(L, compute_uv=False)
        if s[0] / s[-1] > 1e6 or any(abs(x - opts["min_singular_val"]) <= 1e-6 * max(1.0, x) for x in s):
            return None
    need_rot = mcls in ("similarity", "rotation")
    hom = mcls not in ("tps", "pwa")
    alias_mode = rng.random() < 0.45
    edit_mode = hom and rng.random() < 0.35
    vals, dtypes = [S], ["float64"]

    def fresh_value(int_ok=True):
        T = gen_target(rng, S, need_rot)
        if T is None or any(np.array_equal(T, X) for X in vals):
            return None, None
        r = rng.random()
        if int_ok and r < 0.15:
            T1 = np.round(T)
            if spread(T1, 0.5) and ((not need_rot) or rot_conditioned(S, T1)) and \
                    not any(np.array_equal(T1, X) for X in vals):
                return T1, "int64"
        if int_ok and r < 0.27:
            return T, "float32"
        return T, "float64"

    n_valid = rng.randint(3, 5)
    for _ in range(n_valid):
        T, dt = fresh_value()
        if T is None:
            return None
        vals.append(T)
        dtypes.append(dt)
    valid_arrs = list(range(1, len(vals)))
    vals.append(gen_cloud(rng, n + rng.choice([-1, 1, 2]), d))       # wrong number of points
    vals.append(gen_cloud(rng, n, 5 - d))                            # wrong dimension
    dtypes += ["float64", "float64"]
    bad_arrs = [len(vals) - 2, len(vals) - 1]
    if (n * d) % (5 - d) == 0:
        # wrong number of points AND wrong dimension, but the same number of elements (6 x 2 <-> 4 x 3, 9 x 2 <-> 6 x 3)
        vals.append(gen_cloud(rng, n * d // (5 - d), 5 - d))
        dtypes.append("float64")
        bad_arrs.append(len(vals) - 1)
    arrs = list(range(len(vals)))
    pcs = list(range(len(vals)))
    src_ok = (not need_rot) or rot_conditioned(S, S)
    valid_pcs = list(valid_arrs) + ([0] if src_ok else [])         # (the source object itself as a target)
    writable = [k for k in valid_arrs if dtypes[k] == "float64"]
    wvals = []
    if alias_mode:
        for _ in range(rng.randint(1, 2)):                           # values the caller writes later
            T, dt = fresh_value(int_ok=False)
            if T is None:
                return None
            vals.append(T)
            dtypes.append("float64")
            wvals.append(len(vals) - 1)
        for _ in range(rng.randint(0, 2)):                           # PointClouds sharing another one's array
            k = rng.choice(valid_arrs)
            pcs.append(k)
            valid_pcs.append(len(pcs) - 1)
        if src_ok and rng.random() < 0.25:                           # a PointCloud on the source's own array
            pcs.append(0)
            valid_pcs.append(len(pcs) - 1)
        if not writable:
            alias_mode = False
    # read-only arrays: never among those the caller writes
    will_write = set(writable) if alias_mode else set()
    ro = [k for k in range(len(arrs)) if k not in will_write and rng.random() < 0.08]
    # previous life: born as the pseudoinverse() of the reverse alignment instead of from the constructor
    birth = None
    if mcls != "pwa" and rng.random() < 0.2:
        birth = "pinv"      # (a pinv-born PWA keeps the other point set's triangulation: not "the same source")
    ops = []
    held = [1]               # the PointCloud each object holds as target (None: an object of its own)
    k = n_ops or rng.randint(1, 6)
    done = 0
    force = None
    while done < k:
        r = rng.random()
        i = rng.randrange(len(held))
        if force is not None:
            ops.append(force)
            held[force[1]] = force[2]
            force = None
            done += 1
        elif r < 0.5:
            t = rng.choice(valid_pcs)
            ops.append(["S", i, t])
            held[i] = t
            done += 1
        elif r < 0.6:
            ops.append(["S", i, rng.choice(bad_arrs)])
            done += 1
        elif r < 0.72 and len(held) < 4:
            ops.append(["C", i])
            held.append(held[i] if hom else None)
        elif r < 0.78:
            ops.append(["A", i])
        elif alias_mode and r < 0.92:
            # the caller overwrites one of its target point sets in place - preferably one an alignment holds -
            # and then (usually) passes the very same object to set_target again
            cand = [p for p in range(len(pcs)) if pcs[p] in writable]
            heldc = [p for p in cand if any(h is not None and pcs[h] == pcs[p] for h in held)]
            p = rng.choice(heldc) if heldc and rng.random() < 0.75 else rng.choice(cand)
            v = rng.choice(wvals + [x for x in valid_arrs if dtypes[x] != "float32" or True])
            ops.append(["W", p, v])
            holders = [j for j, h in enumerate(held) if h is not None and pcs[h] == pcs[p]]
            if holders and rng.random() < 0.8:
                j = rng.choice(holders)
                force = ["S", j, held[j] if rng.random() < 0.7 else p]
        elif edit_mode and r < 0.97:
            kind = rng.choice(["F", "B", "A"])
            if kind == "F" and mcls == "similarity" and d == 3:
                kind = "B"                   # 3-D similarities cannot be vectorised
            ops.append(["E", i, kind, edit_params(rng, mcls, d, kind)])
            if kind == "F" or mcls == "affine":
                held[i] = None               # the target is re-synced: a new PointCloud (the aligned source)
            if rng.random() < 0.6:
                force = ["S", i, rng.choice(valid_pcs)]
        else:
            ops.append(["A", i])
    if birth == "pinv":
        # the property speaks about the object *after set_target*: a pinv-born object is first retargeted
        ops.insert(0, ["S", 0, rng.choice([v for v in valid_pcs if pcs[v] != 0] or valid_pcs)])
    if mcls == "pwa":
        tri = tl if opts["source"] == "trimesh" else None
        probes, pinfo = pwa_probes(rng, S, tl if tri is not None else delaunay(S))
    else:
        probes = np.array([[dy(rng, -8, 8, 3) for _ in range(d)] for _ in range(5)])
        pinfo = None
    return {"kind": "hist", "mcls": mcls, "icls": icls, "d": d, "opts": opts,
            "vals": [X.tolist() for X in vals], "dtypes": dtypes, "arrs": arrs, "pcs": pcs, "ro": ro,
            "trilist": tl.tolist() if (tl is not None and opts.get("source") == "trimesh") else None,
            "ops": ops, "probes": probes.tolist(), "pinfo": pinfo, "birth": birth}


def delaunay(S):
    from menpo.shape import TriMesh
    return TriMesh(S.copy()).trilist


def pwa_probes(rng, S, trilist):
    """points strictly inside triangles, with (triangle index, barycentric weights)"""
    import numpy as np
    P, info = [], []
    for _ in range(5):
        t = rng.randrange(len(trilist))
        a, b, c = rng.randint(2, 10), rng.randint(2, 10), rng.randint(2, 10)
        w = [a / float(a + b + c), b / float(a + b + c), c / float(a + b + c)]
        P.append(sum(w[j] * S[trilist[t][j]] for j in range(3)).tolist())
        info.append([t, w])
    return np.array(P), info


# ------------------------------------------------------------------------------- implementation side

def make_obj(case, S_pc, T_pc):
    """the real constructor call (fresh kernel objects per call)"""
    import menpo.transform as mt
    from menpo.transform.piecewiseaffine.base import PythonPWA
    o = case["opts"]
    icls = case["icls"]
    if icls == "ThinPlateSplines":
        kern = [None, mt.R2LogR2RBF, mt.R2LogRRBF][o["kernel"]]
        kern = kern(S_pc.points.copy()) if kern is not None else None
        return mt.ThinPlateSplines(S_pc, T_pc, kernel=kern, min_singular_val=o["min_singular_val"])
    if icls == "PythonPWA":
        return PythonPWA(S_pc, T_pc)
    if icls == "PiecewiseAffine":
        return mt.PiecewiseAffine(S_pc, T_pc)
    return getattr(mt, icls)(S_pc, T_pc, **o)


def make_source(case, arr):
    from menpo.shape import PointCloud, TriMesh
    import numpy as np
    if case["trilist"] is not None:
        return TriMesh(arr, trilist=np.array(case["trilist"]))
    return PointCloud(arr)


def apply_pts(obj, X):
    return obj.apply(X.copy())


def arr_close(a, b, scale):
    import numpy as np
    a, b = np.asarray(a, dtype=float), np.asarray(b, dtype=float)
    return a.shape == b.shape and bool(np.all(np.abs(a - b) <= TOL * (1.0 + scale)))


def case_scale(case):
    import numpy as np
    m = 1.0
    for X in case["vals"]:
        m = max(m, float(np.abs(np.array(X)).max()))
    for op in case["ops"]:
        if op[0] == "E":
            m = max(m, float(np.abs(np.array(op[3])).max()))
    return m


def upgrade_case(case):
    """replays recorded before the heap of point sets was modelled: `sets` = one array and one PointCloud each"""
    if "vals" in case:
        return case
    c = dict(case)
    sets = c.pop("sets")
    c["vals"] = sets
    c["dtypes"] = ["float64"] * len(sets)
    if c.pop("first_int", False):
        c["dtypes"][1] = "int64"
    c["arrs"] = list(range(len(sets)))
    c["pcs"] = list(range(len(sets)))
    c["ro"] = []
    return c


def do_edit(obj, case, kind, p):
    """the real parameter edit through the public API"""
    import numpy as np
    import menpo.transform as mt
    mcls, d = case["mcls"], case["d"]
    p = np.array(p, dtype=float)
    if kind == "F":
        if mcls == "rotation" and d == 2:
            obj.set_rotation_matrix(p.reshape(2, 2))
        else:
            obj.from_vector_inplace(p)
        return
    if mcls == "translation":
        t = mt.Translation(p)
    elif mcls == "uniformScale":
        t = mt.UniformScale(float(p[0]), d)
    elif mcls == "rotation":
        t = mt.Rotation(p.reshape(d, d), skip_checks=True)
    elif mcls == "similarity":
        t = mt.Similarity(p.reshape(d + 1, d + 1))
    else:
        t = mt.Affine(p.reshape(d + 1, d + 1))
    if kind == "B":
        obj.compose_before_inplace(t)
    else:
        obj.compose_after_inplace(t)


def named_state(obj):
    """the state of an alignment the property names: which point sets it holds and their coordinates, its matrix"""
    out = [id(obj.target), obj.target.points.tobytes(), id(obj.source), obj.source.points.tobytes()]
    if hasattr(obj, "h_matrix"):
        out.append(obj.h_matrix.tobytes())
    return out


def run_case(ctx, case, lines=None, pending=None, count=True):
    """run one history on the real code, apply the oracle after every call, queue the model query"""
    import numpy as np
    from menpo.shape import PointCloud
    case = upgrade_case(case)
    icls, mcls, d = case["icls"], case["mcls"], case["d"]
    hom = mcls not in ("tps", "pwa")
    site = "C08/retarget/" + icls
    vals = [np.array(X, dtype=float) for X in case["vals"]]
    probes = np.array(case["probes"], dtype=float)
    scale = case_scale(case)
    if mcls == "tps":
        scale = max(scale, float(np.abs(tps_kernel(case["opts"]["kernel"], vals[0], vals[0])).max()))
    rp = {"case": case, "how": "arrays A[k] = vals[arrs[k]].astype(dtypes[arrs[k]]) (read-only if k in ro); PointClouds "
                               "P[r] = PointCloud(A[pcs[r]], copy=False) (P[0]: the source, a TriMesh if trilist); "
                               "objs=[Cls(P[0], P[1], **opts)]; S i r: objs[i].set_target(P[r]); C i: objs.append("
                               "objs[i].copy()); A i: objs[i].apply(probes); W r v: P[r].points[...] = vals[v]; E i k p: "
                               "from_vector_inplace(p) / set_rotation_matrix (k=F), compose_before_inplace / "
                               "compose_after_inplace with the operand described by p (k=B/A); after every accepted "
                               "set_target objs[i] is compared with Cls(copy of the source, copy of P[r] as it is now, "
                               "**opts); ./check C08 --replay <this file> re-runs it"}
    # the caller's arrays and PointClouds
    arrays = []
    for k, v in enumerate(case["arrs"]):
        a = np.ascontiguousarray(vals[v].astype(_np_dtype(case["dtypes"][v])))
        arrays.append(a)
    cur_val = list(case["arrs"])                  # value id each array holds now
    pcs = []
    for r, k in enumerate(case["pcs"]):
        if r == 0:
            src = make_source(case, arrays[0])    # (copies: the source array stays private to the source object)
            arrays[0] = src.points
            pcs.append(src)
        else:
            pcs.append(PointCloud(arrays[k], copy=False))
    for k in case["ro"]:
        arrays[k].setflags(write=False)
    digest0 = [a.tobytes() for a in arrays]
    expect_bytes = list(digest0)

    def cur_points(r):
        return arrays[case["pcs"][r]]

    def fresh_to(T):
        return make_obj(case, make_source(case, vals[0].copy()), PointCloud(T.copy()))

    def compare(obj, T, when):
        """property oracle: obj against the fresh alignment to the coordinates T"""
        ok = True
        try:
            f = fresh_to(T)
            fa, oa = apply_pts(f, probes), apply_pts(obj, probes)
        except Exception as e:
            ctx.fail(site, "raises", "%s: apply / fresh construction raised %s: %s" % (when, type(e).__name__, str(e)[:100]), rp)
            return False
        if not arr_close(oa, fa, scale):
            ctx.fail(site, "map-differs", "%s: map differs from the fresh alignment to the same target: max deviation "
                     "%.3g on the probe points" % (when, float(np.abs(oa - fa).max())), rp)
            ok = False
        if hasattr(obj, "h_matrix") and not arr_close(obj.h_matrix, f.h_matrix, scale):
            ctx.fail(site, "map-differs", "%s: h_matrix differs from the fresh alignment to the same target" % when, rp)
            ok = False
        if not (np.array_equal(obj.target.points, f.target.points)):
            ctx.fail(site, "target-differs", "%s: .target differs from the fresh alignment's .target (retargeted "
                     "object holds the given target: %s; fresh object holds the given target: %s)" % (
                         when, np.array_equal(obj.target.points, T), np.array_equal(f.target.points, T)), rp)
            ok = False
        elif not np.array_equal(obj.target.points, T):
            ctx.fail(site, "target-differs", "%s: .target is not the target that was set" % when, rp)
            ok = False
        try:
            if not arr_close(obj.aligned_source().points, f.aligned_source().points, scale):
                ctx.fail(site, "aligned-source-differs", "%s: aligned_source() differs from the fresh alignment's" % when, rp)
                ok = False
        except Exception as e:
            ctx.fail(site, "raises", "%s: aligned_source raised %s" % (when, type(e).__name__), rp)
            ok = False
        if not np.array_equal(obj.source.points, vals[0]):
            ctx.fail(site, "source-altered", "%s: the source of the alignment changed" % when, rp)
            ok = False
        if obj.n_points != vals[0].shape[0] or obj.n_dims != d:
            ctx.fail(site, "shape", "%s: n_points / n_dims wrong" % when, rp)
            ok = False
        return ok

    ctx.count("birth:%s" % (case.get("birth") or "constructor"))
    rev_probe = None
    try:
        objs = None
        if case.get("birth") == "pinv":
            try:
                rev = make_obj(case, pcs[1], pcs[0])
                born = rev.pseudoinverse()
                if born.source is pcs[0] and born.target is pcs[1]:
                    objs = [born]
                    rev_probe = (rev, apply_pts(rev, vals[1]).copy())
            except Exception:      # a singular reverse alignment has no inverse: use the constructor
                objs = None
        if objs is None:
            objs = [make_obj(case, pcs[0], pcs[1])]
    except Exception as e:
        ctx.fail(site, "raises", "constructor raised %s: %s" % (type(e).__name__, str(e)[:100]), rp)
        return
    # what every object is expected to be: `tgt` = the coordinates of its last accepted target as they were then,
    # `clean` = nothing happened since that makes the fit stale (a parameter edit; the caller moving the held target)
    tgt = [cur_points(1).copy()]
    held = [1]                # PointCloud index the object holds (None: an object of its own)
    clean = [not (case.get("birth") == "pinv")]
    verdicts = []
    accepted = 0
    after_copy = False
    ok_all = True
    resubmitted = 0
    if clean[0]:
        ok_all = compare(objs[0], tgt[0], "after construction")
    for k, op in enumerate(case["ops"]):
        if op[0] == "S":
            i, r = op[1], op[2]
            T = cur_points(r)
            good = T.shape == vals[0].shape
            if not good and T.size == vals[0].size:
                ctx.count("ops:wrong-shape-same-element-count")
            same_obj = objs[i].target is pcs[r]
            dig = None
            if not good:
                dig = (named_state(objs[i]), common.deep_digest(vars(objs[i])))
            try:
                objs[i].set_target(pcs[r])
                raised = None
            except ValueError:
                raised = "ValueError"
            except Exception as e:
                raised = type(e).__name__
            if good:
                verdicts.append("a" if raised is None else "err")
                if raised is not None:
                    ctx.fail(site, "raises", "op %d: set_target with a well-shaped target raised %s" % (k, raised), rp)
                    ok_all = False
                    continue
                tgt[i], held[i], clean[i] = T.copy(), r, True
                accepted += 1
                if rev_probe is not None and k == 0:
                    # the alignment this one was inverted from is another object: retargeting the inverse leaves it alone
                    try:
                        same = arr_close(apply_pts(rev_probe[0], vals[1]), rev_probe[1], scale)
                    except Exception:
                        same = False
                    if not same:
                        ctx.fail(site, "other-object-altered", "op 0: set_target on the pseudoinverse() changed the map of "
                                 "the alignment it was inverted from", rp)
                        ok_all = False
                after_copy = after_copy or len(objs) > 1
                if same_obj:
                    resubmitted += 1
                ok_all = compare(objs[i], tgt[i], "op %d (%s)" % (k, " ".join(map(str, op)))) and ok_all
            else:
                verdicts.append("err" if raised is not None else "a")
                if raised is None:
                    ctx.fail(site, "mismatch-accepted", "op %d: set_target accepted a target of shape %r on an alignment "
                             "of shape %r" % (k, T.shape, vals[0].shape), rp)
                    ok_all = False
                    clean[i] = False
                    continue
                if raised != "ValueError":
                    # the property says "is rejected": any exception is a rejection.  That it is a ValueError is what
                    # menpo's docstring and the model say - a correspondence item, not an oracle failure
                    ctx.mismatch("hist/rejected-exception-kind", "op %d: wrong-shaped target raised %s, the model (and "
                                 "the docstring of _verify_target) say ValueError" % (k, raised), rp)
                dig2 = (named_state(objs[i]), common.deep_digest(vars(objs[i])))
                if dig2[0] != dig[0]:
                    # the state the property names: held point sets (identity and coordinates), matrix
                    ctx.mismatch("hist/rejected-digest", "op %d: the rejected set_target changed the source / target / "
                                 "matrix the object holds" % k, rp)
                elif dig2[1] != dig[1]:
                    ctx.count("rejected-call-touched-private-attributes")    # (a memo, a counter: not the property's business)
                if clean[i]:
                    ok_all = compare(objs[i], tgt[i], "op %d (%s, rejected)" % (k, " ".join(map(str, op)))) and ok_all
        elif op[0] == "C":
            try:
                objs.append(objs[op[1]].copy())
                tgt.append(tgt[op[1]])
                held.append(held[op[1]] if hom else None)
                clean.append(clean[op[1]])
            except Exception as e:
                ctx.fail(site, "raises", "op %d: copy raised %s" % (k, type(e).__name__), rp)
                return
        elif op[0] == "A":
            try:
                apply_pts(objs[op[1]], probes)
            except Exception as e:
                ctx.fail(site, "raises", "op %d: apply raised %s" % (k, type(e).__name__), rp)
                ok_all = False
        elif op[0] == "W":
            r, v = op[1], op[2]
            a = case["pcs"][r]
            pcs[r].points[...] = vals[v]          # the caller's own in-place write
            cur_val[a] = v
            expect_bytes[a] = arrays[a].tobytes()
            for j in range(len(objs)):
                if held[j] is not None and case["pcs"][held[j]] == a:
                    clean[j] = False              # stale until the next set_target - by the caller's doing
        elif op[0] == "E":
            i = op[1]
            try:
                do_edit(objs[i], case, op[2], op[3])
            except Exception as e:
                ctx.count("edit-raised:%s" % type(e).__name__)
                ctx.mismatch("hist/edit-raised", "op %d: the parameter edit %s raised %s: %s (the model performs it)" % (
                    k, op[2], type(e).__name__, str(e)[:100]), rp)
                ok_all = False
                break
            clean[i] = False
            if op[2] == "F" or mcls == "affine":
                held[i] = None
    # every object, original or copy, at the end (copies must not have been dragged along)
    for i, obj in enumerate(objs):
        if clean[i]:
            ok_all = compare(obj, tgt[i], "at the end, object %d" % i) and ok_all
    for j, a in enumerate(arrays):
        if a.tobytes() != expect_bytes[j]:
            ctx.fail(site, "caller-pointset-altered", "array %d passed by the caller was modified (not by the caller)" % j, rp)
            ok_all = False
    for r, p in enumerate(pcs):
        if p.points is not arrays[case["pcs"][r]]:
            ctx.fail(site, "caller-pointset-altered", "PointCloud %d of the caller no longer refers to its array" % r, rp)
            ok_all = False
    if count:
        ctx.count("class:" + icls)
        ctx.count("dims:%d" % d)
        for key, v in sorted(case["opts"].items()):
            ctx.count("opt:%s=%s" % (key, v))
        ctx.count("ops:set_target", sum(1 for o in case["ops"] if o[0] == "S"))
        ctx.count("ops:copy", sum(1 for o in case["ops"] if o[0] == "C"))
        ctx.count("ops:caller-write", sum(1 for o in case["ops"] if o[0] == "W"))
        ctx.count("ops:param-edit", sum(1 for o in case["ops"] if o[0] == "E"))
        ctx.count("ops:set_target-with-held-object", resubmitted)
        ctx.count("ops:rejected", sum(1 for v in verdicts if v == "err"))
        for v in set(case["dtypes"][x] for x in case["arrs"]):
            ctx.count("target-dtype:" + v)
        if case["ro"]:
            ctx.count("read-only-arrays")
        if len(set(case["pcs"])) < len(case["pcs"]):
            ctx.count("aliasing-pointclouds")
        ctx.case(("hist", icls, json.dumps(case["opts"], sort_keys=True), case["vals"][0], case["ops"]),
                 nontrivial=accepted >= 2 or after_copy,
                 sample={"class": icls, "opts": case["opts"], "d": d, "n": len(case["vals"][0]), "ops": case["ops"]})
    # ---- model query
    if lines is not None and ok_all:
        cid = "h%d" % len(lines)
        lines.append("%s %s" % (cid, hist_line(case, vals)))
        pending[cid] = ("hist", case, verdicts, objs, pcs, arrays, cur_val, held)
        if case.get("witness") and all(op[0] == "S" for op in case["ops"]):
            # the same history through the model of the tree as found: must differ exactly where the findings are
            lines.append("%sc %s" % (cid, hist_line(case, vals, tree="coded")))
            pending[cid + "c"] = ("coded", cid, case)


def hist_line(case, vals, tree="fixed"):
    """`hist` request with the reference fits from value 0 (the source) to every well-shaped value"""
    import numpy as np
    o = case["opts"]
    mcls, d = case["mcls"], case["d"]
    S = vals[0]
    toks = ["hist", tree, mcls, "1" if o.get("rotation", True) else "0", "1" if o.get("allow_mirror", False) else "0",
            str(o.get("kernel", 0)), fq(o.get("min_singular_val", 1e-4)), str(len(vals))]

    def lst(a):
        a = np.asarray(a, dtype=float).ravel()
        return "%d %s" % (len(a), " ".join(fq(x) for x in a)) if len(a) else "0"

    for r, T in enumerate(vals):
        toks.append("%d %d %d" % (r, T.shape[0], T.shape[1]))
        good = T.shape == S.shape
        toks.append(lst(ref_translation(S, T)) if good and mcls == "translation" else "0")
        toks.append(fq(ref_scale(S, T)) if good and mcls == "uniformScale" else "1")
        for m in (False, True):
            toks.append(lst(ref_rotation(S, T, m)) if good and mcls == "rotation" else "0")
        toks.append(lst(ref_affine(S, T)) if good and mcls == "affine" else "0")
        for rot in (False, True):
            for m in (False, True):
                toks.append(lst(ref_procrustes(S, T, rot, m)) if good and mcls == "similarity" else "0")
    toks.append("%d %s" % (len(case["arrs"]), " ".join(str(v) for v in case["arrs"])))
    toks.append("%d %s" % (len(case["pcs"]), " ".join(str(a) for a in case["pcs"])))
    mops = [op for op in case["ops"] if op[0] in ("S", "C", "W", "E")]
    toks.append(str(len(mops)))
    for op in mops:
        if op[0] == "E":
            toks.append("E %d %s %s" % (op[1], op[2], lst(edit_matrix(mcls, d, op[2], op[3]))))
        else:
            toks.append(" ".join(str(x) for x in op))
    return " ".join(toks)


def parse_hist(reply):
    """('err', kind) | ('ok', verdicts, [obj dict], [value id per array])"""
    if reply.startswith("err"):
        return ("err", reply.split()[1])
    if not reply.startswith("ok"):
        return ("bad", reply)
    parts = reply[2:].split(" ; ")
    verdicts = parts[0].split()
    objs, arr_ids = [], []
    for p in parts[1:]:
        t = p.split()
        if t and t[0] == "A":
            arr_ids = [int(x) for x in t[1:]]
            continue
        objs.append({"srcPc": int(t[0]), "tgtPc": int(t[1]), "src": int(t[2]), "tgt": int(t[3]), "rot": t[4],
                     "mir": t[5], "ker": t[6], "sv": t[7], "kind": t[8], "rest": t[9:]})
    return ("ok", verdicts, objs, arr_ids)


def compare_model(ctx, reply, case, verdicts, objs, pcs, arrays, cur_val, held):
    """model (Lean) against implementation on one history"""
    import numpy as np
    import re
    vals = [np.array(X, dtype=float) for X in case["vals"]]
    probes = np.array(case["probes"], dtype=float)
    scale = case_scale(case)
    f32 = any(case["dtypes"][v] == "float32" for v in case["arrs"])
    rp = {"case": case, "model_reply": reply[:600]}
    m = parse_hist(reply)
    if m[0] != "ok":
        ctx.mismatch("hist", "model says %r, the implementation constructed the alignment" % (reply[:80],), rp)
        return
    mver = ["a" if v == "a" else "err" for v in m[1]]
    if mver != verdicts:
        ctx.mismatch("hist/verdicts", "accept/reject sequence: model %r, implementation %r" % (m[1], verdicts), rp)
        return
    if len(m[2]) != len(objs):
        ctx.mismatch("hist/objects", "model has %d objects, implementation %d" % (len(m[2]), len(objs)), rp)
        return
    npc, narr = len(case["pcs"]), len(case["arrs"])
    # the caller's arrays: the model's heap holds, in every array, the value the caller last put there
    if m[3][:narr] != cur_val:
        ctx.mismatch("hist/arrays", "model: arrays hold values %r, the caller put %r" % (m[3][:narr], cur_val), rp)

    def close(a, b, sc):
        a, b = np.asarray(a, dtype=float), np.asarray(b, dtype=float)
        return a.shape == b.shape and bool(np.all(np.abs(a - b) <= (1e-5 if f32 else TOL) * (1.0 + sc)))

    for i, (mo, obj) in enumerate(zip(m[2], objs)):
        # which object is held as target: the model's reference against Python identity
        if mo["tgtPc"] < npc:
            if obj.target is not pcs[mo["tgtPc"]]:
                ctx.mismatch("hist/target", "object %d: the model holds the caller's PointCloud %d as target, the "
                             "implementation holds %s" % (i, mo["tgtPc"], "PointCloud %r" % [r for r, p in enumerate(pcs) if p is obj.target] or "an object of its own"), rp)
                continue
        elif any(obj.target is p for p in pcs):
            ctx.mismatch("hist/target", "object %d: the model holds a PointCloud of its own as target, the "
                         "implementation one of the caller's" % i, rp)
            continue
        if mo["tgt"] < 1000:
            if not np.array_equal(np.asarray(obj.target.points, dtype=float), vals[mo["tgt"]]):
                ctx.mismatch("hist/target", "object %d: .target does not show value %d" % (i, mo["tgt"]), rp)
                continue
        else:
            # an aligned source made by a parameter edit (which matrix it was aligned with is not recorded by the model:
            # a later composition changes the matrix and leaves this target alone)
            if obj.target.points.shape != vals[0].shape:
                ctx.mismatch("hist/target", "object %d: the model's target is an aligned source, the implementation's "
                             "has another shape" % i, rp)
                continue
        if mo["srcPc"] < npc:
            if obj.source is not pcs[mo["srcPc"]] and not (case["mcls"] == "pwa" and case["trilist"] is None):
                ctx.mismatch("hist/source", "object %d: the model holds the caller's source object, the implementation "
                             "another one" % i, rp)
        elif any(obj.source is p for p in pcs):
            ctx.mismatch("hist/source", "object %d: the model holds a copy of the source, the implementation the "
                         "caller's object" % i, rp)
        if mo["kind"] == "hom":
            d = case["d"]
            mvals = np.array([float(common.pq(x)) for x in mo["rest"]]).reshape(d + 1, d + 1)
            if not close(obj.h_matrix, mvals, max(scale, float(np.abs(mvals).max()))):
                ctx.mismatch("hist/matrix", "object %d: h_matrix differs from the model's by %.3g" % (
                    i, float(np.abs(obj.h_matrix - mvals).max())), rp)
        elif mo["kind"] == "tps":
            mm = re.match(r"L\(k(\d+),p(\d+)\) C\(L\(k(\d+),p(\d+)\),(-?\d+)/(\d+),p(\d+)\)$", " ".join(mo["rest"]))
            if not mm or mm.group(1) != mm.group(3) or mm.group(2) != "0" or mm.group(4) != "0":
                ctx.mismatch("hist/tps", "object %d: unexpected state descriptor %r" % (i, mo["rest"]), rp)
                continue
            k, sv, t = int(mm.group(1)), int(mm.group(5)) / float(int(mm.group(6))), int(mm.group(7))
            want = ref_tps_apply(k, sv, vals[0], vals[t], probes)
            got = apply_pts(obj, probes)
            sc = max(scale, float(np.abs(tps_kernel(k, vals[0], vals[0])).max()))
            if not close(got, want, sc):
                ctx.mismatch("hist/tps", "object %d: map differs from the reference TPS (kernel %d, floor %g, target value "
                             "%d) by %.3g" % (i, k, sv, t, float(np.abs(got - want).max())), rp)
        elif mo["kind"] == "pwa":
            mm = re.match(r"V\(p(\d+),p(\d+)\)$", " ".join(mo["rest"]))
            if not mm or mm.group(1) != "0":
                ctx.mismatch("hist/pwa", "object %d: unexpected state descriptor %r" % (i, mo["rest"]), rp)
                continue
            t = int(mm.group(2))
            tl = np.array(case["trilist"]) if case["trilist"] is not None else delaunay(vals[0])
            want = np.array([sum(w[j] * vals[t][tl[ti][j]] for j in range(3)) for ti, w in case["pinfo"]])
            got = apply_pts(obj, probes)
            if not close(got, want, scale):
                ctx.mismatch("hist/pwa", "object %d: map differs from the barycentric reference to value %d by %.3g" % (
                    i, t, float(np.abs(got - want).max())), rp)


# ------------------------------------------------------------------------------- witness (the Lean witnesses, on the real code)

def witness_cases():
    S = [[1.0, 1.0], [-1.0, 1.0], [-1.0, -1.0], [1.0, -1.0]]
    T1 = [[-2.0, 2.0], [-2.0, -2.0], [2.0, -2.0], [2.0, 2.0]]      # S turned by 90 degrees and doubled
    T5 = [[2.0, 1.0], [-1.0, 1.0], [-1.0, -1.0], [1.0, -1.0]]
    P3 = [[0.0, 0.0], [3.0, 1.0], [1.0, 4.0]]
    P4 = [[0.0, 0.0, 1.0], [3.0, 1.0, 0.0], [1.0, 4.0, 2.0], [2.0, 2.0, 5.0]]
    sets = [S, S, T1, P3, P4, T5]
    probes = [[0.5, 0.25], [2.0, -1.0], [-3.0, 0.5], [1.0, 1.0], [0.0, 0.0]]
    shift = [3.0, 3.0]
    out = []
    for mcls, icls, opts, ops in [
        ("similarity", "AlignmentSimilarity", {"rotation": False, "allow_mirror": False}, [["S", 0, 2]]),
        ("affine", "AlignmentAffine", {}, [["S", 0, 5]]),
        ("rotation", "AlignmentRotation", {"allow_mirror": False}, [["S", 0, 5], ["S", 0, 2]]),
        ("translation", "AlignmentTranslation", {}, [["S", 0, 2], ["S", 0, 3], ["S", 0, 4], ["S", 0, 5], ["S", 0, 3]]),
        ("translation", "AlignmentTranslation", {}, [["C", 0], ["S", 0, 5], ["S", 1, 2], ["S", 1, 3]]),
        ("uniformScale", "AlignmentUniformScale", {}, [["S", 0, 5], ["S", 0, 2]]),
        # the Lean examples of the aliasing theorems: the caller overwrites the held target and passes it again
        ("translation", "AlignmentTranslation", {}, [["W", 1, 5], ["S", 0, 1]]),
        ("translation", "AlignmentTranslation", {}, [["C", 0], ["W", 6, 5], ["S", 1, 6]]),
        ("tps", "ThinPlateSplines", {"kernel": 0, "min_singular_val": 1e-4}, [["C", 0], ["W", 6, 5], ["S", 0, 1]]),
        # ... and of the parameter-edit theorems
        ("translation", "AlignmentTranslation", {}, [["E", 0, "F", shift], ["E", 0, "A", shift], ["W", 2, 5], ["S", 0, 5]]),
        ("rotation", "AlignmentRotation", {"allow_mirror": False},
         [["C", 0], ["E", 0, "F", [0.0, -1.0, 1.0, 0.0]], ["S", 1, 2]]),
    ]:
        c = simple_case(mcls, icls, 2, opts, sets, ops, probes, witness="history")
        c["pcs"] = c["pcs"] + [1]            # PointCloud 6 shares the array of PointCloud 1
        out.append(c)
    for mcls, icls, opts in [("affine", "AlignmentAffine", {}), ("rotation", "AlignmentRotation", {"allow_mirror": False})]:
        # finding 22: the freshly constructed object itself (no call at all), first target not an exact fit
        out.append(simple_case(mcls, icls, 2, opts, [S, T5, T1, P3, P4], [], probes, witness="fresh"))
    return out


def witness_table(ctx):
    """the values the Lean witnesses assume for the real fits are the values the real fits have"""
    import numpy as np
    import menpo.transform as mt
    from menpo.shape import PointCloud
    w = witness_cases()[0]["vals"]
    S, T1, T5 = (np.array(w[i]) for i in (0, 2, 5))
    pc = PointCloud
    checks = [
        ("procrustes rotation=True S->T1", mt.AlignmentSimilarity(pc(S), pc(T1)).h_matrix, [[0, -2, 0], [2, 0, 0], [0, 0, 1]]),
        ("procrustes rotation=False S->T1", mt.AlignmentSimilarity(pc(S), pc(T1), rotation=False).h_matrix,
         [[2, 0, 0], [0, 2, 0], [0, 0, 1]]),
        ("affine S->T5", mt.AlignmentAffine(pc(S), pc(T5)).h_matrix, [[1.25, 0.25, 0.25], [0, 1, 0], [0, 0, 1]]),
        ("translation S->T5", mt.AlignmentTranslation(pc(S), pc(T5)).h_matrix, [[1, 0, 0.25], [0, 1, 0], [0, 0, 1]]),
        ("rotation S->T1", mt.AlignmentRotation(pc(S), pc(T1)).h_matrix, [[0, -1, 0], [1, 0, 0], [0, 0, 1]]),
        ("scale S->T1", mt.AlignmentUniformScale(pc(S), pc(T1)).h_matrix, [[2, 0, 0], [0, 2, 0], [0, 0, 1]]),
    ]
    for name, got, want in checks:
        if not arr_close(got, want, 2.0):
            ctx.mismatch("witness-table", "%s: the real fit gives %r, the Lean witness table says %r" % (
                name, np.round(got, 6).tolist(), want), {"check": name})


# ------------------------------------------------------------------------------- GPA

def gen_gpa(rng):
    import numpy as np
    d = rng.choice([2, 2, 3])
    n = rng.randint(4, 8) if d == 2 else rng.randint(5, 8)
    k = rng.randint(2, 8)
    base = gen_cloud(rng, n, d)
    shapes = []
    reflect = rng.random() < 0.3
    amp = rng.choice([1 / 32.0, 1 / 8.0, 1 / 4.0, 1 / 2.0])
    for _ in range(k):
        c, s_ = common.rat_circle(rng, 6)
        M = np.eye(d)
        M[:2, :2] = [[float(c), -float(s_)], [float(s_), float(c)]]
        M = np.round(M * rng.choice([0.5, 1.0, 1.5, 2.0]) * 64) / 64
        if reflect and rng.random() < 0.3:
            M[:, 0] = -M[:, 0]
        P = base.dot(M.T) + np.array([dy(rng, -6, 6) for _ in range(d)])
        P = P + np.array([[rng.randint(-4, 4) * amp for _ in range(d)] for _ in range(n)])
        shapes.append((np.round(P * 1024) / 1024).tolist())
    # max_iterations is fixed at 100 inside the constructor; a subclass pins it to a small value so that the
    # iteration-bound exit is driven on the real code (the loop itself is the library's)
    return {"kind": "gpa", "d": d, "shapes": shapes, "allow_mirror": rng.random() < 0.4,
            "fixed_target": rng.random() < 0.2, "max_iter": rng.choice([None, None, 1, 2, 3])}


def ref_gpa(shapes, mirror, target0=None, max_iter=100):
    """independent re-implementation of the iteration with fresh fits only (Lean: `refGpa`, theorem
    `gpa_eq_fresh_iteration`): (targets T_0.., flags, near_tie)"""
    import numpy as np
    T = np.mean(shapes, axis=0) if target0 is None else target0
    size0 = np.sqrt(((T - T.mean(0)) ** 2).sum())
    targets, flags, near = [T], [], False
    for _ in range(max_iter):
        al = [apply_h(ref_procrustes(S, T, True, mirror), S) for S in shapes]
        new = np.mean(al, axis=0)
        c = new.mean(0)
        new = (new - c) * (size0 / np.sqrt(((new - c) ** 2).sum())) + c
        delta = np.sqrt(((T - new) ** 2).sum())
        if abs(delta - 1e-6) < 1e-9:
            near = True
        flags.append(bool(delta < 1e-6))
        if flags[-1]:
            break
        T = new
        targets.append(T)
    return targets, flags, near


def gpa_class(max_iter):
    from menpo.transform import GeneralizedProcrustesAnalysis
    if max_iter is None:
        return GeneralizedProcrustesAnalysis

    class BoundedGPA(GeneralizedProcrustesAnalysis):
        max_iterations = property(lambda self: max_iter, lambda self, v: None)
    return BoundedGPA


def run_gpa(ctx, case, lines=None, pending=None, count=True):
    import numpy as np
    from menpo.shape import PointCloud
    from menpo.transform import AlignmentSimilarity
    site = "C08/gpa"
    shapes = [np.array(X, dtype=float) for X in case["shapes"]]
    mirror = case["allow_mirror"]
    fixed_t = case.get("fixed_target", False)
    max_iter = case.get("max_iter")
    for i, S in enumerate(shapes):
        for T in shapes[:1] + [np.mean(shapes, axis=0)]:
            if not rot_conditioned(S, T):
                return False
    t0 = shapes[0] * 1.25 + 0.5 if fixed_t else None
    targets, flags, near = ref_gpa(shapes, mirror, t0, 100 if max_iter is None else max_iter)
    if near:
        return False
    for T in targets:
        if any(not rot_conditioned(S, T) for S in shapes):
            return False
    rp = {"case": case, "how": "g = GeneralizedProcrustesAnalysis([PointCloud(s) for s in shapes], target=%s, "
                               "allow_mirror=...) (max_iter: a subclass whose max_iterations property is pinned to that "
                               "value); compare g.transforms[i] with AlignmentSimilarity(PointCloud(shapes[i]), "
                               "g.target, allow_mirror=...)" % ("shapes[0]*1.25+0.5" if fixed_t else "None")}
    pcs = [PointCloud(S.copy()) for S in shapes]
    dig = [p.points.tobytes() for p in pcs]
    scale = max(1.0, float(np.abs(np.array(shapes)).max()))
    try:
        g = gpa_class(max_iter)(pcs, target=PointCloud(t0.copy()) if fixed_t else None, allow_mirror=mirror)
    except Exception as e:
        ctx.fail(site, "raises", "GPA raised %s: %s" % (type(e).__name__, str(e)[:100]), rp)
        return True
    ok = True
    if max_iter is not None and (getattr(g, "max_iterations", None) != max_iter or g.n_iterations > max_iter + 1):
        # the implementation does not read its iteration bound from the attribute this harness pins (a local, a
        # constant; the bound is not part of the property): the case runs with the library's own bound
        ctx.count("gpa:max_iterations-pin-ignored")
        max_iter = None
        case = dict(case, max_iter=None)
        targets, flags, near = ref_gpa(shapes, mirror, t0, 100)
        if near or any(not rot_conditioned(S, T) for T in targets for S in shapes):
            return False
    if not fixed_t:      # the property clause
        if len(g.transforms) != len(shapes):
            ctx.fail(site, "count", "%d transforms for %d shapes" % (len(g.transforms), len(shapes)), rp)
            ok = False
        fresh = []
        for i, (t, S) in enumerate(zip(g.transforms, shapes)):
            f = AlignmentSimilarity(PointCloud(S.copy()), PointCloud(g.target.points.copy()), allow_mirror=mirror)
            fresh.append(f)
            if not arr_close(t.h_matrix, f.h_matrix, scale):
                ctx.fail(site, "transform-not-alignment-to-reported-target", "transforms[%d] differs from the fresh "
                         "AlignmentSimilarity of shape %d to gpa.target by %.3g" % (i, i, float(np.abs(t.h_matrix - f.h_matrix).max())), rp)
                ok = False
            if not np.array_equal(t.target.points, g.target.points):
                ctx.fail(site, "transform-target", "transforms[%d].target is not gpa.target" % i, rp)
                ok = False
            if not np.array_equal(t.source.points, S):
                ctx.fail(site, "transform-source", "transforms[%d].source is not input shape %d" % (i, i), rp)
                ok = False
            if not arr_close(t.aligned_source().points, f.aligned_source().points, scale):
                ctx.fail(site, "aligned-source-differs", "transforms[%d].aligned_source() differs from the fresh one" % i, rp)
                ok = False
        if ok:
            # derived reports (theorems gpa_mean_aligned_shape, gpa_alignment_errors): functions of (sources, target)
            try:
                mas = g.mean_aligned_shape().points
                err = g.mean_alignment_error()
                want_err = sum(f.alignment_error() for f in fresh) / len(fresh)
                if not arr_close(mas, g.target.points, scale):
                    ctx.mismatch("gpa/mean-aligned-shape", "mean_aligned_shape() is not the mean of the transforms' "
                                 "targets (= the reported target)", rp)
                if not common.close(err, want_err, scale, TOL):
                    ctx.mismatch("gpa/mean-alignment-error", "mean_alignment_error() = %r, the fresh alignments to the "
                                 "reported target give %r" % (err, want_err), rp)
            except Exception as e:
                ctx.mismatch("gpa/reports", "mean_aligned_shape / mean_alignment_error raised %s" % type(e).__name__, rp)
    for j, p in enumerate(pcs):
        if p.points.tobytes() != dig[j]:
            ctx.fail(site, "caller-pointset-altered", "input shape %d was modified by GPA" % j, rp)
            ok = False
    if count:
        ctx.count("gpa:%s" % ("fixed-target" if fixed_t else "free"))
        ctx.count("gpa:iterations=%d" % min(g.n_iterations, 9))
        ctx.count("gpa:exit=%s" % ("converged" if g.converged else "max_iterations"))
        ctx.case(("gpa", case["shapes"], mirror, fixed_t, max_iter), nontrivial=g.n_iterations >= 2,
                 sample={"gpa_shapes": len(shapes), "d": case["d"], "n": len(case["shapes"][0]),
                         "allow_mirror": mirror, "iterations": g.n_iterations, "max_iter": max_iter})
    if lines is not None and ok:
        cid = "g%d" % len(lines)
        lines.append("%s gpa fixed %d %d %d %d %d %d %d %s" % (
            cid, 100 if max_iter is None else max_iter, len(shapes), shapes[0].shape[0], shapes[0].shape[1],
            int(mirror), int(fixed_t), len(flags), " ".join("1" if f else "0" for f in flags)))
        pending[cid] = ("gpa", case, g, targets, shapes)
    return True


def gpa_argument_checks(ctx, lines, pending):
    """the argument checks of MultipleAlignment.__init__ (model: `gpaChecked`, Core/C08Py.lean; the translated
    constructor is proved equal to it): 0 / 1 / 2 sources, with and without a target"""
    import numpy as np
    from menpo.shape import PointCloud
    from menpo.transform import GeneralizedProcrustesAnalysis
    base = np.array([[0.0, 0.0], [4.0, 0.5], [3.5, 4.0], [-0.5, 3.0]])
    shapes = [base, base * 1.5 + 1.0]
    for nsrc in (0, 1, 2):
        for fixed_t in (False, True):
            try:
                g = GeneralizedProcrustesAnalysis([PointCloud(s.copy()) for s in shapes[:nsrc]],
                                                  target=PointCloud(base * 2.0) if fixed_t else None)
                got = "ok"
                if nsrc and len(g.transforms) != nsrc:
                    ctx.fail("C08/gpa", "count", "%d transforms for %d shapes" % (len(g.transforms), nsrc),
                             {"case": {"kind": "gpa-arguments", "n_sources": nsrc, "fixed_target": fixed_t}})
            except Exception as e:
                got = type(e).__name__
            ctx.count("gpa:arguments:%d-sources%s=%s" % (nsrc, "+target" if fixed_t else "", got))
            cid = "q%d" % len(lines)
            lines.append("%s gpachk 100 %d 4 2 0 %d 1 1" % (cid, nsrc, int(fixed_t)))
            pending[cid] = ("gpachk", nsrc, fixed_t, got)


def compare_gpa(ctx, reply, case, g, targets, shapes):
    import numpy as np
    rp = {"case": case, "model_reply": reply[:400]}
    if not reply.startswith("ok"):
        ctx.mismatch("gpa", "model says %r" % reply[:80], rp)
        return
    parts = reply[2:].split(" ; ")
    head = parts[0].split()
    n_it, conv, tgt = int(head[0]), int(head[1]), int(head[2])
    scale = max(1.0, float(np.abs(np.array(shapes)).max()))
    if n_it != g.n_iterations or bool(conv) != bool(g.converged):
        ctx.mismatch("gpa/iterations", "model: %d iterations converged=%d; implementation: %d, %s" % (
            n_it, conv, g.n_iterations, g.converged), rp)
        return
    max_iter = case.get("max_iter")
    if not g.converged and g.n_iterations != (100 if max_iter is None else max_iter) + 1:
        ctx.mismatch("gpa/iterations", "not converged after %d iterations with max_iterations = %r" % (
            g.n_iterations, max_iter), rp)
    if case.get("fixed_target"):
        want_t = shapes[0] * 1.25 + 0.5
    else:
        want_t = targets[tgt - 1000]
        # theorem gpa_eq_fresh_iteration, executed: the model's run equals its own fresh-alignments-only iteration
        if head[3:6] != [str(tgt), str(n_it), str(conv)]:
            ctx.mismatch("gpa/ref", "model: gpa reports %r, the fresh-alignment iteration %r" % (head[:3], head[3:6]), rp)
    if not arr_close(g.target.points, want_t, scale):
        ctx.mismatch("gpa/target", "gpa.target differs from reference target %d" % (tgt - 1000), rp)
        return
    for i, (p, t) in enumerate(zip(parts[1:], g.transforms)):
        tok = p.split()
        s_id, t_code, rot, mir = int(tok[4 + 1]), int(tok[4]), tok[4 + 2] == "1", tok[4 + 3] == "1"
        want = ref_procrustes(shapes[s_id], targets[t_code - 1000], rot, mir)
        if not arr_close(t.h_matrix, want, scale):
            ctx.mismatch("gpa/transform", "transforms[%d] differs from the reference Procrustes fit (source %d, target "
                         "%d, rotation=%s, mirror=%s) by %.3g" % (i, s_id, t_code - 1000, rot, mir,
                                                                  float(np.abs(t.h_matrix - want).max())), rp)
        if not arr_close(t.target.points, targets[int(tok[1]) - 1000], scale):
            ctx.mismatch("gpa/transform-target", "transforms[%d].target is not reference target %d" % (i, int(tok[1]) - 1000), rp)


# ------------------------------------------------------------------------------- regenerated read / write table

def trace_rw(obj, action):
    """(reads, writes, in_place): instance attributes read before `action()` (re)binds them; attributes whose identity
    or content changes; changed attributes that keep their identity (modified in place)"""
    cls = type(obj)
    reads, bound = [], set()

    class Traced(cls):
        def __getattribute__(self, name):
            d = object.__getattribute__(self, "__dict__")
            if name in d and name not in bound and name not in reads:
                reads.append(name)
            return cls.__getattribute__(self, name)

        def __setattr__(self, name, value):
            bound.add(name)
            cls.__setattr__(self, name, value)

    before = {k: (id(v), common.deep_digest(v)) for k, v in vars(obj).items()}
    keep = dict(vars(obj))         # keeps the old values alive: ids are not reused during the measurement
    obj.__class__ = Traced
    try:
        action()
    finally:
        obj.__class__ = cls
    after = {k: (id(v), common.deep_digest(v)) for k, v in vars(obj).items()}
    del keep
    writes = sorted(k for k in set(before) | set(after) if before.get(k) != after.get(k))
    in_place = sorted(k for k in writes if k in before and k in after and before[k][0] == after[k][0])
    return sorted(reads), writes, in_place


def rw_table():
    """rows (impl class, model class, options label, reads, writes, in place, all attributes) measured on live objects
    of every alignment class and option combination: two set_target calls each"""
    import numpy as np
    from menpo.shape import PointCloud
    rng = common.random.Random(20240)
    rows = {}
    for fam in families():
        mcls, icls, d, opts = fam
        case = None
        while case is None:
            case = gen_case(rng, fam, n_ops=1)
        vals = [np.array(X, dtype=float) for X in case["vals"]]
        obj = make_obj(case, make_source(case, vals[0].copy()), PointCloud(vals[1].copy()))
        reads, writes, inpl = set(), set(), set()
        for v in (2, 3, 2):
            t = PointCloud(vals[v].copy())
            old, src = obj.target, obj.source
            b_old, b_src = old.points.tobytes(), src.points.tobytes()
            r, w, ip = trace_rw(obj, lambda: obj.set_target(t))
            reads.update(r)
            writes.update(w)
            inpl.update(ip)
            # the point sets involved must come out byte-identical (names the model does not know break the obligation)
            if t.points.tobytes() != vals[v].tobytes():
                writes.add("(coordinates of the argument)")
            if old.points.tobytes() != b_old:
                writes.add("(coordinates of the previous target)")
            if src.points.tobytes() != b_src or obj.source is not src:
                writes.add("(coordinates of the source)")
        label = " ".join("%s=%s" % kv for kv in sorted(opts.items())) + (" d=%d" % d)
        rows[(icls, label)] = (icls, mcls, label.strip(), sorted(reads), sorted(writes), sorted(inpl), sorted(vars(obj)))
    return [rows[k] for k in sorted(rows)]


DISPATCH_METHODS = ["set_target", "_verify_target", "_sync_target_from_state", "_target_setter", "_new_target_from_state",
                    "_sync_state_from_target", "copy", "pseudoinverse", "_set_h_matrix", "_from_vector_inplace",
                    "set_rotation_matrix", "_compose_before_inplace", "_compose_after_inplace"]


def dispatch_table():
    """(impl class, model class, [(method, class whose __dict__ supplies it)]) from the live MROs"""
    import menpo.transform as mt
    from menpo.transform.piecewiseaffine.base import PythonPWA
    seen, rows = set(), []
    for mcls, icls, d, opts in families():
        cls = PythonPWA if icls == "PythonPWA" else getattr(mt, icls)
        if cls.__name__ in seen:
            continue
        seen.add(cls.__name__)
        rows.append((cls.__name__, mcls, [(m, next((k.__name__ for k in cls.__mro__ if m in vars(k)), "-"))
                                          for m in DISPATCH_METHODS]))
    return sorted(rows)


def copy_table():
    """(impl class, model class, own matrix, shares source, shares target) measured with `is` on `o.copy()` of a live
    object of every class (first option combination of each)"""
    import numpy as np
    from menpo.shape import PointCloud
    rng = common.random.Random(20241)
    rows, seen = [], set()
    for fam in families():
        mcls, icls, d, opts = fam
        if icls in seen:
            continue
        seen.add(icls)
        case = None
        while case is None:
            case = gen_case(rng, fam, n_ops=1)
        vals = [np.array(X, dtype=float) for X in case["vals"]]
        obj = make_obj(case, make_source(case, vals[0].copy()), PointCloud(vals[1].copy()))
        c = obj.copy()
        own = (not hasattr(obj, "_h_matrix")) or (c._h_matrix is not obj._h_matrix and
                                                  not np.shares_memory(c._h_matrix, obj._h_matrix))
        rows.append((icls, mcls, bool(own), c._source is obj._source, c._target is obj._target))
    return sorted(rows)


def generated(ctx):
    rows = rw_table()
    disp = dispatch_table()
    crows = copy_table()

    def sl(xs):
        return "[" + ", ".join('"%s"' % x for x in xs) + "]"

    body = ",\n   ".join('⟨"%s", .%s, "%s", %s, %s, %s, %s⟩' % (i, m, lab, sl(r), sl(w), sl(ip), sl(at))
                         for i, m, lab, r, w, ip, at in rows)
    gen = ("/- REGENERATED by harness/c08.py from live objects of every alignment class and option combination on every\n"
           "   run: instance attributes read by set_target before it (re)binds them, attributes changed, attributes changed\n"
           "   in place, all instance attributes.  Do not edit. -/\n"
           "import MenpoModel.Core.C08Frame\n\nnamespace MenpoModel.Generated.C08\nopen MenpoModel.C08\n\n"
           "def rwTable : List RWRow :=\n  [%s]\n\n"
           "/-- which class supplies which method, from the live MROs -/\n"
           "def dispatchTable : List Dispatch :=\n  [%s]\n\n"
           "/-- what `o.copy()` shares with `o`, measured with `is` on live objects -/\n"
           "def copyTable : List CopyRow :=\n  [%s]\n\nend MenpoModel.Generated.C08\n" % (
               body, ",\n   ".join('⟨"%s", .%s, [%s]⟩' % (i, m, ", ".join('("%s", "%s")' % p for p in sup))
                                   for i, m, sup in disp),
               ",\n   ".join('⟨"%s", .%s, %s, %s, %s⟩' % (i, m, str(a).lower(), str(b).lower(), str(c).lower())
                              for i, m, a, b, c in crows)))
    ctx.notes["copy_sharing_table"] = {i: {"own_matrix": a, "shares_source": b, "shares_target": c} for i, m, a, b, c in crows}
    ctx.notes["method_resolution"] = {i: dict(sup) for i, m, sup in disp}
    ctx.notes["set_target_read_write_table"] = {"%s %s" % (i, lab): {"reads": r, "writes": w, "in_place": ip}
                                                for i, m, lab, r, w, ip, at in rows}
    ok = common.build_generated(ctx, {"MenpoModel/Generated/C08RW.lean": gen},
                                ["MenpoModel.Generated.C08RW", "MenpoModel.GenProps.C08"], 7)
    ctx._c08_rw_ok = ok
    if not ok and ctx.broken_obligations:
        ctx.broken_obligations[-1]["obligation"] = "MenpoModel.GenProps.C08.rwTable_ok / rwTable_covers / rwTable_options / dispatch_ok / dispatch_covers / copyTable_ok / copyTable_covers"
        ctx.broken_obligations[-1]["observed"] = ctx.notes["set_target_read_write_table"]
    ok2 = generated_src(ctx)
    try:
        live_alignment_classes(ctx)
    except Exception as e:
        ctx.notes["alignment_subclasses_live"] = "not enumerated: %r" % (e,)
    return ok and ok2


def live_alignment_classes(ctx):
    """the concrete Alignment subclasses of the live tree against the families this check enumerates by hand"""
    import menpo.transform  # noqa: F401  (loads the subclasses)
    from menpo.transform.base.alignment import Alignment
    import inspect

    def subs(c):
        out = []
        for k in c.__subclasses__():
            out += [k] + subs(k)
        return out
    live = sorted({k.__name__ for k in subs(Alignment) if k.__module__.startswith("menpo.") and not inspect.isabstract(k)})
    covered = {f[1] for f in families()} | {"CachedPWA", "AbstractPWA", "HomogFamilyAlignment", "CythonPWA"}
    ctx.notes["alignment_subclasses_live"] = live
    for name in live:
        if name not in covered:
            ctx.count("alignment-class-not-in-families:" + name)


def generated_src(ctx):
    """the alignment machinery TRANSLATED from the source text of the working tree (harness/trans_c08.py) and the
    obligations `translated = Core model` (GenProps/C08Src.lean) + the property for the translated definitions
    (GenProps/C08SrcProps.lean)"""
    from . import trans_c08
    try:
        files, reasons = trans_c08.generated_files()
    except Exception as e:      # the classes the translation starts from are gone: nothing of the tie is left
        files, reasons = {trans_c08.GEN_REL: trans_c08.HEADER + "\n/- TRANSLATION FAILED: %s -/\n" % repr(e).replace("-/", "- /")
                          + trans_c08.FOOTER}, ["%r" % (e,)]
    ctx.notes["source_translation"] = "ok" if not reasons else "untranslatable: " + "; ".join(reasons)
    ctx.notes["source_translated_functions"] = trans_c08.translated_names(files[trans_c08.GEN_REL])
    ok = common.build_generated(ctx, files, trans_c08.GEN_TARGETS, len(SRC_THEOREMS))
    ctx._c08_src_ok = ok
    if not ok and ctx.broken_obligations:
        b = ctx.broken_obligations[-1]
        b["obligation"] = trans_c08.failed_theorems(b.get("output_tail", "") + "\n".join(b.get("errors", []))) or \
            "MenpoModel.GenProps.C08Src.* (translated source = Core model)"
        if reasons:
            b["untranslatable"] = reasons
    return ok


# ------------------------------------------------------------------------------- shrinking

class _Probe(object):
    """a throw-away context: collects oracle failures only"""
    def __init__(self):
        self.failures = []

    def fail(self, site, pattern, text, replay):
        self.failures.append((site, pattern, text, replay))

    def count(self, *a, **k):
        pass

    def case(self, *a, **k):
        pass

    def mismatch(self, *a, **k):
        pass


def _valid_ops(ops):
    n = 1
    for op in ops:
        if op[0] != "W" and op[1] >= n:
            return False
        if op[0] == "C":
            n += 1
    return True


def checked_case(ctx, case, lines=None, pending=None):
    """run_case, and when the oracle fails minimise the history (drop calls while the same failure remains)"""
    n0 = len(ctx.failures)
    run_case(ctx, case, lines, pending)
    if len(ctx.failures) == n0 or case.get("witness"):
        return
    pairs = []
    for f in ctx.failures[n0:]:
        if (f[0], f[1]) not in pairs:
            pairs.append((f[0], f[1]))
    for site, pattern in pairs[:4]:
        best, best_fail = case, None
        progress = True
        while progress and len(best["ops"]) > 1:
            progress = False
            for k in range(len(best["ops"])):
                ops = best["ops"][:k] + best["ops"][k + 1:]
                if not _valid_ops(ops):
                    continue
                trial = dict(best, ops=ops)
                pr = _Probe()
                run_case(pr, trial, count=False)
                hit = [f for f in pr.failures if f[0] == site and f[1] == pattern]
                if hit:
                    best, best_fail, progress = trial, hit[0], True
                    break
        if best_fail is not None:
            for j in range(n0, len(ctx.failures)):
                if ctx.failures[j][0] == site and ctx.failures[j][1] == pattern:
                    ctx.failures[j] = (site, pattern, best_fail[2] + " [history minimised from %d to %d calls]" % (
                        len(case["ops"]), len(best["ops"])), best_fail[3])
                    break


# ------------------------------------------------------------------------------- exploration

def explore(ctx, n_hist, n_gpa, lines, pending, witnesses=True):
    rng = ctx.rng
    if witnesses:
        witness_table(ctx)
        for case in witness_cases():
            checked_case(ctx, case, lines, pending)
        gpa_argument_checks(ctx, lines, pending)
    fams = families()
    done = 0
    i = 0
    while done < n_hist:
        fam = fams[i % len(fams)]
        i += 1
        case = gen_case(rng, fam)
        if case is None:
            ctx.count("generator-rejections")
            continue
        checked_case(ctx, case, lines, pending)
        done += 1
    done = 0
    tries = 0
    while done < n_gpa and tries < 20 * n_gpa + 20:
        tries += 1
        if run_gpa(ctx, gen_gpa(rng), lines, pending):
            done += 1
        else:
            ctx.count("generator-rejections")


def settle(ctx, lines, pending):
    if not lines:
        return
    model = common.run_driver(PROP, lines)
    differs = []

    def observable(reply):
        """verdicts + value-level fields of the objects (not the heap references, which the value model lacks)"""
        m = parse_hist(reply)
        return (m[1], [(o["src"], o["tgt"], o["rot"], o["mir"], o["ker"], o["sv"], o["kind"], o["rest"]) for o in m[2]]) \
            if m[0] == "ok" else m

    for cid, item in pending.items():
        if item[0] == "hist":
            compare_model(ctx, model[cid], *item[1:])
        elif item[0] == "coded":
            if observable(model[cid]) != observable(model[item[1]]):
                differs.append("%s/%s" % (item[2]["icls"], item[2]["witness"]))
        elif item[0] == "gpachk":
            want = model[cid].split()[1] if model[cid].startswith("exc") else "ok"
            if want != item[3]:
                ctx.mismatch("gpa/arguments", "GeneralizedProcrustesAnalysis on %d sources %s a target: implementation %s, "
                             "model (gpaChecked) %s" % (item[1], "with" if item[2] else "without", item[3], want),
                             {"case": {"kind": "gpa-arguments", "n_sources": item[1], "fixed_target": item[2]}})
        else:
            compare_gpa(ctx, model[cid], *item[1:])
    if any(it[0] == "coded" for it in pending.values()):
        # findings 6 and 22 are visible through the driver: the two models disagree on exactly these witnesses
        ctx.notes["coded_model_differs_on_witnesses"] = sorted(differs)
        # (a witness on which the oracle already failed on the real code is not queued: a changed tree must end in a
        # VIOLATION, not in an infrastructure error)
        queued = {"%s/%s" % (it[2]["icls"], it[2]["witness"]) for it in pending.values() if it[0] == "coded"}
        want = [w for w in ["AlignmentAffine/fresh", "AlignmentRotation/fresh", "AlignmentSimilarity/history"] if w in queued]
        if sorted(set(differs)) != want:
            raise common.Infra("driver: coded/fixed models differ on %r, expected exactly %r" % (differs, want))


def search(ctx):
    """directed search on the real code (oracle only): the classes / options of the mismatching cases first,
    then every family with longer histories"""
    before = ctx.evaluations
    fams = families()
    hot = []
    for op, text, rp in ctx.mismatches[:20]:
        c = rp.get("case") if isinstance(rp, dict) else None
        if c and c.get("kind") == "hist":
            hot += [f for f in fams if f[1] == c["icls"]]
    # the classes named by a broken obligation over the translated source (genSync_AlignmentTranslation_eq, …) or by
    # the reason a function could not be translated
    gpa_first = False
    for b in ctx.broken_obligations:
        text = "%s %s" % (b.get("obligation", ""), " ".join(b.get("untranslatable", [])))
        for icls in sorted({f[1] for f in fams} | {"AbstractPWA"}, key=len, reverse=True):
            if icls in text:
                hot += [f for f in fams if f[1] == icls or (icls == "AbstractPWA" and f[0] == "pwa")]
        gpa_first = gpa_first or any(w in text for w in ("Procrustes", "MultipleAlignment", "mapExcept"))
    if gpa_first:
        for _ in range(60):
            run_gpa(ctx, gen_gpa(ctx.rng))
            if ctx.failures:
                break
    rng = ctx.rng
    for fam in hot * 10 + fams * 12:
        case = gen_case(rng, fam, n_ops=rng.randint(2, 8))
        if case is not None:
            checked_case(ctx, case)
        if ctx.failures:
            break
    if not ctx.failures:
        for _ in range(60):
            run_gpa(ctx, gen_gpa(rng))
    ctx.searched += ctx.evaluations - before
    return bool(ctx.failures)


def run(ctx):
    generated(ctx)
    ctx.trusted += ["harness/py2lean2.py + harness/trans_c08.py (source-to-Lean translator and the C08 rule table: "
                    "which Lean term each Python expression / statement of the alignment code stands for)",
                    "Core/C08Py.lean: Affine._set_h_matrix / Rotation.set_rotation_matrix as vocabulary (numpy shape "
                    "checks), numpy operations as abstract functions (Np), newborn objects"]
    # audit what builds: a broken regenerated obligation (what the live classes / the source text say now is no longer
    # what the model says) is followed by the oracle's search for an input on which the difference shows
    imports, theorems, targets = IMPORTS[:1], [t for t in THEOREMS if ".GenProps." not in t], TARGETS[:2]
    if getattr(ctx, "_c08_rw_ok", False):
        imports, targets = imports + [IMPORTS[1]], targets + [TARGETS[2]]
        theorems = theorems + [t for t in THEOREMS if ".GenProps.C08." in t]
    if getattr(ctx, "_c08_src_ok", False):
        imports = imports + ["MenpoModel.GenProps.C08SrcProps"]
        targets = targets + ["MenpoModel.GenProps.C08SrcProps"]
        theorems = theorems + SRC_THEOREMS
    common.prepare_lean(ctx, PROP, imports, theorems, targets=targets)
    # the regenerated obligations are counted once (as generated obligations), their axioms are reported apart
    ctx.notes["generated_obligation_axioms"] = {t: ctx.theorems.pop(t) for t in list(ctx.theorems) if ".GenProps." in t}
    lines, pending = [], {}
    explore(ctx, ctx.n(3000, 30000), ctx.n(150, 2000), lines, pending)
    settle(ctx, lines, pending)
    return ctx.finish(search)


def replay(ctx, path):
    """re-execute the recorded case against the current tree and the model"""
    data = json.load(open(path))
    rp = data.get("replay") or {}
    case = rp.get("case")
    if case is None:
        for b in data.get("broken_correspondence", []):
            if isinstance(b.get("case"), dict) and b["case"].get("case"):
                case = b["case"]["case"]
                break
    if case is None:
        print("no recorded case in %s; re-running the quick exploration with seed %r" % (path, data.get("seed")))
        return run(common.Ctx(PROP, "quick", int(data.get("seed", 0))))
    print("replaying %s case: %s" % (case["kind"], json.dumps({k: v for k, v in case.items() if k not in ("sets", "vals", "shapes", "probes", "pinfo")})))
    common.prepare_lean(ctx, PROP, IMPORTS[:1], [t for t in THEOREMS if ".GenProps." not in t])
    lines, pending = [], {}
    if case["kind"] == "hist":
        run_case(ctx, case, lines, pending)
    else:
        run_gpa(ctx, case, lines, pending)
    settle(ctx, lines, pending)
    for site, pattern, text, _ in ctx.failures:
        print("  oracle: [%s | %s] %s" % (site, pattern, text))
    for op, text, _ in ctx.mismatches:
        print("  model/implementation: [%s] %s" % (op, text))
    return ctx.finish(None)
