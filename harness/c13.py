"""C13 — crops and patches are pixel-exact and honour their boundary contract (DESIGN.md section 6, C13).

Ties to /repo: (1) the correspondence below; (2) the entry-point table regenerated from the live classes
(harness/extract_c13.py); (3) the SOURCE TRANSLATION (harness/trans_c13.py): 20 crop / patch functions are translated
from the source text of the working tree into lean/MenpoModel/Generated/C13Src.lean on every run and
lean/MenpoModel/GenProps/C13Src.lean proves them equal to the model (`generated()` below; a source the vocabulary has
no words for, or a failed equality, is a broken obligation followed by the directed search, never an exit 2).

Three parties per generated case: the real menpo image classes (`Image`, `MaskedImage`, `BooleanImage`:
`crop`, `crop_to_pointcloud`, `crop_to_landmarks`, `crop_to_true_mask`, `extract_patches`, `set_patches`, and
the two functions of `menpo.image.patches`), a property oracle written with plain numpy slicing and
`fractions.Fraction` (independent of the Lean model), and the Lean model (`Core/C13Crop.lean`) fed with the
same inputs as exact rationals.  Everything compared is bit-for-bit (integers / dyadic rationals).
"""
import glob
import json
import math
import os
import types
from fractions import Fraction

from . import common
from . import extract_c13
from . import trans_c13

PROP = "C13"
INFO = dict(
    technique="Lean 4 proof (index logic of crop and its wrappers / slicing path / sampling path with concrete "
              "order-0/1 constant/nearest samplers / set_patches over an executable flat-array model, every "
              "dimension and channel count) + SOURCE TRANSLATION: 20 functions of menpo/image/base.py, patches.py, "
              "masked.py, boolean.py and shape/pointcloud.py are translated from the source text of the working tree "
              "into Lean on every run (harness/trans_c13.py over harness/py2lean2.py) and proved equal to their "
              "hand-written mirrors for all arguments, the mirrors to the definitions the theorems are about on "
              "well-formed data (pix.WF, a (C, H, W) pixel array, a documented offset spelling, patch lists of one "
              "shape) + bit-exact model/implementation "
              "correspondence through the public entry points + entry-point table regenerated from the live "
              "classes + independent numpy-slicing oracle on the real image classes",
    level_text="Theorems over an executable model of Image.crop, crop_to_pointcloud / crop_to_landmarks (and their "
               "_proportion variants), MaskedImage.crop_to_true_mask, extract_patches (dispatch on order / mode), "
               "extract_patches_with_slice, extract_patches_by_sampling, _centered_patch, the order-0/1 "
               "constant/nearest samplers, extract_patches_around_landmarks, the list format and set_patches: the "
               "crop is exactly the block p + clamp(floor(min)) in any number of dimensions with landmarks "
               "registered; the raise-or-clip decision clips iff constraining is allowed, refuses "
               "otherwise and never alters an in-bounds request (the `or` of the original tree is refuted by "
               "witness); the box a "
               "point set requests contains the pixel of every point except those on the whole-valued maximum "
               "when boundary = 0; every extraction path returns (centres, offsets, C, ph, pw) for every C, order, "
               "mode and centre, rounding ties included (slicing_patch_layout_all, extractPatches_shape_all - for the "
               "slicing path as repaired by notes/fixes/C13-slice-rounding-tie.diff: the original tree rounded both "
               "window corners half to even, so a half-integer centre + offset with an odd patch extent gave a window "
               "one pixel short or long and a ValueError, refuted by witness sliceBoundsCoded_tie; away from ties the "
               "two computations coincide, sliceBoundsCoded_eq); the original reshape(3, ...) provably fails for every "
               "C != 3; order 1 is the bilinear "
               "formula and reproduces the samples, 'constant' fills outside, 'nearest' is sampling at the clamped "
               "location; at integer centres/offsets the slicing path and the sampling path of order 0 and 1 agree "
               "pixel for pixel, outside pixels are the fill value, and set_patches restores interior windows - "
               "also into an image whose windows were damaged (set_extract_restores_damaged: pix on the written windows, "
               "the damaged image elsewhere; a set_patches that writes nothing does not satisfy it), "
               "through the public defaults and the list format.  For arbitrary centres the round trip is "
               "characterised exactly for both placements (int() of the original tree: iff int() and np.round pick "
               "the same pixel; np.round of the repaired tree: everywhere away from ties).  "
               "TRANSLATED, not transcribed (Generated/C13Src.lean, rewritten from the source text on every run; "
               "GenProps/C13Src.lean: genF = Src.f; Lemmas/C13Src.lean: Src.f = Core definition): "
               "Image.constrain_points_to_bounds, Image.crop (floor / ceil, both ValueErrors, the clamped bounds, the "
               "raise-or-clip decision, what goes to warp_to_shape, the aliasing of `cropped` and `result`, the final "
               "block copy), PointCloud.bounds / range, crop_to_pointcloud, crop_to_landmarks, "
               "crop_to_pointcloud_proportion, crop_to_landmarks_proportion, BooleanImage.true_indices / bounds_true, "
               "MaskedImage.crop_to_true_mask, _centered_patch (linspace / meshgrid / stack / half pixel), "
               "extract_patches_by_sampling (broadcast of the grid against centres and offsets, flattening, reshape "
               "with the image's channel count, transposition), extract_patches_with_slice (half-pixel shift, "
               "corners, np.round, np.clip, patch bounds and the two nested for loops with their slice assignment: "
               "proved equal to the element-wise model by a loop invariant), set_patches of patches.py (the loop over "
               "zip(patches, centres), np.round placement, low / high half extents, slice assignment), "
               "Image.extract_patches (2-D check, order / mode dispatch, which argument goes to which path, both "
               "return formats), extract_patches_around_landmarks, Image.set_patches (the three spellings of offset, "
               "offset_index default, list conversion, copy), set_patches_around_landmarks and "
               "_convert_patches_list_to_single_array (integer division, attributes of the first entry, the two "
               "nested loops with their running index).  The property theorems "
               "are restated about the translated definitions (gen_crop_spec, gen_crop_never_silently_altered, "
               "gen_crop_to_pointcloud_spec, gen_crop_to_true_mask_spec, gen_slicing_patch_layout, "
               "gen_slicing_patch_layout_all, gen_sampling_patch_layout, gen_extractPatches_shape, "
               "gen_extractPatches_shape_all, gen_slice_eq_sampling_at_integers, gen_outside_is_fill, "
               "gen_set_extract_roundtrip, gen_set_extract_restores_damaged, gen_landmarks_roundtrip_api).  "
               "The translation has VALUE semantics: a callee never mutates an argument its caller reads again, "
               "`.copy()` / `self.copy()` are the identity and `x += y` is a rebinding, so a dropped copy or an in-place "
               "update of a caller-visible array gives the same translation; that nothing the caller sees is mutated "
               "is decided by the oracle and the correspondence (a dropped `.copy()` in constrain_points_to_bounds is "
               "caught by the oracle as a silently clipped crop), not by the translated obligations.  "
               "The model is also tied to /repo by running "
               "the real classes on generated cases (all image classes, 1-5 channels, 7 dtypes, 2-D/3-D crops, "
               "each side separately, wrappers with omitted arguments, images born from earlier crops / patch "
               "lists / set_patches, odd/even/non-square patches, centres inside/near/beyond borders, integer and "
               "fractional, zero centres, list and array formats) and diffing whole arrays, landmarks and error "
               "kinds against the Lean driver (Image.constrain_points_to_bounds, BooleanImage.bounds_true with and "
               "without constraining and PointCloud.bounds / range are also called directly and compared with the "
               "mirrors of their translations), and by a regenerated table of suppliers, parameters and defaults.",
    level_note="Trusted: Lean kernel; axioms propext/Classical.choice/Quot.sound; the Python harness and the driver's "
               "parser; the translator harness/py2lean2.py + harness/trans_c13.py and its vocabulary "
               "(Core/C13Src.lean part 1: what each numpy expression of the translated functions means on the "
               "model's data - np.floor/ceil, boolean-mask assignment, np.clip, np.round, python slices and "
               "basic-slice assignment with broadcasting errors, linspace/meshgrid/stack/reshape/transpose, iteration "
               "over an array, np.min/max with their ValueError): a rule that mistranslated a construct would make "
               "the obligations speak about something else; the correspondence runs on the same functions and would "
               "disagree; numpy basic slicing/broadcasting, np.round (half to even), np.clip, np.floor/ceil, "
               "np.min/max, reshape and transpose semantics are modelled (Core/C13NDArr.lean, Core/C13Crop.lean, "
               "Core/C13Api.lean, Core/C13Src.lean, Core/PyData.lean) and exercised by the correspondence, not "
               "verified; rules that drop arguments (dtype= of np.full / np.empty, pixels.dtype, np.require(.., "
               "dtype=np.intp), np.require(.., requirements=['C'])): dtypes are outside the model, the dtype clause of "
               "crop ('same dtype', bit for bit) is held by the oracle alone (same_bits + dtype check) - Img.assignAll "
               "replaces the data wholesale whereas numpy casts into the dtype warp_to_shape(order=0) produced; the "
               "`sampler` parameter of the translated sampling path is closed over `pixels` and `cval` (the rule pins "
               "the literal argument names of scipy_interpolation); "
               "Image.warp_to_shape with a Translation and order 0 is a vocabulary word (the index grid "
               "translated and sampled per channel, landmarks through the inverse translation), not translated; "
               "scipy.ndimage.map_coordinates is "
               "a contract parameter of the layout theorems; its order-0/1, constant/nearest behaviour is the model "
               "`sampleRat`, about which the sampler theorems are proved and which is checked against scipy on every "
               "run; inspect.signature / the MRO as read by harness/extract_c13.py.",
    rule="a case = one call configuration (class, dtype, channels, shape, previous life of the image, entry point, "
         "bounds or centres/offsets/patch shape, flags, omitted arguments); "
         "distinct = distinct parameter tuple; non-trivial = crop request not equal to the whole image / patch request "
         "with at least one centre and a patch of more than one pixel",
    partial=["decision recorded - last row / column of crop_to_pointcloud / crop_to_landmarks / crop_to_true_mask: a "
             "point whose coordinate is whole and equal to the maximum (boundary 0) lies on the far edge of the crop "
             "and its own pixel row is cut (for crop_to_true_mask: the last true row and column).  This IS the block "
             "between floored minimum and ceiled maximum the property text prescribes, and menpo's tests pin it "
             "(test_crop_to_pointcloud: a 0..50 box crops to 50x50), so it is no violation; stated as theorems "
             "(request_contains, pointcloud_axes_contain, true_mask_axes_contain) and counted (note:last-row-cut:*)",
             "interpolation orders 2-5 and modes 'reflect' / 'wrap' of map_coordinates are not modelled (the layout "
             "theorem is generic in the sampler; the property names nearest-neighbour/constant for the path clause)",
             "the _proportion wrappers are exercised with dyadic proportions and coordinates only (float product "
             "exact); other proportions differ from the exact-rational model by float rounding of the boundary",
             "translation, outside the modelled domain: lists of patch images of differing shapes (numpy would "
             "broadcast or raise; the translated _convert_patches_list_to_single_array is proved equal to the model's "
             "fromPatchList for lists of one (C, h, w) shape) are not modelled; a negative offset_index "
             "and constrain_points_to_bounds on a 2-D array of points (constrain_landmarks_to_bounds) are not "
             "modelled; return_transform=True is modelled as returning the same image (the transform object is not "
             "part of the model)",
             "set_patches at fractional centres away from ties IS judged (integrator's decision: 'writing extracted "
             "interior patches back restores the image' is not restricted to whole-pixel centres): /repo rounds since fix "
             "5b997e6, the translated set_patches is proved equal to the rounding placement (genSetPatches_model) and "
             "the correspondence compares with that placement only; the theorems about the int() placement of the "
             "original tree (set_extract_roundtrip_coded, set_extract_shifted, set_extract_not_restored) are kept as "
             "its characterisation",
             "F1 (audit): until notes/fixes/C13-slice-rounding-tie.diff is applied to /repo the check prints VIOLATION "
             "(site C13/extract_patches.slicing.shape, pattern raises-at-rounding-tie) and the obligation "
             "genExtractPatchesWithSlice_eq is broken: the model and the mirror follow the repaired code; which of "
             "the two neighbouring pixels a rounding tie picks is not judged (compared with the model only)",
             "oracle extensions that are not clauses of the property text are correspondence observations (broken "
             "tie, directed search), not failures: dtype of extracted patches, class of the result, mask block of a "
             "cropped MaskedImage, source / receiver left unmodified",
             "float or fractional `offset` arrays of Image.set_patches are outside the model (OffArg holds integers); "
             "extractSlice_spec / patches_at_integers read pixels through getD: on an ill-formed buffer (shorter than "
             "its shape; excluded by pix.WF in every theorem that speaks of source pixels through get?) 'the source "
             "pixel' would be the fill value; `sampleRat` is bilinear for every order >= 1: the theorems quantified "
             "over `order` are about orders 0 and 1 of scipy"],
    assumptions=["inputs are small integers / dyadic rationals so float64 arithmetic in the implementation is exact",
                 "sampling-path cases avoid rounding ties of scipy (coordinate + 1/2 integral)",
                 "OpenCV is not installed in this environment, so warp_to_shape takes the scipy path",
                 "every crop-family case is run with return_transform False and True; the model returns the same image "
                 "for both (the transform object is judged by the oracle: result[p] == source[T(p)])"],
    design_ref="DESIGN.md section 6, C13")
# obligations over the source translation (GenProps/C13Src.lean; re-checked against the text regenerated from /repo)
SRC_GEN = ["genConstrainPointsToBounds", "genCrop", "genPcBounds", "genPcRange", "genCropToPointcloud",
           "genCropToLandmarks", "genCropToPointcloudProportion", "genCropToLandmarksProportion", "genTrueIndices",
           "genBoundsTrue", "genCropToTrueMask", "genCenteredPatch", "genExtractPatchesBySampling",
           "genExtractPatchesWithSlice", "genSetPatches", "genExtractPatches", "genExtractPatchesAroundLandmarks",
           "genSetPatchesApi", "genSetPatchesAroundLandmarks", "genConvertPatchesList"]
SRC_MODEL = ["genConstrainPointsToBounds", "genCrop", "genCropToPointcloud", "genCropToLandmarks",
             "genCropToPointcloudProportion", "genCropToLandmarksProportion", "genCropToTrueMask",
             "genExtractPatchesWithSlice", "genExtractPatchesBySampling", "genSetPatches", "genExtractPatches",
             "genExtractPatchesAroundLandmarks", "genSetPatchesApi", "genSetPatchesApi_list", "genConvertPatchesList"]
SRC_PROPS = ["gen_crop_spec", "gen_slicing_patch_layout", "gen_sampling_patch_layout",
             "gen_slice_eq_sampling_at_integers", "gen_outside_is_fill", "gen_set_extract_roundtrip",
             "gen_extractPatches_shape", "gen_landmarks_roundtrip_api", "gen_crop_never_silently_altered",
             "gen_crop_to_pointcloud_spec", "gen_crop_to_true_mask_spec", "gen_slicing_patch_layout_all",
             "gen_extractPatches_shape_all", "gen_set_extract_restores_damaged"]
SRC_THEOREMS = (["MenpoModel.C13.GenProps.%s_eq" % g for g in SRC_GEN]
                + ["MenpoModel.C13.GenProps.%s_model" % g for g in SRC_MODEL]
                + ["MenpoModel.C13.GenProps.%s" % g for g in SRC_PROPS])
IMPORTS = ["MenpoModel.Props.C13", "MenpoModel.GenProps.C13", "MenpoModel.GenProps.C13Src"]
THEOREMS = [
    "MenpoModel.C13.crop_spec",
    "MenpoModel.C13.crop_exact",
    "MenpoModel.C13.crop_landmarks_registered",
    "MenpoModel.C13.clamp_is_intersection",
    "MenpoModel.C13.crop_boundary_contract",
    "MenpoModel.C13.crop_never_silently_altered",
    "MenpoModel.C13.crop_coded_silently_clips",
    "MenpoModel.C13.sampling_patch_layout",
    "MenpoModel.C13.sampling_coded_fails",
    "MenpoModel.C13.slicing_patch_layout",
    "MenpoModel.C13.slicing_patch_layout_all",
    "MenpoModel.C13.sliceBoundsCoded_eq",
    "MenpoModel.C13.sliceBoundsCoded_tie",
    "MenpoModel.C13.axisPlan_spec",
    "MenpoModel.C13.patches_at_integers",
    "MenpoModel.C13.slice_eq_sampling_at_integers",
    "MenpoModel.C13.outside_is_fill",
    "MenpoModel.C13.sample0c_outside",
    "MenpoModel.C13.set_extract_roundtrip",
    # set_patches vs extraction at arbitrary centres (Lemmas/C13Set.lean)
    "MenpoModel.C13.round_sub_trunc",
    "MenpoModel.C13.truncZ_eq_round_iff",
    "MenpoModel.C13.setOne_window",
    "MenpoModel.C13.set_extract_roundtrip_centres",
    "MenpoModel.C13.set_extract_roundtrip_coded",
    "MenpoModel.C13.set_extract_roundtrip_repaired",
    "MenpoModel.C13.set_extract_shifted",
    "MenpoModel.C13.set_extract_not_restored",
    "MenpoModel.C13.setLoop_restores",
    "MenpoModel.C13.set_extract_restores_damaged",
    # samplers (Lemmas/C13Sampler.lean)
    "MenpoModel.C13.sample1_bilinear",
    "MenpoModel.C13.bilinear_weights",
    "MenpoModel.C13.sampleRat_at_integer",
    "MenpoModel.C13.sampleRat_outside",
    "MenpoModel.C13.sample_nearest_eq_clamp",
    "MenpoModel.C13.clampRat_range",
    "MenpoModel.C13.sample0_nearest_is_pixel",
    "MenpoModel.C13.nearest_eq_constant_inside",
    "MenpoModel.C13.slice_eq_sampling_at_integers_orders",
    # public entry points (Lemmas/C13Api.lean)
    "MenpoModel.C13.request_contains",
    "MenpoModel.C13.pointcloud_axes_contain",
    "MenpoModel.C13.true_mask_axes_contain",
    "MenpoModel.C13.crop_to_pointcloud_spec",
    "MenpoModel.C13.cropToPointcloudProportion_eq",
    "MenpoModel.C13.extractPatches_dispatch",
    "MenpoModel.C13.extractPatches_shape",
    "MenpoModel.C13.extractPatches_shape_all",
    "MenpoModel.C13.extractAroundLandmarks_eq",
    "MenpoModel.C13.extractPatches_orders_agree",
    "MenpoModel.C13.patch_list_roundtrip",
    "MenpoModel.C13.setPatchesApi_list",
    "MenpoModel.C13.landmarks_roundtrip_api",
    # histories (Lemmas/C13Seq.lean)
    "MenpoModel.C13.crop_sequence_exact",
    "MenpoModel.C13.crop_sequence_landmarks",
    # regenerated entry-point table (GenProps/C13.lean)
    "MenpoModel.C13.GenProps.entries_ok",
    "MenpoModel.C13.GenProps.kernels_shared",
    "MenpoModel.C13.GenProps.defaults_ok",
    "MenpoModel.C13.GenProps.around_landmarks_params",
    # the mirrors of the translated source equal the Core definitions (Lemmas/C13Src.lean, hand-written)
    "MenpoModel.C13.Src.constrainPointsToBounds_eq",
    "MenpoModel.C13.Src.crop_eq_core",
    "MenpoModel.C13.Src.pcBounds_eq",
    "MenpoModel.C13.Src.pcRange_eq",
    "MenpoModel.C13.Src.cropToPointcloud_eq_core",
    "MenpoModel.C13.Src.cropToLandmarks_eq_core",
    "MenpoModel.C13.Src.cropToPointcloudProportion_eq_core",
    "MenpoModel.C13.Src.cropToLandmarksProportion_eq_core",
    "MenpoModel.C13.Src.trueIndices_eq",
    "MenpoModel.C13.Src.cropToTrueMask_eq_core",
    "MenpoModel.C13.Src.centeredPatch_eq",
    "MenpoModel.C13.Src.extractPatchesBySampling_eq_core",
    "MenpoModel.C13.Src.extractPatchesBySampling_not3",
    "MenpoModel.C13.Src.setPatches_eq_core",
    "MenpoModel.C13.Src.sliceStep_inv",
    "MenpoModel.C13.Src.extractPatchesWithSlice_eq_core",
    "MenpoModel.C13.Src.rows_flat_eq_toPatchList",
    "MenpoModel.C13.Src.extractPatches_eq_core",
    "MenpoModel.C13.Src.extractPatches_not2d",
    "MenpoModel.C13.Src.extractPatchesAroundLandmarks_eq_core",
    "MenpoModel.C13.Src.convertStep_inv",
    "MenpoModel.C13.Src.convertPatchesList_eq_core",
    "MenpoModel.C13.Src.convertPatchesListIdx_eq",
    "MenpoModel.C13.Src.setPatchesApi_single_eq_core",
    "MenpoModel.C13.Src.setPatchesApi_list_eq_core",
    "MenpoModel.C13.Src.setPatchesApi_bad_offset",
] + SRC_THEOREMS

DTYPES = ["uint8", "uint16", "int32", "int64", "float32", "float64", "bool"]

HALF = Fraction(1, 2)


# ------------------------------------------------------------------------------------------ helpers

def np_():
    import numpy as np
    return np


def make_pixels(C, spatial, dtype, a, b):
    """deterministic, (nearly) injective pixel values representable in every dtype"""
    np = np_()
    size = C * int(np.prod(spatial))
    v = (a * np.arange(size, dtype=np.int64) + b) % 251
    if dtype == "bool":
        v = (v % 3 == 0)
    elif dtype.startswith("float"):
        v = v / 4.0
    return np.asarray(v).reshape((C,) + tuple(spatial)).astype(dtype)


def poke_special(px, dtype, k):
    """values that only survive a crop if it really is a block copy (the property says "bit for bit"): NaN, the
    infinities, -0.0, the extreme finite values and a subnormal for the float dtypes; integers beyond 2**53 (not
    representable in float64) for the 64-bit integer dtypes, the dtype's extremes for the others"""
    np = np_()
    dt = np.dtype(dtype)
    if dt.kind == "f":
        fi = np.finfo(dt)
        vals = [np.nan, np.inf, -np.inf, -0.0, fi.max, fi.min, fi.smallest_subnormal, -fi.smallest_subnormal]
    elif dt.kind in "iu" and dt.itemsize == 8:
        ii = np.iinfo(dt)
        vals = [2 ** 53 + 1, 2 ** 62 + 3, ii.max, ii.max - 1] + ([-(2 ** 53 + 1), ii.min, ii.min + 1] if dt.kind == "i"
                                                                 else [2 ** 63 + 1])
    elif dt.kind in "iu":
        ii = np.iinfo(dt)
        vals = [ii.max, ii.min, ii.max - 1]
    else:
        return px
    flat = px.reshape(-1)
    n = flat.size
    for j, v in enumerate(vals):
        flat[(k * 7 + j * (n // len(vals) + 1) + j) % n] = v
    # and one inside every 2x.. corner region so that small crops see some of them
    flat[(k + 1) % n] = vals[k % len(vals)]
    return px


def same_bits(a, b):
    """bit-for-bit equality of two arrays (NaN payloads and the sign of zero included)"""
    np = np_()
    return a.shape == b.shape and a.dtype == b.dtype and np.ascontiguousarray(a).tobytes() == np.ascontiguousarray(b).tobytes()


def make_mask(spatial, a):
    np = np_()
    size = int(np.prod(spatial))
    m = ((a * np.arange(size) + 1) % 5) != 0
    return m.reshape(tuple(spatial))


def build_image(case):
    """the menpo image of a case dict (keys cls, C, spatial, dtype, pa, pb, [ma], [lms], [pre]).
    `pre` gives the image a previous life: born from the crop of a larger image (landmarks and mask carried
    through that crop), from one entry of a patch list (`as_single_array=False`: a view into the single array),
    or from an earlier set_patches."""
    np = np_()
    from menpo.image import Image, MaskedImage, BooleanImage
    from menpo.shape import PointCloud
    cls = case["cls"]
    spatial = tuple(case["spatial"])
    pre = case.get("pre") or {}
    lo = [0] * len(spatial)
    if pre.get("kind") == "crop":
        lo = list(pre["lo"])
        spatial = tuple(n + a + b for n, a, b in zip(spatial, pre["lo"], pre["hi"]))
    elif pre.get("kind") == "patch":
        lo = list(pre["lo"])
        spatial = tuple(n + a + b for n, a, b in zip(spatial, pre["lo"], pre["hi"]))
    if cls == "BooleanImage":
        px = make_pixels(1, spatial, "bool", case["pa"], case["pb"])
        img = BooleanImage(px[0])
    elif cls == "MaskedImage":
        px = make_pixels(case["C"], spatial, case["dtype"], case["pa"], case["pb"])
        if case.get("special") is not None:
            px = poke_special(px, case["dtype"], case["special"])
        img = MaskedImage(px, mask=make_mask(spatial, case.get("ma", 3)))
    else:
        px = make_pixels(case["C"], spatial, case["dtype"], case["pa"], case["pb"])
        if case.get("special") is not None:
            px = poke_special(px, case["dtype"], case["special"])
        img = Image(px)
    if case.get("lms"):
        img.landmarks["g"] = PointCloud(np.array(case["lms"], dtype=float) + np.array(lo, dtype=float))
    if pre.get("kind") == "crop":
        img = img.crop(np.array(lo, dtype=float), np.array([a + n for a, n in zip(lo, case["spatial"])], dtype=float))
    elif pre.get("kind") == "patch":
        ph, pw = case["spatial"]
        ctr = np.array([[lo[0] + ph // 2, lo[1] + pw // 2]], dtype=float)
        lms = img.landmarks["g"] if img.has_landmarks else None
        img = img.extract_patches(PointCloud(ctr), patch_shape=(ph, pw), as_single_array=False)[0]
        if lms is not None:
            img.landmarks["g"] = PointCloud(lms.points - np.array(lo, dtype=float))
    elif pre.get("kind") == "set":
        ph, pw = pre["patch"]
        blk = np.full((1, 1, img.n_channels, ph, pw), 1 if img.pixels.dtype == bool else pre["value"]).astype(img.pixels.dtype)
        img = img.set_patches(blk, PointCloud(np.array([pre["centre"]], dtype=float)))
    return img


def previous_life_failed(ctx, case, e, rp):
    """the image of a case could not be built: its previous life (an interior crop / an interior patch extraction /
    a set_patches of an interior block - calls the property says must succeed) raised in the implementation.
    That is a failure of the real code, not of the harness."""
    kind = (case.get("pre") or {}).get("kind")
    if kind is None:
        raise e
    site = {"crop": "C13/crop.boundary", "patch": "C13/extract_patches.slicing.shape",
            "set": "C13/set_patches.roundtrip"}[kind]
    ctx.count("previous-life-raised:" + kind)
    ctx.fail(site, "previous-life-raises-" + type(e).__name__,
             "building the image of the case through an interior %s (previous life %r) raised %s: %s" % (
                 {"crop": "crop", "patch": "extract_patches", "set": "set_patches"}[kind], case["pre"],
                 type(e).__name__, str(e)[:160]), rp)


def val_str(x):
    if isinstance(x, bool):
        return "1" if x else "0"
    if isinstance(x, int):
        return str(x)
    return common.fq(x)


def arr_in(a):
    """`k s1..sk m d1..dm` (driver input)"""
    flat = a.ravel().tolist()
    return "%d %s %d %s" % (a.ndim, " ".join(str(s) for s in a.shape), len(flat), " ".join(val_str(x) for x in flat))


def arr_out(a):
    """`S shape D data` (driver output format)"""
    flat = a.ravel().tolist()
    return ("S " + " ".join(str(s) for s in a.shape) + " D " + " ".join(val_str(x) for x in flat)).rstrip() \
        if flat else "S " + " ".join(str(s) for s in a.shape) + " D "


def rats(xs):
    return "%d %s" % (len(xs), " ".join(common.fq(x) for x in xs))


def pts_in(pts):
    return "%d %s" % (len(pts), " ".join(common.fq(x) for p in pts for x in p))


def err_kind(e):
    from menpo.image.base import ImageBoundaryError
    if isinstance(e, ImageBoundaryError):
        return "boundary"
    if isinstance(e, IndexError):
        return "index"
    if isinstance(e, ValueError):
        return "value"
    if isinstance(e, ZeroDivisionError):
        return "zerodiv"
    return "other:" + type(e).__name__


def norm_reply(s):
    return " ".join(s.split())


# ------------------------------------------------------------------------------------------ crop

def crop_reference(spatial, mn, mx):
    """oracle arithmetic: floored/ceiled request, inside?, intersection with the image"""
    lo = [math.floor(Fraction(x)) for x in mn]
    hi = [math.ceil(Fraction(x)) for x in mx]
    inside = all(0 <= l and h <= n for l, h, n in zip(lo, hi, spatial))
    clo = [min(max(l, 0), n) for l, n in zip(lo, spatial)]
    chi = [min(max(h, 0), n) for h, n in zip(hi, spatial)]
    return lo, hi, inside, clo, chi


CROP_DEFAULT_CONSTRAIN = {"crop": False, "crop_list": False, "pointcloud": True, "landmarks": True,
                          "pointcloud_prop": True, "landmarks_prop": True, "true_mask": True}
CROP_SITE = {"crop": "crop", "crop_list": "crop", "pointcloud": "crop_to_pointcloud", "landmarks": "crop_to_landmarks",
             "pointcloud_prop": "crop_to_pointcloud_proportion", "landmarks_prop": "crop_to_landmarks_proportion",
             "true_mask": "crop_to_true_mask"}


def call_crop(img, case, return_transform=False):
    """the public call of the case; with case['omit'] every argument that has a default is left out (the
    generator then gives the case the default values, which the model applies from its own table);
    return_transform=True asks for (image, transform)"""
    np = np_()
    from menpo.shape import PointCloud
    how = case.get("how", "crop")
    omit = bool(case.get("omit"))
    kw = {} if omit else {"constrain_to_boundary": bool(case["constrain"])}
    if return_transform:
        kw["return_transform"] = True
    if how == "crop":
        return img.crop(np.array(case["mn"], dtype=float), np.array(case["mx"], dtype=float), **kw)
    if how == "crop_list":
        return img.crop(list(case["mn"]), list(case["mx"]), **kw)
    if how in ("pointcloud", "landmarks", "true_mask") and not omit:
        kw["boundary"] = case["boundary"]
    if how in ("pointcloud_prop", "landmarks_prop") and not omit:
        kw["minimum"] = bool(case["minimum"])
    if how == "pointcloud":
        return img.crop_to_pointcloud(PointCloud(np.array(case["pc"], dtype=float)), **kw)
    if how == "landmarks":
        return img.crop_to_landmarks(group="g", **kw)
    if how == "pointcloud_prop":
        return img.crop_to_pointcloud_proportion(PointCloud(np.array(case["pc"], dtype=float)), case["proportion"], **kw)
    if how == "landmarks_prop":
        return img.crop_to_landmarks_proportion(case["proportion"], group="g", **kw)
    if how == "true_mask":
        return img.crop_to_true_mask(**kw)
    raise ValueError(how)


def cloud_of(case):
    return case["pc"] if case.get("how") in ("pointcloud", "pointcloud_prop") else case["lms"]


def proportion_boundary(case):
    """oracle arithmetic of the _proportion wrappers: proportion x smallest / largest per-axis range"""
    pts = cloud_of(case)
    d = len(pts[0])
    rng = [max(Fraction(p[k]) for p in pts) - min(Fraction(p[k]) for p in pts) for k in range(d)]
    return Fraction(case["proportion"]) * (min(rng) if case["minimum"] else max(rng))


def crop_request(img, case):
    """the (min, max) request of the case as Fractions, computed by the oracle's own arithmetic"""
    np = np_()
    how = case.get("how", "crop")
    if how in ("crop", "crop_list"):
        return [Fraction(x) for x in case["mn"]], [Fraction(x) for x in case["mx"]]
    if how in ("pointcloud", "landmarks", "pointcloud_prop", "landmarks_prop"):
        pts = cloud_of(case)
        b = Fraction(case["boundary"]) if how in ("pointcloud", "landmarks") else proportion_boundary(case)
        d = len(pts[0])
        return ([min(Fraction(p[k]) for p in pts) - b for k in range(d)],
                [max(Fraction(p[k]) for p in pts) + b for k in range(d)])
    if how == "true_mask":
        idx = np.argwhere(img.mask.pixels[0])
        b = case["boundary"]
        return ([Fraction(int(idx[:, k].min()) - b) for k in range(idx.shape[1])],
                [Fraction(int(idx[:, k].max()) + b) for k in range(idx.shape[1])])
    raise ValueError(how)


def crop_python(case):
    return ("from harness import c13; img = c13.build_image(case); out = c13.call_crop(img, case)  "
            "# case = the 'case' dict of this replay; compare out.pixels with img.pixels[:, lo:hi, ...]")


def run_crop_case(ctx, case, lines, cid):
    """implementation + oracle for one crop case; appends model request lines; returns {line id: impl reply}"""
    np = np_()
    from menpo.image.base import ImageBoundaryError
    how = case.get("how", "crop")
    site = "C13/" + CROP_SITE[how]
    rp = {"kind": "crop", "case": case, "python": crop_python(case)}
    try:
        img = build_image(case)
    except Exception as e:
        previous_life_failed(ctx, case, e, rp)
        return {}
    src = img.pixels.copy()
    spatial = list(img.shape)
    mn, mx = crop_request(img, case)
    wrong_len = len(mn) != len(spatial) or len(mx) != len(spatial)
    lo, hi, inside, clo, chi = crop_reference(spatial, mn, mx) if not wrong_len else ([], [], False, [], [])
    degenerate = wrong_len or any(h <= l for l, h in zip(lo, hi))
    try:
        out = call_crop(img, case)
        err = None
    except Exception as e:  # judged below
        out, err = None, e
    ek = err_kind(err) if err is not None else None
    ctx.count("crop:" + case["cls"])
    ctx.count("crop-entry:" + CROP_SITE[how] + ("/defaults" if case.get("omit") else ""))
    ctx.count("crop-dims:%d" % len(spatial))
    if case.get("pre"):
        ctx.count("previous-life:" + case["pre"]["kind"])
    failed = False
    if degenerate:
        ctx.count("crop-outcome:degenerate-request")
        # outside the property's quantifier (documented ValueError); correspondence only
    elif inside or case["constrain"]:
        ctx.count("crop-outcome:" + ("inside" if inside else "clipped"))
        if err is not None:
            failed = True
            ctx.fail(site + ".boundary", "raised-" + ek + ("-when-inside" if inside else "-when-constraining"),
                     "request %s..%s on shape %s (constrain=%s) raised %s; it must return the %s" % (
                         lo, hi, spatial, case["constrain"], type(err).__name__,
                         "requested block" if inside else "intersection with the image"), rp)
        else:
            blo, bhi = (lo, hi) if inside else (clo, chi)
            exp = src[(slice(None),) + tuple(slice(a, b) for a, b in zip(blo, bhi))]
            ok = (out.pixels.shape == exp.shape and out.pixels.dtype == src.dtype
                  and same_bits(out.pixels, exp))
            if not ok:
                failed = True
                pat = ("shape" if out.pixels.shape != exp.shape else
                       "dtype" if out.pixels.dtype != src.dtype else "block-differs")
                ctx.fail(site + ".pixels", pat,
                         "crop %s..%s of shape %s: result (shape %s, dtype %s) is not the source block %s..%s "
                         "(shape %s, dtype %s)" % (lo, hi, spatial, out.pixels.shape, out.pixels.dtype, blo, bhi,
                                                   exp.shape, src.dtype), rp)
            if type(out) is not type(img):
                # not a clause of the property text: observation (broken tie -> directed search)
                ctx.mismatch("crop-class", "crop of %s returned %s" % (type(img).__name__, type(out).__name__),
                             dict(rp, op="crop-class"))
            if case.get("lms"):
                want = np.array(case["lms"], dtype=float) - np.array(blo, dtype=float)
                got = out.landmarks["g"].points if out.has_landmarks else None
                if got is None or got.shape != want.shape or not np.allclose(got, want, rtol=0, atol=1e-9):
                    failed = True
                    ctx.fail(site + ".landmarks", "not-shifted-by-minimum",
                             "landmarks after crop are %s, required %s (source landmarks minus %s)" % (
                                 None if got is None else got.tolist(), want.tolist(), blo), rp)
            if case["cls"] == "MaskedImage":
                mexp = img.mask.pixels[(slice(None),) + tuple(slice(a, b) for a, b in zip(blo, bhi))]
                if out.mask.pixels.shape != mexp.shape or not np.array_equal(out.mask.pixels, mexp):
                    failed = True   # (skips the model lines of this case; the mask is compared there as well)
                    ctx.mismatch("crop-mask", "mask of the cropped image is not the mask block", dict(rp, op="crop-mask"))
            if not same_bits(img.pixels, src):
                ctx.mismatch("crop-source", "crop modified the source image", dict(rp, op="crop-source"))
            # observation (decision recorded in INFO['partial']): pixels of the points on the whole-valued maximum
            if how in ("pointcloud", "landmarks", "pointcloud_prop", "landmarks_prop") and inside:
                cut = any(not (l <= math.floor(Fraction(p[k])) < h)
                          for p in cloud_of(case) for k, (l, h) in enumerate(zip(blo, bhi)))
                ctx.count("note:last-row-cut:%s:%s" % (CROP_SITE[how], "yes" if cut else "no"))
            if how == "true_mask" and inside:
                idx = np.argwhere(img.mask.pixels[0])
                cut = any(not (l <= int(i[k]) < h) for i in idx for k, (l, h) in enumerate(zip(blo, bhi)))
                ctx.count("note:last-row-cut:crop_to_true_mask:%s" % ("yes" if cut else "no"))
    else:
        ctx.count("crop-outcome:must-refuse")
        sides = ("low" if any(l < 0 for l in lo) else "") + ("high" if any(h > n for h, n in zip(hi, spatial)) else "")
        ctx.count("crop-outside-side:" + sides)
        if err is None:
            failed = True
            ctx.fail(site + ".boundary", "silently-clipped",
                     "request %s..%s leaves the image of shape %s (%s side) with constraining disabled: no "
                     "ImageBoundaryError, returned an image of shape %s" % (lo, hi, spatial, sides, out.shape), rp)
        elif not isinstance(err, ImageBoundaryError):
            failed = True
            ctx.fail(site + ".boundary", "wrong-exception-" + type(err).__name__,
                     "out-of-bounds request refused with %s instead of ImageBoundaryError" % type(err).__name__, rp)
    # ---- the same call with return_transform=True: the image is judged exactly as above (bit for bit, special pixel
    # values included), the transform by what the text says: result[p] == source[T(p)] for every pixel p of the result
    if not degenerate:
        rp2 = dict(rp, return_transform=True,
                   python="from harness import c13; img = c13.build_image(case); out, T = c13.call_crop(img, case, "
                          "return_transform=True)  # case = the 'case' dict of this replay")
        img2 = build_image(case)
        try:
            res2 = call_crop(img2, case, return_transform=True)
            err2 = None
        except Exception as e:
            res2, err2 = None, e
        ctx.count("crop-return-transform:" + CROP_SITE[how])
        if inside or case["constrain"]:
            blo, bhi = (lo, hi) if inside else (clo, chi)
            exp = src[(slice(None),) + tuple(slice(a, b) for a, b in zip(blo, bhi))]
            if err2 is not None:
                ctx.fail(site + ".boundary", "return-transform-raised-" + err_kind(err2),
                         "request %s..%s on shape %s (constrain=%s, return_transform=True) raised %s; it must return the "
                         "%s" % (lo, hi, spatial, case["constrain"], type(err2).__name__,
                                 "requested block" if inside else "intersection with the image"), rp2)
            elif not (isinstance(res2, tuple) and len(res2) == 2 and hasattr(res2[0], "pixels")):
                # the return convention is not a clause of the property text: observation
                ctx.mismatch("crop-return-transform", "return_transform=True did not return (image, transform): %r" % (
                    type(res2).__name__,), dict(rp2, op="crop-return-transform"))
            else:
                out2, tr2 = res2
                ok2 = (out2.pixels.shape == exp.shape and out2.pixels.dtype == src.dtype and same_bits(out2.pixels, exp))
                if not ok2:
                    pat = ("shape" if out2.pixels.shape != exp.shape else
                           "dtype" if out2.pixels.dtype != src.dtype else "block-differs")
                    ctx.fail(site + ".pixels", "return-transform-" + pat,
                             "crop %s..%s of shape %s with return_transform=True: the returned image (shape %s, dtype %s) "
                             "is not the source block %s..%s (shape %s, dtype %s), bit for bit" % (
                                 lo, hi, spatial, out2.pixels.shape, out2.pixels.dtype, blo, bhi, exp.shape, src.dtype), rp2)
                if case.get("lms"):
                    want = np.array(case["lms"], dtype=float) - np.array(blo, dtype=float)
                    got = out2.landmarks["g"].points if out2.has_landmarks else None
                    if got is None or got.shape != want.shape or not np.allclose(got, want, rtol=0, atol=1e-9):
                        ctx.fail(site + ".landmarks", "return-transform-not-shifted-by-minimum",
                                 "landmarks after crop(return_transform=True) are %s, required %s" % (
                                     None if got is None else got.tolist(), want.tolist()), rp2)
                # the transform: result[p] == source[T(p)] for every pixel index p of the result
                if ok2 and exp.size and hasattr(tr2, "apply"):
                    grid = np.indices(out2.pixels.shape[1:]).reshape(len(spatial), -1).T
                    try:
                        tp = np.asarray(tr2.apply(grid.astype(float)))
                        ti = np.rint(tp).astype(np.int64)
                        good = (tp.shape == grid.shape and bool(np.all(np.abs(tp - ti) < 1e-9))
                                and bool(np.all(ti >= 0)) and bool(np.all(ti < np.array(spatial))))
                        if good:
                            a = out2.pixels[(slice(None),) + tuple(grid.T)]
                            b = src[(slice(None),) + tuple(ti.T)]
                            good = same_bits(np.ascontiguousarray(a), np.ascontiguousarray(b))
                    except Exception:
                        good = False
                    if not good:
                        ctx.fail(site + ".transform", "result-is-not-source-at-transform",
                                 "crop %s..%s with return_transform=True: the returned transform does not send every "
                                 "pixel p of the result to the source pixel it equals (result[p] == source[T(p)])" % (
                                     lo, hi), rp2)
        else:
            if err2 is None:
                ctx.fail(site + ".boundary", "return-transform-silently-clipped",
                         "request %s..%s leaves the image of shape %s with constraining disabled and "
                         "return_transform=True: no ImageBoundaryError" % (lo, hi, spatial), rp2)
            elif not isinstance(err2, ImageBoundaryError):
                ctx.fail(site + ".boundary", "return-transform-wrong-exception-" + type(err2).__name__,
                         "out-of-bounds request (return_transform=True) refused with %s instead of ImageBoundaryError" % (
                             type(err2).__name__,), rp2)
    # ---- model requests
    obs = {}
    c = "1" if case["constrain"] else "0"
    shape_s = "%d %s" % (len(spatial), " ".join(str(s) for s in spatial))
    # ---- the helpers the crop is built from, through their own public entry points
    if not wrong_len:
        obs.update(run_helper_calls(ctx, case, img, spatial, lo, hi, clo, chi, lines, cid, rp))
    lines.append("%s.bc bounds c %s %s %s %s" % (cid, c, shape_s, rats(mn), rats(mx)))
    lines.append("%s.br bounds r %s %s %s %s" % (cid, c, shape_s, rats(mn), rats(mx)))
    decision = "err " + ek if err is not None else "ok"
    obs[cid + ".decision"] = decision
    if not failed:
        lms = case.get("lms") or []

        def model_line(arr, with_lms):
            """the entry point of the case on `arr`, as a driver request: the model receives the raw arguments
            (point set, boundary / proportion, mask) and derives the request itself"""
            lm_s = "%d %s" % (len(lms), " ".join(rats(p) for p in lms)) if with_lms else "0"
            if how in ("crop", "crop_list"):
                return "crop r %s 0 %s %s %s %s" % (c, arr_in(arr), rats(mn), rats(mx), lm_s)
            if how in ("pointcloud", "landmarks"):
                pts = cloud_of(case)
                return "pcrop r %s 0 %s %d %s %s %s" % (c, arr_in(arr), len(pts), " ".join(rats(p) for p in pts),
                                                       common.fq(case["boundary"]), lm_s)
            if how in ("pointcloud_prop", "landmarks_prop"):
                pts = cloud_of(case)
                return "pprop r %s 0 %s %d %s %s %s %s" % (c, arr_in(arr), len(pts), " ".join(rats(p) for p in pts),
                                                          common.fq(case["proportion"]),
                                                          "1" if case["minimum"] else "0", lm_s)
            return "tmask r %s 0 %s %s %d %s" % (c, arr_in(arr), arr_in(img.mask.pixels), int(case["boundary"]), lm_s)

        if case.get("special") is not None:
            ctx.count("crop-special-values:" + case["dtype"])
        elif err is not None:
            lines.append("%s.px %s" % (cid, model_line(src, True)))
            obs[cid + ".px"] = "err " + ek
        else:
            lines.append("%s.px %s" % (cid, model_line(src, True)))
            got_l = out.landmarks["g"].points if (case.get("lms") and out.has_landmarks) else np.zeros((0,))
            obs[cid + ".px"] = norm_reply("ok " + arr_out(out.pixels) + " L " + " ".join(
                common.fq(x) for x in got_l.ravel().tolist()))
        if how in ("pointcloud_prop", "landmarks_prop") and (cid + ".px") in obs:
            obs[cid + ".px"] = "B %s %s" % (common.fq(float(proportion_boundary(case))), obs[cid + ".px"])
        if case["cls"] == "MaskedImage":
            lines.append("%s.mk %s" % (cid, model_line(img.mask.pixels, False)))
            obs[cid + ".mk"] = ("err " + ek) if err is not None else norm_reply("ok " + arr_out(out.mask.pixels) + " L")
            if how in ("pointcloud_prop", "landmarks_prop"):
                obs[cid + ".mk"] = "B %s %s" % (common.fq(float(proportion_boundary(case))), obs[cid + ".mk"])
    return obs


def ints(xs):
    return "%d %s" % (len(xs), " ".join(str(int(x)) for x in xs))


def run_helper_calls(ctx, case, img, spatial, lo, hi, clo, chi, lines, cid, rp):
    """Image.constrain_points_to_bounds on the floored minimum and the ceiled maximum of the case ("requested indices
    clipped to the image": judged by the oracle), BooleanImage.bounds_true with and without constraining for
    crop_to_true_mask cases (judged), PointCloud.bounds / range for the point-set wrappers (correspondence only);
    the model side runs the mirrors of the translated source (driver ops cptb / btrue / pcb)."""
    np = np_()
    obs = {}
    how = case.get("how", "crop")
    for tag, vec, want in (("lo", lo, clo), ("hi", hi, chi)):
        try:
            got = img.constrain_points_to_bounds(np.array(vec, dtype=float))
            got_l = [float(x) for x in np.asarray(got).ravel().tolist()]
            ok = got_l == [float(x) for x in want]
            err = None
        except Exception as e:
            got_l, ok, err = None, False, e
        ctx.count("helper:constrain_points_to_bounds")
        if not ok:
            ctx.fail("C13/constrain_points_to_bounds", "not-clipped-to-image" if err is None else "raises-" + type(err).__name__,
                     "constrain_points_to_bounds(%s) on shape %s gave %s, the point clipped to the image is %s" % (
                         vec, spatial, got_l if err is None else type(err).__name__, want), dict(rp, helper=tag))
        else:
            lines.append("%s.cp%s cptb %s %s" % (cid, tag, "%d %s" % (len(spatial), " ".join(str(s) for s in spatial)), ints(vec)))
            obs["%s.cp%s" % (cid, tag)] = norm_reply("ok " + " ".join(str(int(x)) for x in got_l))
    if how == "true_mask":
        idx = np.argwhere(img.mask.pixels[0])
        b = int(case["boundary"])
        for flag in (False, True):
            try:
                mins, maxes = img.mask.bounds_true(boundary=b, constrain_to_bounds=flag)
                err = None
            except Exception as e:
                mins = maxes = None
                err = e
            ctx.count("helper:bounds_true/" + ("constrained" if flag else "raw"))
            if len(idx) == 0:
                continue   # an all-false mask has no true bounds (numpy raises ValueError): outside the quantifier
            wmin = [int(idx[:, k].min()) - b for k in range(idx.shape[1])]
            wmax = [int(idx[:, k].max()) + b for k in range(idx.shape[1])]
            if flag:
                wmin = [min(max(x, 0), n) for x, n in zip(wmin, spatial)]
                wmax = [min(max(x, 0), n) for x, n in zip(wmax, spatial)]
            ok = err is None and [int(x) for x in mins] == wmin and [int(x) for x in maxes] == wmax
            if not ok:
                ctx.fail("C13/bounds_true", "wrong-bounds" if err is None else "raises-" + type(err).__name__,
                         "mask.bounds_true(boundary=%d, constrain_to_bounds=%s) gave %s, the true pixels span %s..%s" % (
                             b, flag, None if err is not None else ([int(x) for x in mins], [int(x) for x in maxes]),
                             wmin, wmax), dict(rp, helper="bounds_true", constrain_to_bounds=flag))
            else:
                key = "%s.bt%d" % (cid, int(flag))
                lines.append("%s btrue %d %s %d" % (key, int(flag), arr_in(img.mask.pixels), b))
                obs[key] = norm_reply("ok %s | %s" % (" ".join(str(int(x)) for x in mins), " ".join(str(int(x)) for x in maxes)))
    if how in ("pointcloud", "landmarks"):
        from menpo.shape import PointCloud
        pts = cloud_of(case)
        pc = PointCloud(np.array(pts, dtype=float))
        try:
            mn_, mx_ = pc.bounds(boundary=case["boundary"])
            rg_ = pc.range()
            ctx.count("helper:pointcloud-bounds")
            lines.append("%s.pcb pcb %d %s %s" % (cid, len(pts), " ".join(rats(p) for p in pts), common.fq(case["boundary"])))
            obs[cid + ".pcb"] = norm_reply("ok %s | %s ; %s" % (" ".join(common.fq(float(x)) for x in mn_),
                                                                " ".join(common.fq(float(x)) for x in mx_),
                                                                " ".join(common.fq(float(x)) for x in rg_)))
        except Exception:
            ctx.count("helper:pointcloud-bounds-raised")
    return obs


def gen_axis_bounds(rng, n, cat):
    """(min, max) floats (multiples of 1/4) for one axis of extent n"""
    q = lambda: rng.choice([0, 0, 0.25, 0.5, 0.75])
    if cat == "inside":
        a = rng.randint(0, n - 1)
        b = rng.randint(a + 1, n)
        lo = a + q()
        hi = b - q()
        if math.ceil(hi) <= math.floor(lo):
            hi = math.floor(lo) + 1
        return float(lo), float(min(hi, n))
    if cat == "whole":
        return 0.0, float(n)
    if cat == "low":      # leaves below only
        return float(-rng.randint(1, 3) + q()) - (1 if rng.random() < 0.3 else 0), float(rng.randint(1, n) - q() * 0)
    if cat == "lowfrac":  # -0.25 floors to -1
        return -rng.choice([0.25, 0.5, 0.75]), float(rng.randint(1, n))
    if cat == "high":     # leaves above only
        return float(rng.randint(0, n - 1) + q()), float(n + rng.randint(1, 3) - q())
    if cat == "highfrac":  # n + 0.25 ceils to n + 1
        return float(rng.randint(0, n - 1)), n + rng.choice([0.25, 0.5, 0.75])
    if cat == "both":
        return float(-rng.randint(1, 3)), float(n + rng.randint(1, 3))
    if cat == "below":    # wholly outside, below
        a = -rng.randint(2, 5)
        return float(a), float(a + rng.randint(1, 2)) - (0.5 if rng.random() < 0.3 else 0.0)
    if cat == "above":    # wholly outside, above
        a = n + rng.randint(0, 3)
        return float(a) + q(), float(a + rng.randint(1, 2))
    if cat == "degenerate":
        a = rng.randint(0, n)
        return float(a), float(a - rng.randint(0, 1))
    raise ValueError(cat)


OUT_CATS = ["low", "lowfrac", "high", "highfrac", "both", "below", "above"]


def gen_image_params(rng, dims=None, classes=("Image", "MaskedImage", "BooleanImage")):
    cls = rng.choice(classes)
    d = dims or rng.choice([2, 2, 2, 3])
    spatial = [rng.randint(3, 8) for _ in range(d)] if d == 2 else [rng.randint(2, 5) for _ in range(d)]
    case = {"cls": cls, "spatial": spatial, "pa": rng.choice([1, 3, 7, 11, 13]), "pb": rng.randint(0, 50)}
    if cls == "BooleanImage":
        case["C"], case["dtype"] = 1, "bool"
    else:
        case["C"] = rng.randint(1, 5)
        case["dtype"] = rng.choice(DTYPES)
    if cls == "MaskedImage":
        case["ma"] = rng.choice([2, 3, 7])
    return case


def add_previous_life(rng, case):
    """with probability 1/4 the image of the case is not freshly constructed (call after the spatial shape is final)"""
    r = rng.random()
    d = len(case["spatial"])
    if r < 0.12:
        case["pre"] = {"kind": "crop", "lo": [rng.randint(0, 2) for _ in range(d)], "hi": [rng.randint(0, 2) for _ in range(d)]}
    elif r < 0.19 and d == 2 and case["cls"] == "Image":
        case["pre"] = {"kind": "patch", "lo": [rng.randint(0, 2), rng.randint(0, 2)], "hi": [rng.randint(0, 2), rng.randint(0, 2)]}
    elif r < 0.25 and d == 2:
        H, W = case["spatial"]
        case["pre"] = {"kind": "set", "patch": [rng.randint(1, 3), rng.randint(1, 3)],
                       "centre": [rng.randint(1, H - 2), rng.randint(1, W - 2)], "value": rng.choice([5, 77, 250])}
    return case


def gen_crop_case(rng):
    case = gen_image_params(rng)
    spatial = case["spatial"]
    d = len(spatial)
    r = rng.random()
    if r < 0.30:
        cats = [rng.choice(["inside", "inside", "whole"]) for _ in range(d)]
    elif r < 0.80:   # exactly one axis leaves the image, on one chosen side
        cats = ["inside"] * d
        cats[rng.randrange(d)] = rng.choice(OUT_CATS)
    elif r < 0.96:
        cats = [rng.choice(["inside"] + OUT_CATS) for _ in range(d)]
    else:
        cats = ["inside"] * d
        cats[rng.randrange(d)] = "degenerate"
    b = [gen_axis_bounds(rng, n, c) for n, c in zip(spatial, cats)]
    case["mn"] = [x[0] for x in b]
    case["mx"] = [x[1] for x in b]
    case["cats"] = cats
    case["constrain"] = rng.random() < 0.4
    case["how"] = "crop" if rng.random() < 0.9 else "crop_list"
    if not case["constrain"] and rng.random() < 0.3:
        case["omit"] = True      # constrain_to_boundary left to its default (False)
    if rng.random() < 0.5:
        case["lms"] = [[rng.randint(0, 4 * (n - 1)) / 4.0 for n in spatial] for _ in range(rng.randint(1, 3))]
    if case["cls"] != "BooleanImage" and case["dtype"] != "bool" and rng.random() < 0.25:
        # float images holding NaN / inf / -0.0 / extreme values, 64-bit integers beyond 2**53: "bit for bit"
        case["special"] = rng.randint(0, 40)
        return case
    return add_previous_life(rng, case)


def gen_derived_crop_case(rng):
    """crop_to_pointcloud / crop_to_landmarks / their _proportion variants / crop_to_true_mask"""
    how = rng.choice(["pointcloud", "landmarks", "true_mask", "pointcloud_prop", "landmarks_prop"])
    case = gen_image_params(rng, classes=("MaskedImage",) if how == "true_mask" else ("Image", "MaskedImage", "BooleanImage"))
    spatial = case["spatial"]
    case["how"] = how
    case["constrain"] = rng.random() < 0.5
    if how == "true_mask":
        case["boundary"] = rng.choice([0, 0, 1, 2, 3])
        case["ma"] = rng.choice([2, 3, 7])
    else:
        lo_off = rng.choice([0, 0, -1.5, -0.25])
        hi_off = rng.choice([0, 0, 1.5, 0.25])
        pts = []
        for _ in range(rng.randint(2, 4)):
            pts.append([rng.randint(0, 4 * (n - 1)) / 4.0 for n in spatial])
        k = rng.randrange(len(spatial))
        pts[0][k] = lo_off if lo_off else pts[0][k]
        pts[1][k] = spatial[k] + hi_off if hi_off else pts[1][k]
        # make sure the cloud has positive extent on every axis
        for a in range(len(spatial)):
            if max(p[a] for p in pts) - min(p[a] for p in pts) < 1:
                pts[0][a], pts[1][a] = 0.5, float(spatial[a] - 1)
        if rng.random() < 0.35:   # whole-valued extreme points inside the image: the last row / column question
            k2 = rng.randrange(len(spatial))
            pts[0][k2] = float(rng.randint(0, max(0, spatial[k2] - 2)))
            pts[1][k2] = float(rng.randint(int(pts[0][k2]) + 1, spatial[k2] - 1)) if spatial[k2] >= 2 else pts[1][k2]
        case["boundary"] = rng.choice([0, 0, 1, 0.5, 2])
        if how.endswith("_prop"):
            del case["boundary"]
            case["proportion"] = rng.choice([0, 0.125, 0.25, 0.5, 1.0, -0.125])
            case["minimum"] = rng.random() < 0.6
        case["pc" if how.startswith("pointcloud") else "lms"] = pts
    if rng.random() < 0.3:        # every argument with a default omitted
        case["omit"] = True
        case["constrain"] = True
        if "boundary" in case:
            case["boundary"] = 0
        if "minimum" in case:
            case["minimum"] = True
    return add_previous_life(rng, case)


# ------------------------------------------------------------------------------------------ patches

def grid_coord(ph, a):
    return -Fraction(ph, 2) + a + Fraction(ph % 2, 2)


def patch_reference(pix, centres, offs, ph, pw, cval, rule):
    """oracle: for every patch pixel, the set of admissible values (1 or 2 of them).
    rule = 'slice' (nearest pixel index decides inside/outside), 'sample' (coordinate in [0, n-1] decides),
    'either' (rim pixels may be the nearest pixel or the fill value), 'nearest' (mode='nearest', order 0:
    the pixel nearest to the clamped location)."""
    np = np_()
    C, H, W = pix.shape
    fill = np.asarray(cval).astype(pix.dtype)
    n, k = len(centres), len(offs)
    lo = np.empty((n, k, C, ph, pw), dtype=pix.dtype)
    alt = np.empty((n, k, C, ph, pw), dtype=pix.dtype)
    for i, ctr in enumerate(centres):
        for j, off in enumerate(offs):
            for r in range(ph):
                sr = Fraction(ctr[0]) + Fraction(off[0]) + grid_coord(ph, r)
                ir = math.floor(sr + HALF)
                for q in range(pw):
                    sq = Fraction(ctr[1]) + Fraction(off[1]) + grid_coord(pw, q)
                    iq = math.floor(sq + HALF)
                    near_in = 0 <= ir <= H - 1 and 0 <= iq <= W - 1
                    coord_in = 0 <= sr <= H - 1 and 0 <= sq <= W - 1
                    v_pix = pix[:, ir, iq] if near_in else fill
                    if rule == "nearest":
                        # mode='nearest': the location is clamped to [0, n-1] first, so no pixel is ever filled
                        cr = min(max(sr, 0), H - 1)
                        cq = min(max(sq, 0), W - 1)
                        a = b = pix[:, math.floor(cr + HALF), math.floor(cq + HALF)]
                    elif rule == "slice":
                        a = b = v_pix
                    elif rule == "sample":
                        a = b = (v_pix if coord_in else fill)
                    else:
                        a, b = v_pix, (v_pix if coord_in else fill)
                    lo[i, j, :, r, q] = a
                    alt[i, j, :, r, q] = b
    return lo, alt


def is_tie(x):
    return (Fraction(x) - math.floor(Fraction(x))) == HALF


def patch_inputs(case):
    np = np_()
    img = build_image(case)
    centres = [list(map(float, c)) for c in case["centres"]]
    offs = case.get("offsets")
    if offs is None:
        offs_arr = None
    else:
        offs_arr = np.array(offs, dtype=(int if case.get("offsets_int", True) else float)).reshape(-1, 2)
    return img, centres, offs, offs_arr


API_PATHS = {"api-slice": (0, "constant"), "api-order1": (1, "constant"), "api-nearest": (0, "nearest"),
             "api-order1-nearest": (1, "nearest")}


def call_extract(img, case, centres, offs_arr, path, as_single_array=True):
    """path: 'api-slice' (Image.extract_patches, default order/mode), 'api-order1', 'api-nearest',
    'api-order1-nearest' (same entry point, other order / mode), 'api-lms' (extract_patches_around_landmarks),
    'fn-slice', 'fn-sample0' (the two functions of menpo.image.patches).  With case['omit'] every argument
    that has its default value is left out of the call."""
    np = np_()
    from menpo.shape import PointCloud
    from menpo.image.patches import extract_patches_with_slice, extract_patches_by_sampling
    ps = tuple(case["patch_shape"])
    cv = float(case["cval"])
    pc = np.array(centres, dtype=float).reshape(-1, 2)
    omit = bool(case.get("omit"))
    if path in API_PATHS or path == "api-lms":
        kw = {"patch_shape": ps}
        if not (omit and offs_arr is None):
            kw["sample_offsets"] = offs_arr
        if not (omit and as_single_array):
            kw["as_single_array"] = as_single_array
        if path == "api-lms":
            work = img.copy()
            work.landmarks["centres"] = PointCloud(pc)
            return work.extract_patches_around_landmarks(group="centres", **kw)
        order, mode = API_PATHS[path]
        if not (omit and order == 0):
            kw["order"] = order
        if not (omit and mode == "constant"):
            kw["mode"] = mode
        if not (omit and cv == 0.0):
            kw["cval"] = cv
        return img.extract_patches(PointCloud(pc), **kw)
    if path == "fn-slice":
        return extract_patches_with_slice(img.pixels, pc, ps, offs_arr, cval=cv)
    if path == "fn-sample0":
        if omit:
            return extract_patches_by_sampling(img.pixels, pc, ps, offs_arr, cval=cv)
        return extract_patches_by_sampling(img.pixels, pc, ps, offs_arr, order=0, mode="constant", cval=cv)
    raise ValueError(path)


def patch_python(case):
    return ("from harness import c13; img, centres, offs, offs_arr = c13.patch_inputs(case); "
            "out = c13.call_extract(img, case, centres, offs_arr, PATH)  # PATH in case['paths']")


def run_patch_case(ctx, case, lines, cid):
    np = np_()
    try:
        img, centres, offs, offs_arr = patch_inputs(case)
    except Exception as e:
        previous_life_failed(ctx, case, e, {"kind": "patch", "case": case, "path": "api-slice", "python": patch_python(case)})
        return {}
    pix = img.pixels
    C, H, W = pix.shape
    ph, pw = case["patch_shape"]
    offs_eff = offs if offs is not None else [[0, 0]]
    n, k = len(centres), len(offs_eff)
    want_shape = (n, k, C, ph, pw)
    integer = all(float(x).is_integer() for c in centres for x in c) and \
        all(float(x).is_integer() for o in offs_eff for x in o)
    tie = any(is_tie(Fraction(c[a]) + Fraction(o[a])) for c in centres for o in offs_eff for a in (0, 1))
    ctx.count("patch:" + case["cls"])
    ctx.count("patch-channels:%d" % C)
    ctx.count("patch-centres:" + ("integer" if integer else "tie" if tie else "fractional"))
    ctx.count("patch-shape:%s%s" % ("odd" if ph % 2 else "even", "odd" if pw % 2 else "even"))
    ctx.count("patch-n-centres:%s" % ("0" if n == 0 else "1+"))
    if case.get("pre"):
        ctx.count("previous-life:" + case["pre"]["kind"])
    if case.get("omit"):
        ctx.count("patch-entry:defaults-omitted")
    obs, results = {}, {}
    for path in case["paths"]:
        rp = {"kind": "patch", "case": case, "path": path, "python": patch_python(case)}
        site = "C13/extract_patches." + ("slicing" if ("slice" in path or path == "api-lms") else "sampling")
        if tie and path not in ("fn-slice", "api-slice", "api-lms"):
            continue   # scipy's tie rule is not part of the property (quantifier: away from rounding ties)
        # extract_patches_around_landmarks forwards no fill value: its patches are filled with 0
        cval_path = 0 if path == "api-lms" else case["cval"]
        try:
            out = call_extract(img, case, centres, offs_arr, path)
            err = None
        except Exception as e:
            out, err = None, e
        ctx.count("patch-path:" + path)
        failed = False
        if tie:
            # the shape clause has no tie exclusion (only the per-path reference comparison has): at a rounding tie
            # the slicing paths must still return the (centres, offsets, C, ph, pw) array; WHICH of the two
            # neighbouring pixels a tie picks is not judged (compared with the model only)
            if err is not None:
                failed = True
                ctx.fail(site + ".shape", "raises-at-rounding-tie",
                         "%s with centre + offset on a half-integer (%s, offsets %s), patch %dx%d raised %s: %s; it must "
                         "return an array of shape %s" % (path, centres, offs_eff, ph, pw, type(err).__name__,
                                                         str(err)[:120], want_shape), rp)
            elif tuple(out.shape) != want_shape:
                failed = True
                ctx.fail(site + ".shape", "wrong-shape", "%s returned shape %s, required %s" % (
                    path, tuple(out.shape), want_shape), rp)
        elif err is not None:
            failed = True
            ctx.fail(site + ".shape", "raises-%s-channels-%s" % (type(err).__name__, "3" if C == 3 else "not-3"),
                     "%s with %d channel(s), %d centre(s), %d offset(s), patch %dx%d raised %s: %s; it must return "
                     "an array of shape %s" % (path, C, n, k, ph, pw, type(err).__name__, str(err)[:120], want_shape), rp)
        else:
            if tuple(out.shape) != want_shape:
                failed = True
                ctx.fail(site + ".shape", "wrong-shape", "%s returned shape %s, required %s" % (
                    path, tuple(out.shape), want_shape), rp)
            elif out.dtype != pix.dtype:
                # the property text states the dtype for crop only: an observation, not a failure
                failed = True      # (no model line: the model's replies are typed like the pixels)
                ctx.mismatch("patch-dtype", "%s returned dtype %s from %s pixels" % (path, out.dtype, pix.dtype),
                             dict(rp, op="patch-dtype"))
            elif path in ("api-slice", "fn-slice", "fn-sample0", "api-lms"):
                rule = "slice" if integer else "either"
                a, b = patch_reference(pix, centres, offs_eff, ph, pw, cval_path, rule)
                good = (out == a) | (out == b)
                if not bool(np.all(good)):
                    failed = True
                    w = tuple(int(x) for x in np.argwhere(~good)[0])
                    ctx.fail(site + ".pixels", "pixel-differs" if integer else "pixel-differs-fractional",
                             "%s: patch element %s is %r; the source pixel / fill value there is %r" % (
                                 path, w, out[w].item(), a[w].item()), dict(rp, index=list(w)))
            elif path == "api-nearest" and H > 0 and W > 0:
                # order 0, mode='nearest' (fractional centres away from ties included): clamp, then nearest pixel
                a, _ = patch_reference(pix, centres, offs_eff, ph, pw, case["cval"], "nearest")
                good = (out == a)
                if not bool(np.all(good)):
                    failed = True
                    w = tuple(int(x) for x in np.argwhere(~good)[0])
                    ctx.fail(site + ".pixels", "nearest-mode-pixel-differs",
                             "%s: patch element %s is %r, the pixel nearest to the clamped location is %r" % (
                                 path, w, out[w].item(), a[w].item()), dict(rp, index=list(w)))
            elif integer:
                # interpolation reproduces the samples at integer locations; constant mode fills outside
                a, _ = patch_reference(pix, centres, offs_eff, ph, pw, case["cval"], "slice")
                if path in ("api-nearest", "api-order1-nearest"):
                    inside_only = patch_reference(pix, centres, offs_eff, ph, pw, 0, "slice")[0] == \
                        patch_reference(pix, centres, offs_eff, ph, pw, 1, "slice")[0]
                    good = (out == a) | ~inside_only
                else:
                    good = np.isclose(out.astype(float), a.astype(float), rtol=0, atol=1e-9)
                if not bool(np.all(good)):
                    failed = True
                    w = tuple(int(x) for x in np.argwhere(~good)[0])
                    ctx.fail(site + ".pixels", "pixel-differs", "%s: patch element %s is %r, source pixel / fill is %r" % (
                        path, w, out[w].item(), a[w].item()), dict(rp, index=list(w)))
        results[path] = (out, err, failed)
        # ---- model request for this path
        if failed:
            if err is not None and "sampl" in site:
                lines.append("%s.%s.coded samp c 0 c %s %s %d %d %s %s" % (
                    cid, path, arr_in(pix[:, :1, :1]), pts_in(centres), ph, pw,
                    "N" if offs is None else pts_in(offs), common.fq(case["cval"])))
                obs["%s.%s.coded" % (cid, path)] = "?variant err " + err_kind(err)
            continue
        offs_s = "N" if offs is None else pts_in(offs)
        cv = common.fq(np.asarray(case["cval"]).astype(pix.dtype).item())
        if path in API_PATHS:      # the public entry point: the model decides between slicing and sampling
            order, mode = API_PATHS[path]
            lines.append("%s.%s api r %d %s %s %s %d %d %s %s" % (
                cid, path, order, mode[0], arr_in(pix), pts_in(centres), ph, pw, offs_s, cv))
        elif path == "api-lms":
            lines.append("%s.%s lms %s %s %d %d %s" % (cid, path, arr_in(pix), pts_in(centres), ph, pw, offs_s))
        elif path == "fn-slice":
            lines.append("%s.%s slice %s %s %d %d %s %s" % (cid, path, arr_in(pix), pts_in(centres), ph, pw, offs_s, cv))
        else:
            lines.append("%s.%s samp r 0 c %s %s %d %d %s %s" % (
                cid, path, arr_in(pix), pts_in(centres), ph, pw, offs_s, cv))
        obs["%s.%s" % (cid, path)] = ("err " + err_kind(err)) if err is not None else norm_reply("ok " + arr_out(out))
    # ---- path equivalence at integer centres and offsets
    if integer and "fn-sample0" in results and not results["fn-sample0"][2]:
        for sp in ("api-slice", "fn-slice"):
            if sp in results and not results[sp][2] and results[sp][0] is not None and results["fn-sample0"][0] is not None:
                a, b = results[sp][0], results["fn-sample0"][0]
                if a.shape != b.shape or a.dtype != b.dtype or not np.array_equal(a, b):
                    ctx.fail("C13/extract_patches.path-equivalence", "slice-differs-from-sampling",
                             "at integer centres %s (%s) and extract_patches_by_sampling(order=0, mode='constant') "
                             "return different patches" % (centres, sp),
                             {"kind": "patch", "case": case, "path": sp, "python": patch_python(case)})
    # ---- list format is the same data
    if case.get("as_list") and "api-slice" in results and results["api-slice"][0] is not None and not tie:
        lst = None
        try:
            lst = call_extract(img, case, centres, offs_arr, "api-slice", as_single_array=False)
            single = results["api-slice"][0]
            ok = len(lst) == n * k and all(np.array_equal(lst[i * k + j].pixels, single[i, j])
                                           for i in range(n) for j in range(k))
        except Exception:
            ok = False
        ctx.check(ok, "C13/extract_patches.list-format", "list-differs-from-array",
                  "as_single_array=False does not return the n*k patches of the single array in order",
                  {"kind": "patch", "case": case, "path": "api-slice", "python": patch_python(case)})
        if ok and not results["api-slice"][2]:
            ctx.count("patch-path:api-list")
            lines.append("%s.list list r 0 c %s %s %d %d %s %s" % (
                cid, arr_in(pix), pts_in(centres), ph, pw, "N" if offs is None else pts_in(offs),
                common.fq(np.asarray(case["cval"]).astype(pix.dtype).item())))
            obs[cid + ".list"] = norm_reply("ok %d ; " % len(lst) + " ; ".join(arr_out(x.pixels) for x in lst))
    return obs


def gen_centre(rng, n, ph, cat):
    """one coordinate of a patch centre on an axis of extent n"""
    half = ph // 2
    if cat == "interior":
        lo, hi = half, n - (ph - half)
        if lo > hi:
            return float(n // 2)
        return float(rng.randint(lo, hi))
    if cat == "near":
        return float(rng.choice([0, 1, n - 1, n - 2, n]))
    if cat == "beyond":
        return float(rng.choice([-ph - rng.randint(1, 3), n + ph + rng.randint(0, 3), -1, n + 1]))
    if cat == "frac":
        return rng.randint(-1, n) + rng.choice([0.125, 0.25, 0.375, 0.625, 0.75, 0.875])
    if cat == "tie":
        return rng.randint(-1, n) + 0.5
    raise ValueError(cat)


def gen_cval(rng, dtype):
    if dtype == "bool":
        return rng.choice([0, 1])
    if dtype.startswith("float"):
        return rng.choice([0.0, -1.5, 100.25, 7.0])
    return rng.choice([0, 0, 9, 200])


def gen_patch_case(rng, force_channels=None):
    case = gen_image_params(rng, dims=2)
    if force_channels and case["cls"] != "BooleanImage":
        case["C"] = force_channels
    H, W = case["spatial"] = [rng.randint(4, 9), rng.randint(4, 9)]
    ph, pw = rng.choice([1, 2, 3, 3, 4, 5]), rng.choice([1, 2, 2, 3, 4, 5])
    if rng.random() < 0.15:
        # a patch larger than the image on one or both axes: it overhangs two opposite borders at once, the valid
        # block sits in the middle of the patch (small images, e.g. pyramid tops, meet this)
        H, W = case["spatial"] = [rng.randint(3, 5), rng.randint(3, 5)]
        ph = rng.choice([ph, H + rng.randint(1, 4)])
        pw = rng.choice([pw, W + rng.randint(1, 4)]) if ph <= H or rng.random() < 0.5 else pw
        if ph <= H and pw <= W:
            ph = H + 2
    case["patch_shape"] = [ph, pw]
    kind = rng.choice(["integer"] * 6 + ["frac"] * 3 + ["tie"])
    n = rng.randint(1, 3) if rng.random() > 0.03 else 0     # now and then no centre at all
    centres = []
    for _ in range(n):
        if kind == "integer":
            cat = rng.choice(["interior", "interior", "near", "near", "beyond"])
            centres.append([gen_centre(rng, H, ph, cat), gen_centre(rng, W, pw, rng.choice([cat, "interior", "near"]))])
        elif kind == "frac":
            centres.append([gen_centre(rng, H, ph, rng.choice(["frac", "interior"])), gen_centre(rng, W, pw, "frac")])
        else:
            centres.append([gen_centre(rng, H, ph, "tie"), gen_centre(rng, W, pw, rng.choice(["tie", "interior", "frac"]))])
    case["centres"] = centres
    r = rng.random()
    if r < 0.4:
        case["offsets"] = None
    else:
        case["offsets"] = [[rng.randint(-2, 2), rng.randint(-2, 2)] for _ in range(rng.randint(1, 3))]
        case["offsets_int"] = rng.random() < 0.6
    case["cval"] = gen_cval(rng, case["dtype"])
    paths = ["api-slice", "fn-sample0"]
    if rng.random() < 0.3:
        paths.append("fn-slice")
    # order 1: exact in the model for float pixels anywhere, for integer / boolean pixels at integer locations
    if (case["dtype"] in ("float32", "float64") or kind == "integer") and rng.random() < 0.6:
        paths.append("api-order1")
        if rng.random() < 0.4:
            paths.append("api-order1-nearest")
    if rng.random() < 0.35:
        paths.append("api-nearest")
    if rng.random() < 0.3:
        paths.append("api-lms")
    case["paths"] = paths
    case["as_list"] = rng.random() < 0.3
    if rng.random() < 0.25:
        case["omit"] = True
    return add_previous_life(rng, case)


# ------------------------------------------------------------------------------------------ set_patches

def window(c, o, ph):
    lo = int(c) + int(o) - ph // 2
    return lo, lo + ph


def set_python(case):
    return ("from harness import c13; c13.run_set_case(ctx, case, [], '0')  # extract at case['centres'], damage the "
            "windows, set_patches(offset=case['offsets'][oi], offset_index=oi) must restore the image")


def frac_part(x):
    return Fraction(x) - math.floor(Fraction(x))


def round_half_even(x):
    x = Fraction(x)
    f, d = math.floor(x), x - math.floor(x)
    return f if d < HALF else f + 1 if d > HALF else (f if f % 2 == 0 else f + 1)


def trunc_agrees(x):
    """int(x) == np.round(x) away from ties (theorem truncZ_eq_round_iff)"""
    x = Fraction(x)
    d = frac_part(x)
    return (x >= 0 and d < HALF) or (x < 0 and (d == 0 or d > HALF))


def run_set_case(ctx, case, lines, cid):
    np = np_()
    from menpo.shape import PointCloud
    try:
        img, centres, offs, offs_arr = patch_inputs(case)
    except Exception as e:
        previous_life_failed(ctx, case, e, {"kind": "set", "case": case, "python": set_python(case)})
        return {}
    pix = img.pixels
    C, H, W = pix.shape
    ph, pw = case["patch_shape"]
    oi = case["oi"]
    offs_eff = offs if offs is not None else [[0, 0]]
    off = offs_eff[oi]
    rp = {"kind": "set", "case": case, "python": set_python(case)}
    pc = PointCloud(np.array(centres, dtype=float).reshape(-1, 2))
    integer = all(float(x).is_integer() for c in centres for x in c)
    route = case.get("route", "centres")     # 'landmarks': the *_around_landmarks pair of entry points
    # windows extraction reads and set_patches writes (both np.round), by the oracle's own arithmetic
    xs = [(Fraction(c[0]) + off[0], Fraction(c[1]) + off[1]) for c in centres]
    ties = any(frac_part(x) == HALF for xy in xs for x in xy)
    rd = [((round_half_even(x) - ph // 2, round_half_even(x) - ph // 2 + ph),
           (round_half_even(y) - pw // 2, round_half_even(y) - pw // 2 + pw)) for x, y in xs]
    wins = rd if not ties else None     # the windows extraction reads; they are what gets damaged below
    inside = all(0 <= r0 and r1 <= H and 0 <= c0 and c1 <= W for (r0, r1), (c0, c1) in rd)
    interior = integer and inside
    agree = all(trunc_agrees(x) and trunc_agrees(y) for x, y in xs)
    ctx.count("set:" + ("integer-interior" if interior else "integer-border" if integer else "fractional"))
    ctx.count("set-route:" + route + ("/list" if case.get("as_list") else "/array"))
    if case.get("pre"):
        ctx.count("previous-life:" + case["pre"]["kind"])
    obs = {}

    def extract(single):
        if route == "landmarks":
            work = img.copy()
            work.landmarks["centres"] = pc
            return work.extract_patches_around_landmarks(group="centres", patch_shape=(ph, pw),
                                                         sample_offsets=offs_arr, as_single_array=single)
        return img.extract_patches(pc, patch_shape=(ph, pw), sample_offsets=offs_arr, as_single_array=single,
                                   cval=float(case["cval"]))

    try:
        patches = extract(True)
    except Exception as e:
        ctx.fail("C13/extract_patches.slicing.shape", "raises-at-rounding-tie" if ties else "raises-" + type(e).__name__,
                 "extraction before the round trip raised %s" % type(e).__name__, rp)
        return obs
    # damage the windows (so that a set_patches that writes nothing, or elsewhere, is seen)
    damaged = img.copy()
    if wins is not None:
        for (r0, r1), (c0, c1) in wins:
            damaged.pixels[:, max(r0, 0):max(r1, 0), max(c0, 0):max(c1, 0)] = (
                np.asarray(1 if pix.dtype == bool else 250).astype(pix.dtype))
    else:
        for c in centres:
            fr, fc = math.floor(c[0] + off[0]), math.floor(c[1] + off[1])
            damaged.pixels[:, max(fr - ph, 0):fr + ph + 1, max(fc - pw, 0):fc + pw + 1] = (
                np.asarray(1 if pix.dtype == bool else 250).astype(pix.dtype))
    dam_px = damaged.pixels.copy()
    kw = {}
    if offs is not None or case.get("explicit_offset"):
        kw["offset"] = (tuple(int(x) for x in off) if case.get("offset_form", "tuple") == "tuple"
                        else np.array([[int(off[0]), int(off[1])]]))
        kw["offset_index"] = oi
    arg = patches
    if case.get("as_list"):
        arg = extract(False)
    try:
        if route == "landmarks":
            damaged.landmarks["centres"] = pc
            back = damaged.set_patches_around_landmarks(arg, group="centres", **kw)
        else:
            back = damaged.set_patches(arg, pc, **kw)
        err = None
    except Exception as e:
        back, err = None, e
    failed = False
    if interior:
        if err is not None:
            failed = True
            ctx.fail("C13/set_patches.roundtrip", "raises-" + type(err).__name__,
                     "writing back interior patches raised %s: %s" % (type(err).__name__, str(err)[:100]), rp)
        else:
            if back.pixels.shape != pix.shape or not np.array_equal(back.pixels, pix) or back.pixels.dtype != pix.dtype:
                failed = True
                bad = np.argwhere(back.pixels != pix) if back.pixels.shape == pix.shape else []
                ctx.fail("C13/set_patches.roundtrip", "image-not-restored",
                         "patches extracted at interior integer centres %s (offset %s) and written back do not "
                         "restore the image (%d pixels differ, first at %s)" % (
                             centres, off, len(bad), bad[0].tolist() if len(bad) else None), rp)
            if type(back) is not type(img):
                ctx.mismatch("set-class", "set_patches on %s returned %s" % (type(img).__name__, type(back).__name__),
                             dict(rp, op="set-class"))
            if not np.array_equal(damaged.pixels, dam_px):
                ctx.mismatch("set-receiver", "set_patches modified the image it was called on", dict(rp, op="set-receiver"))
    elif not integer and not ties and err is None and back is not None:
        # fractional centres away from ties (decision in INFO['partial']): judged - the windows extraction read must be
        # the windows set_patches writes (both round); counted by whether int() would have agreed
        restored = bool(np.array_equal(back.pixels, pix))
        ctx.count("note:roundtrip-fractional-%s-%s" % ("agree" if agree else "disagree",
                                                       "restored" if restored else "not-restored"))
        if inside and not restored:
            # integrator's decision: "writing extracted interior patches back restores the image" is not restricted
            # to whole-pixel centres by the property text; /repo was repaired (set_patches rounds like extraction)
            failed = True
            ctx.fail("C13/set_patches.roundtrip", "fractional-centre-not-restored",
                     "patches extracted at interior sub-pixel centres %s (offset %s, away from rounding ties) and written "
                     "back do not restore the image: set_patches and extract_patches address different windows" % (
                         centres, off), rp)
    if not failed:
        pat = ("L %d %s" % (len(arg), " ".join(arr_in(x.pixels) for x in arg))) if case.get("as_list") \
            else "A " + arr_in(patches)
        off_s = "%d %d" % (int(off[0]), int(off[1])) if "offset" in kw else "N"
        oi_s = "%d" % oi if "offset_index" in kw else "N"
        # the model places patches as the tree does since fix 5b997e6 (np.round: variant `r`, the one the translated
        # set_patches is proved equal to)
        lines.append("%s.set setapi r %s %s %s %s %s" % (cid, pat, arr_in(dam_px), pts_in(centres), off_s, oi_s))
        obs[cid + ".set"] = ("err " + err_kind(err)) if err is not None else norm_reply("ok " + arr_out(back.pixels))
    return obs


def gen_set_case(rng):
    case = gen_image_params(rng, dims=2)
    H, W = case["spatial"] = [rng.randint(5, 9), rng.randint(5, 9)]
    ph, pw = rng.choice([1, 2, 3, 3, 4, 5]), rng.choice([1, 2, 3, 4])
    case["patch_shape"] = [ph, pw]
    if rng.random() < 0.5:
        case["offsets"] = None
        off = [0, 0]
        case["oi"] = 0
        case["explicit_offset"] = rng.random() < 0.3
    else:
        case["offsets"] = [[rng.randint(-1, 1), rng.randint(-1, 1)] for _ in range(rng.randint(1, 3))]
        case["offsets_int"] = True
        case["oi"] = rng.randrange(len(case["offsets"]))
        off = case["offsets"][case["oi"]]
    case["offset_form"] = rng.choice(["tuple", "array"])
    kind = rng.choice(["interior"] * 7 + ["border", "frac", "frac"])
    # fractional centres: all on the side where int() and np.round agree, all on the other side, or mixed
    fkind = rng.choice(["agree", "disagree", "mixed"])
    fr_r = {"agree": [0.125, 0.25, 0.375], "disagree": [0.625, 0.75, 0.875], "mixed": [0.25, 0.625, 0.75]}[fkind]
    fr_c = {"agree": [0.0, 0.25, 0.375], "disagree": [0.0, 0.625, 0.875], "mixed": [0.0, 0.375, 0.875]}[fkind]
    centres = []
    for _ in range(rng.randint(1, 3)):
        if kind == "interior":
            centres.append([gen_centre(rng, H, ph, "interior") - off[0], gen_centre(rng, W, pw, "interior") - off[1]])
        elif kind == "border":
            centres.append([gen_centre(rng, H, ph, "near"), gen_centre(rng, W, pw, rng.choice(["near", "interior"]))])
        else:
            centres.append([gen_centre(rng, H, ph, "interior") - off[0] + rng.choice(fr_r),
                            gen_centre(rng, W, pw, "interior") - off[1] + rng.choice(fr_c)])
    case["centres"] = centres
    case["cval"] = gen_cval(rng, case["dtype"])
    case["as_list"] = rng.random() < 0.25
    if rng.random() < 0.3:       # extract_patches_around_landmarks / set_patches_around_landmarks (fill value 0)
        case["route"] = "landmarks"
        case["cval"] = 0
    return add_previous_life(rng, case)


# ------------------------------------------------------------------------------------------ driving

RUNNERS = {"crop": run_crop_case, "patch": run_patch_case, "set": run_set_case}


def signature(kind, case):
    return (kind, json.dumps(case, sort_keys=True, default=str))


def nontrivial(kind, case):
    if kind == "crop":
        return case.get("how", "crop") != "crop" or case.get("cats") != ["whole"] * len(case["spatial"])
    return len(case["centres"]) > 0 and case["patch_shape"][0] * case["patch_shape"][1] > 1


def generate(rng, i):
    r = i % 20
    if r < 7:
        return "crop", gen_crop_case(rng)
    if r < 10:
        return "crop", gen_derived_crop_case(rng)
    if r < 17:
        return "patch", gen_patch_case(rng, force_channels=(1 + (i // 20) % 5) if r < 15 else None)
    return "set", gen_set_case(rng)


def search(ctx):
    """directed search after a broken tie: many more cases through the oracle only (no model), every crop
    side on every axis, every channel count on every patch path"""
    rng = ctx.rng
    for i in range(ctx.n(4000, 12000)):
        kind, case = generate(rng, i)
        RUNNERS[kind](ctx, case, [], "s%d" % i)
        ctx.searched += 1
        if ctx.failures:
            return True
    return False


def compare(ctx, model, obs, cases):
    decisive = {"coded": 0, "repaired": 0, "neither": 0}
    for key, impl in obs.items():
        cid = key.split(".")[0]
        kind, case = cases[cid]
        if key.endswith(".decision"):
            bc, br = model.get(cid + ".bc", ""), model.get(cid + ".br", "")
            mc = "ok" if bc.startswith("ok") else bc
            mr = "ok" if br.startswith("ok") else br
            if mc != mr:
                decisive["coded" if impl == mc else "repaired" if impl == mr else "neither"] += 1
            continue
        if impl.startswith("?variant"):
            if model.get(key, "").startswith("err"):
                ctx.count("note:sampling-path-matches-coded-reshape")
            continue
        got = norm_reply(model.get(key, "<no reply>"))
        if got != impl:
            ctx.mismatch(key.split(".", 1)[1] if "." in key else key,
                         "model %r vs implementation %r" % (got[:160], impl[:160]),
                         {"kind": kind, "case": case, "op": key})
    ctx.notes["crop_decision_discriminating_cases"] = decisive
    if decisive["coded"] or decisive["repaired"]:
        ctx.notes["crop_decision_variant_observed"] = (
            "coded (or)" if decisive["coded"] and not decisive["repaired"] else
            "repaired (and)" if decisive["repaired"] and not decisive["coded"] else "mixed")


def corpus(ctx, lines, obs, cases):
    """minimised past failures (replays/corpus/C13-*.json) are re-run first on every check"""
    for j, path in enumerate(sorted(glob.glob(os.path.join(common.ROOT, "replays", "corpus", "C13-*.json")))):
        try:
            rp = json.load(open(path))["replay"]
            kind, case = rp["kind"], rp["case"]
        except (OSError, ValueError, KeyError):
            continue
        if kind not in RUNNERS:
            continue
        cid = "c%d" % j
        cases[cid] = (kind, case)
        obs.update(RUNNERS[kind](ctx, case, lines, cid))
        ctx.count("corpus-replay")
        ctx.case(("corpus", os.path.basename(path)), nontrivial=True)


def generated(ctx):
    """regenerate the entry-point table from the live classes and re-check its obligations (DESIGN 2.3b); translate
    the crop / patch functions from the source text of the working tree and re-check `translated = model`.
    One lake invocation when everything checks (the usual case); when it does not, the two groups are built
    separately so that the broken obligation names the group that broke."""
    files, reasons = trans_c13.generated_files()
    both = dict(extract_c13.lean_files())
    both.update(files)
    n_src = len(SRC_THEOREMS)
    probe = types.SimpleNamespace(gen_obligations=0, broken_obligations=[], notes=ctx.notes)
    ok_all = common.build_generated(probe, both, extract_c13.TARGETS + trans_c13.GEN_TARGETS, 0)
    if ok_all:
        ctx.gen_obligations += extract_c13.N_OBLIGATIONS + n_src
        ok = ok2 = True
    else:
        ok = common.build_generated(ctx, {}, extract_c13.TARGETS, extract_c13.N_OBLIGATIONS)
        ok2 = common.build_generated(ctx, {}, trans_c13.GEN_TARGETS, n_src)
        if reasons and not ok2:
            ctx.broken_obligations[-1]["untranslatable"] = reasons
    ctx.count("entry-point-table:" + ("ok" if ok else "BROKEN"))
    ctx.notes["entry_point_rows"] = len(extract_c13.table())
    ctx.count("source-translation:" + ("ok" if ok2 else "BROKEN"))
    ctx.notes["source_translation"] = {"functions_translated": len(SRC_GEN), "untranslatable": reasons,
                                       "obligations": n_src}


def prepare(ctx):
    """regenerate the table and its obligations, build, audit.  When the regenerated obligations no longer check
    (recorded in ctx.broken_obligations: a finding about /repo, not an infrastructure error) the audit covers the
    hand-written theorems only, since GenProps/C13.olean does not exist then."""
    generated(ctx)
    broken = {t for b in ctx.broken_obligations for t in b.get("targets", [])}
    imports, theorems = list(IMPORTS), list(THEOREMS)
    if "MenpoModel.GenProps.C13" in broken:
        imports.remove("MenpoModel.GenProps.C13")
        theorems = [t for t in theorems if t.rsplit(".", 1)[1] not in
                    ("entries_ok", "kernels_shared", "defaults_ok", "around_landmarks_params")]
    if "MenpoModel.GenProps.C13Src" in broken:
        imports.remove("MenpoModel.GenProps.C13Src")
        theorems = [t for t in theorems if t not in SRC_THEOREMS]
    common.prepare_lean(ctx, PROP, imports, theorems)


def run(ctx):
    prepare(ctx)
    ctx.trusted.extend([
        "numpy basic slicing / assignment broadcasting, np.round half-to-even, np.clip, reshape, transpose "
        "(modelled in Core/C13NDArr.lean, Core/C13Crop.lean; exercised bit-for-bit by the correspondence)",
        "scipy.ndimage.map_coordinates: contract parameter of sampling_patch_layout; order-0 constant-mode model "
        "(outside iff a coordinate < 0 or > n-1, else floor(x + 1/2)) and order-1 model (multilinear, 'nearest' = "
        "clamp) checked against scipy on every run; the sampler theorems are about these models",
        "inspect.signature / class MRO as read by harness/extract_c13.py (regenerated entry-point table)",
        "harness/py2lean2.py + harness/trans_c13.py (translator, its normalisations and inlining) and the rule table / "
        "vocabulary Core/C13Src.lean part 1 (value semantics: `.copy()` is the identity, dtype arguments dropped)"])
    rng = ctx.rng
    n = ctx.n(2000, 24000)
    lines, obs, cases = [], {}, {}
    corpus(ctx, lines, obs, cases)
    for i in range(n):
        kind, case = generate(rng, i)
        cid = "k%d" % i
        cases[cid] = (kind, case)
        o = RUNNERS[kind](ctx, case, lines, cid)
        obs.update(o)
        ctx.case(signature(kind, case), nontrivial=nontrivial(kind, case),
                 sample={"kind": kind, "case": case})
    model = common.run_driver(PROP, lines) if lines else {}
    compare(ctx, model, obs, cases)
    return ctx.finish(search)


def replay(ctx, path):
    data = json.load(open(path))
    rp = data.get("replay") or (data.get("broken_correspondence") or [{}])[0].get("case", {})
    kind, case = rp.get("kind"), rp.get("case")
    if kind not in RUNNERS:
        print("replay file carries no case")
        return 2
    if rp.get("path"):
        case = dict(case, paths=[rp["path"]] + (["fn-sample0"] if rp["path"] != "fn-sample0" else []))
    prepare(ctx)
    lines = []
    obs = RUNNERS[kind](ctx, case, lines, "k0")
    ctx.case(signature(kind, case), nontrivial=True, sample={"kind": kind, "case": case})
    ctx.case(("replay", kind), nontrivial=True)
    model = common.run_driver(PROP, lines) if lines else {}
    for key in sorted(obs):
        print("implementation %-22s %s" % (key, obs[key][:300]))
        if key in model:
            print("model          %-22s %s" % (key, model[key][:300]))
    compare(ctx, model, obs, {"k0": (kind, case)})
    return ctx.finish(None)
