"""py2lean2 — the second-generation source-to-Lean translator (superset of harness/py2lean.py, which C03 keeps using).

Same idea: read the SOURCE TEXT of a live menpo function of the current working tree (`inspect.getsource` + `ast`),
rewrite it statement by statement into a Lean 4 term over the vocabulary of a hand-written Core model, write the
result under `lean/MenpoModel/Generated/`, and let a `GenProps` theorem state `translated = Core definition` for
all arguments, re-checked by `lake build` on every run.

New here, compared with py2lean (all generic, i.e. independent of any property):

  statements
    for <target> in <iter>: <body>      ->  List.foldl over the *loop-carried* variables (names assigned in the body
                                            that exist before the loop), nested pairs, read with projections so that
                                            `simp` can unfold them; `continue` = end of the body; `break` and
                                            `return` / `raise` inside the body are carried as a flag / an
                                            `Option result` first component, and iterations after the exit are
                                            the identity;  loops nest.
    x op= e                             ->  x = x op e
    a, b = e                            ->  let p := e; let a := p.1; let b := p.2   (any arity, nested pairs)
    assert c                            ->  if not c: raise
    if without else, early return       ->  (as before) the continuation is copied into both arms
  expressions
    a if c else b                       ->  (if c then a else b)
    [E for t in IT if C]                ->  List.filterMap / List.map         (one generator, name or tuple target)
    any(E for ..) / all(E for ..)       ->  List.any / List.all
    a + b, a - b, a * b, -a             ->  by `Rules.binop` (defaults for + - *; // and % only if the rules say how,
                                            because Python's floor division differs from Lean's on negative divisors)
    (a, b)  [a, b]                      ->  Lean tuple / list literal
  A rule (python pattern -> Lean template) always wins over a generic form.

What a function falling off its end means is chosen by the caller (`Rules.end`: template, default: untranslatable).
`Untranslatable` must be turned into a *broken obligation* by the caller (`stub_on_failure`), never into a crash.
"""
import ast

from .py2lean import Untranslatable, source_ast, match, _pat, CMP  # noqa: F401  (re-exported)

BINOP_DEFAULT = {ast.Add: "({a} + {b})", ast.Sub: "({a} - {b})", ast.Mult: "({a} * {b})"}


class Rules2:
    """expr rules: (python pattern, lean template[, "bind"]);  stmt rules: (python pattern, receiver metavariable,
    lean template of the receiver's new value).  `names`: python global / parameter name -> lean term.
    `ret`: template applied to a returned expression;  `raise_`: the value of a `raise`;
    `raise_by`: {exception class name: value} (overrides raise_ when the raised class is listed);
    `end`: value when control falls off the end of the function (None = untranslatable);
    `binop`: {ast operator class: template with {a} {b}}."""

    def __init__(self, expr=(), stmt=(), names=None, ret="{e}", raise_="none", raise_by=None, end=None, binop=None,
                 bind=None):
        self.expr = [(_pat(p, "expr"), t, (fl[0] if fl else "")) for p, t, *fl in expr]
        self.stmt = [(_pat(p, "stmt"), recv, t) for p, recv, t in stmt]
        self.names = dict(names or {})
        self.ret = ret
        self.raise_ = raise_
        self.raise_by = dict(raise_by or {})
        self.end = end
        self.binop = dict(BINOP_DEFAULT)
        self.binop.update(binop or {})
        self.bind = bind or "({m}).bind fun {x} =>\n{k}"


class _Ctx:
    """what `return`, `raise`, `break`, `continue` and falling off the end mean at the current nesting level"""

    def __init__(self, exit_, end, brk=None):
        self.exit = exit_      # (formatted value, scope, ind) -> text
        self.end = end         # (scope, ind) -> text
        self.brk = brk         # (scope, ind) -> text, or None outside loops


def _proj(acc, i, n):
    if n == 1:
        return acc
    if i < n - 1:
        return "%s%s.1" % (acc, ".2" * i)
    return "%s%s" % (acc, ".2" * (n - 1))


def _tuple(parts):
    if len(parts) == 1:
        return parts[0]
    return "(" + ", ".join(parts) + ")"


class Translator2:
    def __init__(self, rules):
        self.r = rules
        self.used_rules = set()

    # ------------------------------------------------------------------------------------------ expressions
    def expr(self, node, scope):
        for i, (pat, tmpl, flag) in enumerate(self.r.expr):
            env = {}
            if match(pat, node, env):
                self.used_rules.add(i)
                return tmpl.format(**{k: self.pure(v, scope) for k, v in env.items()}), flag
        if isinstance(node, ast.Name):
            if node.id in scope:
                return scope[node.id], ""
            if node.id in self.r.names:
                return self.r.names[node.id], ""
            raise Untranslatable("unknown name %r" % node.id)
        if isinstance(node, ast.BoolOp):
            op = " && " if isinstance(node.op, ast.And) else " || "
            return "(" + op.join(self.pure(v, scope) for v in node.values) + ")", ""
        if isinstance(node, ast.UnaryOp) and isinstance(node.op, ast.Not):
            return "(!" + self.pure(node.operand, scope) + ")", ""
        if isinstance(node, ast.UnaryOp) and isinstance(node.op, ast.USub):
            return "(-" + self.pure(node.operand, scope) + ")", ""
        if isinstance(node, ast.BinOp):
            t = self.r.binop.get(type(node.op))
            if t is None:
                raise Untranslatable("no rule for operator in `%s`" % ast.unparse(node))
            return t.format(a=self.pure(node.left, scope), b=self.pure(node.right, scope)), ""
        if isinstance(node, ast.Compare):
            parts, left = [], node.left
            for op, right in zip(node.ops, node.comparators):
                if type(op) not in CMP:
                    raise Untranslatable("comparison " + ast.dump(op))
                a, b = self.pure(left, scope), self.pure(right, scope)
                parts.append("decide (%s %s %s)" % (a, CMP[type(op)], b) if type(op) not in (ast.Eq, ast.NotEq)
                             else "(%s %s %s)" % (a, CMP[type(op)], b))
                left = right
            return "(" + " && ".join(parts) + ")", ""
        if isinstance(node, ast.IfExp):
            return "(if %s then %s else %s)" % (self.pure(node.test, scope), self.pure(node.body, scope),
                                                self.pure(node.orelse, scope)), ""
        if isinstance(node, ast.Tuple):
            return "(" + ", ".join(self.pure(e, scope) for e in node.elts) + ")", ""
        if isinstance(node, ast.List):
            return "[" + ", ".join(self.pure(e, scope) for e in node.elts) + "]", ""
        if isinstance(node, ast.ListComp):
            return self.comprehension(node, scope, "list"), ""
        if isinstance(node, ast.Call) and isinstance(node.func, ast.Name) and node.func.id in ("any", "all") \
                and len(node.args) == 1 and not node.keywords and isinstance(node.args[0], (ast.GeneratorExp, ast.ListComp)):
            return self.comprehension(node.args[0], scope, node.func.id), ""
        if isinstance(node, ast.Constant):
            if node.value is True:
                return "true", ""
            if node.value is False:
                return "false", ""
            if node.value is None:
                return "none", ""
            if isinstance(node.value, int):
                return "(%d)" % node.value, ""
        raise Untranslatable("no rule for expression `%s`" % ast.unparse(node))

    def pure(self, node, scope):
        e, flag = self.expr(node, scope)
        if flag == "bind":
            raise Untranslatable("monadic expression used as a pure operand: `%s`" % ast.unparse(node))
        return e

    def bind_target(self, target, value, scope):
        """([let lines], new scope) binding a Name / Tuple-of-Names target to the lean term `value`"""
        sc = dict(scope)
        if isinstance(target, ast.Name):
            new = self.fresh(target.id, sc)
            sc[target.id] = new
            return ["let %s := %s" % (new, value)], sc
        if isinstance(target, (ast.Tuple, ast.List)) and all(isinstance(e, ast.Name) for e in target.elts):
            p = self.fresh("p", sc)
            sc["\0tmp" + p] = p
            lines = ["let %s := %s" % (p, value)]
            n = len(target.elts)
            for i, e in enumerate(target.elts):
                new = self.fresh(e.id, sc)
                sc[e.id] = new
                lines.append("let %s := %s" % (new, _proj(p, i, n)))
            return lines, sc
        raise Untranslatable("assignment target `%s`" % ast.unparse(target))

    def comprehension(self, node, scope, kind):
        if len(node.generators) != 1 or node.generators[0].is_async:
            raise Untranslatable("comprehension with several generators: `%s`" % ast.unparse(node))
        g = node.generators[0]
        it = self.pure(g.iter, scope)
        item = self.fresh("it", scope)
        sc = dict(scope)
        sc["\0tmp" + item] = item
        lines, sc = self.bind_target(g.target, item, sc)
        lets = "; ".join(lines) + "; "
        cond = " && ".join(self.pure(c, sc) for c in g.ifs) if g.ifs else None
        body = self.pure(node.elt, sc)
        if kind == "list":
            if cond is None:
                return "(List.map (fun %s => %s%s) %s)" % (item, lets, body, it)
            return "(List.filterMap (fun %s => %sif %s then some (%s) else none) %s)" % (item, lets, cond, body, it)
        src = it if cond is None else "(List.filter (fun %s => %s%s) %s)" % (item, lets, cond, it)
        return "(List.%s %s (fun %s => %s%s))" % (kind, src, item, lets, body)

    # ------------------------------------------------------------------------------------------ statements
    def assigned_names(self, stmts):
        """names (re)bound by the statements, in order of first appearance (loop bodies, if arms included)"""
        out = []

        def add(n):
            if n not in out:
                out.append(n)

        def tgt(t):
            if isinstance(t, ast.Name):
                add(t.id)
            elif isinstance(t, (ast.Tuple, ast.List)):
                for e in t.elts:
                    tgt(e)

        def walk(sts):
            for st in sts:
                matched = False
                for pat, recv, _t in self.r.stmt:
                    env = {}
                    if match(pat, st, env):
                        if isinstance(env[recv], ast.Name):
                            add(env[recv].id)
                        matched = True
                        break
                if matched:
                    continue
                if isinstance(st, ast.Assign):
                    for t in st.targets:
                        tgt(t)
                elif isinstance(st, ast.AugAssign):
                    tgt(st.target)
                elif isinstance(st, ast.If):
                    walk(st.body)
                    walk(st.orelse)
                elif isinstance(st, ast.For):
                    tgt(st.target)
                    walk(st.body)
                elif isinstance(st, (ast.While, ast.With, ast.Try, ast.FunctionDef, ast.ClassDef)):
                    raise Untranslatable("statement form `%s`" % ast.unparse(st).splitlines()[0])
        walk(stmts)
        return out

    @staticmethod
    def _has(stmts, kinds, into_loops):
        for st in stmts:
            if isinstance(st, kinds):
                return True
            if isinstance(st, ast.If) and (Translator2._has(st.body, kinds, into_loops) or
                                           Translator2._has(st.orelse, kinds, into_loops)):
                return True
            if isinstance(st, ast.For) and into_loops and Translator2._has(st.body, kinds, into_loops):
                return True
        return False

    def raise_value(self, st):
        exc = st.exc
        name = None
        if isinstance(exc, ast.Call):
            exc = exc.func
        if isinstance(exc, ast.Name):
            name = exc.id
        elif isinstance(exc, ast.Attribute):
            name = exc.attr
        if name in self.r.raise_by:
            return self.r.raise_by[name]
        if self.r.raise_by and "*" not in self.r.raise_by and name is not None and self.r.raise_ is None:
            raise Untranslatable("raise of %r" % name)
        return self.r.raise_by.get("*", self.r.raise_)

    def block(self, stmts, scope, ind, ctx):
        pad = "  " * ind
        if not stmts:
            return ctx.end(scope, ind)
        st, rest = stmts[0], stmts[1:]
        if isinstance(st, ast.Expr) and isinstance(st.value, ast.Constant) and isinstance(st.value.value, str):
            return self.block(rest, scope, ind, ctx)
        if isinstance(st, ast.Pass):
            return self.block(rest, scope, ind, ctx)
        if isinstance(st, ast.If):
            c = self.pure(st.test, scope)
            a = self.block(list(st.body) + rest, dict(scope), ind + 1, ctx)
            b = self.block(list(st.orelse) + rest, dict(scope), ind + 1, ctx)
            return "%sif %s then\n%s\n%selse\n%s" % (pad, c, a, pad, b)
        if isinstance(st, ast.Assert):
            c = self.pure(st.test, scope)
            a = self.block(rest, dict(scope), ind + 1, ctx)
            b = ctx.exit(self.r.raise_by.get("AssertionError", self.r.raise_), scope, ind + 1)
            return "%sif %s then\n%s\n%selse\n%s" % (pad, c, a, pad, b)
        if isinstance(st, ast.Return):
            if st.value is None:
                if self.r.end is None:
                    raise Untranslatable("bare return")
                return ctx.exit(self.r.end, scope, ind)
            e, flag = self.expr(st.value, scope)
            return ctx.exit(e if flag == "bind" else self.r.ret.format(e=e), scope, ind)
        if isinstance(st, ast.Raise):
            return ctx.exit(self.raise_value(st), scope, ind)
        if isinstance(st, ast.Continue):
            if ctx.brk is None:
                raise Untranslatable("continue outside a loop")
            return ctx.end(scope, ind)
        if isinstance(st, ast.Break):
            if ctx.brk is None:
                raise Untranslatable("break outside a loop")
            return ctx.brk(scope, ind)
        for i, (pat, recv, tmpl) in enumerate(self.r.stmt):
            env = {}
            if match(pat, st, env):
                self.used_rules.add(("s", i))
                target = env[recv]
                if not isinstance(target, ast.Name):
                    raise Untranslatable("in-place statement on a non-variable: `%s`" % ast.unparse(st))
                val = tmpl.format(**{k: self.pure(v, scope) for k, v in env.items()})
                new = self.fresh(target.id, scope)
                sc = dict(scope)
                sc[target.id] = new
                return "%slet %s := %s\n%s" % (pad, new, val, self.block(rest, sc, ind, ctx))
        if isinstance(st, ast.AugAssign) and isinstance(st.target, ast.Name):
            st = ast.Assign(targets=[ast.Name(id=st.target.id, ctx=ast.Store())],
                            value=ast.BinOp(left=ast.Name(id=st.target.id, ctx=ast.Load()), op=st.op, right=st.value))
        if isinstance(st, ast.Assign) and len(st.targets) == 1:
            e, flag = self.expr(st.value, scope)
            if flag == "bind":
                if not isinstance(st.targets[0], ast.Name):
                    raise Untranslatable("monadic value bound to a pattern: `%s`" % ast.unparse(st))
                new = self.fresh(st.targets[0].id, scope)
                sc = dict(scope)
                sc[st.targets[0].id] = new
                return pad + self.r.bind.format(m=e, x=new, k=self.block(rest, sc, ind + 1, ctx))
            lines, sc = self.bind_target(st.targets[0], e, scope)
            return "".join(pad + l + "\n" for l in lines) + self.block(rest, sc, ind, ctx)
        if isinstance(st, ast.For):
            return self.loop(st, rest, scope, ind, ctx)
        raise Untranslatable("no rule for statement `%s`" % ast.unparse(st).splitlines()[0])

    def loop(self, st, rest, scope, ind, ctx):
        pad = "  " * ind
        if st.orelse:
            raise Untranslatable("for/else")
        it = self.pure(st.iter, scope)
        carried = [n for n in self.assigned_names(st.body) if n in scope]
        has_exit = self._has(st.body, (ast.Return, ast.Raise, ast.Assert), True)
        has_brk = self._has(st.body, (ast.Break,), False)
        comps = (["\0ret"] if has_exit else []) + (["\0brk"] if has_brk else []) + carried
        if not comps:
            raise Untranslatable("loop without any effect on the variables in scope: `%s`" % ast.unparse(st).splitlines()[0])
        n = len(comps)
        sc0 = dict(scope)
        acc = self.fresh("acc", sc0)
        sc0["\0tmp" + acc] = acc
        item = self.fresh("it", sc0)
        sc0["\0tmp" + item] = item
        # body scope: carried variables are read from the accumulator
        lines, sc = [], dict(sc0)
        for c in carried:
            new = self.fresh(c, sc)
            sc[c] = new
            lines.append("let %s := %s" % (new, _proj(acc, comps.index(c), n)))
        tl, sc = self.bind_target(st.target, item, sc)
        lines += tl

        def state(scope_, ret="none", brk="false"):
            parts = []
            if has_exit:
                parts.append(ret)
            if has_brk:
                parts.append(brk)
            parts += [scope_[c] for c in carried]
            return _tuple(parts)

        inner = _Ctx(exit_=lambda v, s, i: "  " * i + state(s, ret="some (%s)" % v),
                     end=lambda s, i: "  " * i + state(s),
                     brk=lambda s, i: "  " * i + state(s, brk="true"))
        body = self.block(list(st.body), sc, ind + 2, inner)
        p3 = "  " * (ind + 2)
        guard = []
        if has_exit:
            guard.append("(%s).isSome" % _proj(acc, 0, n))
        if has_brk:
            guard.append(_proj(acc, 1 if has_exit else 0, n))
        text = "".join(p3 + l + "\n" for l in lines) + body
        if guard:
            text = "%sif %s then %s else\n%s" % (p3, " || ".join(guard), acc, text)
        res = self.fresh("r", sc0)
        after = dict(scope)
        after["\0tmp" + res] = res
        out = "%slet %s := MenpoModel.Py.forLoop %s (%s) (fun %s %s =>\n%s)\n" % (pad, res, state(scope), it, acc, item, text)
        for c in carried:
            new = self.fresh(c, after)
            after[c] = new
            out += "%slet %s := %s\n" % (pad, new, _proj(res, comps.index(c), n))
        k = self.block(rest, after, ind + (1 if has_exit else 0), ctx)
        if has_exit:
            v = self.fresh("v", after)
            sc_v = dict(after)
            sc_v["\0tmp" + v] = v
            return "%s%smatch %s with\n%s| some %s =>\n%s\n%s| none =>\n%s" % (
                out, pad, _proj(res, 0, n), pad, v, ctx.exit(v, sc_v, ind + 2), pad, k)
        return out + k

    @staticmethod
    def fresh(name, scope):
        base = name.replace("_", "")
        used = set(scope.values())
        k, cand = 0, base + "0"
        while cand in used:
            k += 1
            cand = "%s%d" % (base, k)
        return cand

    def top_ctx(self):
        def end(scope, ind):
            if self.r.end is None:
                raise Untranslatable("control reaches the end of the function without return/raise")
            return "  " * ind + self.r.end
        return _Ctx(exit_=lambda v, s, i: "  " * i + v, end=end)

    def function(self, fn, arg_names, ind=2, allow_unused=()):
        """Lean term for the body of `fn`.  `arg_names`: python parameter -> lean term; every parameter of the
        function must be listed (a changed signature is untranslatable) except those in `allow_unused` that the
        body never mentions."""
        node, _src = source_ast(fn)
        a = node.args
        params = [x.arg for x in a.posonlyargs + a.args + a.kwonlyargs]
        if a.vararg:
            params.append(a.vararg.arg)
        if a.kwarg:
            params.append(a.kwarg.arg)
        mentioned = {n.id for st in node.body for n in ast.walk(st) if isinstance(n, ast.Name)}
        for p in params:
            if p not in arg_names and not (p in allow_unused and p not in mentioned):
                raise Untranslatable("signature of %s changed: %s" % (node.name, ast.unparse(node.args)))
        return self.block(list(node.body), dict(arg_names), ind, self.top_ctx())

    def defaults(self, fn):
        """{parameter: source text of its default} — for obligations about default options"""
        node, _src = source_ast(fn)
        a = node.args
        pos = a.posonlyargs + a.args
        out = {}
        for p, d in zip(pos[len(pos) - len(a.defaults):], a.defaults):
            out[p.arg] = ast.unparse(d)
        for p, d in zip(a.kwonlyargs, a.kw_defaults):
            if d is not None:
                out[p.arg] = ast.unparse(d)
        return out


def translate_or_stub(items, header, footer=""):
    """items: list of (lean signature line ending in `:=`, thunk returning the body text, stub body).
    Returns (file text, [reasons]).  An untranslatable function gets its stub body (chosen by the caller so that
    the equality obligation cannot be proved) and the reason is reported."""
    out, reasons = [header], []
    for sig, thunk, stub in items:
        try:
            body = thunk()
        except Untranslatable as e:
            reasons.append("%s: %s" % (sig.split()[1] if len(sig.split()) > 1 else sig, e))
            body = "  /- UNTRANSLATABLE: %s -/\n  %s" % (str(e).replace("-/", "- /"), stub)
        out.append(sig + "\n" + body + "\n")
    out.append(footer)
    return "\n".join(out), reasons
