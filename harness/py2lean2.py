"""py2lean2 — the second-generation source-to-Lean translator (superset of harness/py2lean.py, which C03 keeps using).

Same idea: read the SOURCE TEXT of a live menpo function of the current working tree (`inspect.getsource` + `ast`),
rewrite it statement by statement into a Lean 4 term over the vocabulary of a hand-written Core model, write the
result under `lean/MenpoModel/Generated/`, and let a `GenProps` theorem state `translated = Core definition` for
all arguments, re-checked by `lake build` on every run.

New here, compared with py2lean (all generic, i.e. independent of any property):

  statements
    for <target> in <iter>: <body>      ->  List.foldl over the *loop-carried* variables (names assigned in the body
                                            that exist before the loop), nested pairs, read with projections so that
                                            `simp` can unfold them; `continue` = end of the body; `break` and
                                            `return` / `raise` inside the body are carried as a flag / an
                                            `Option result` first component, and iterations after the exit are
                                            the identity;  loops nest.
    x op= e                             ->  x = x op e
    a, b = e                            ->  let p := e; let a := p.1; let b := p.2   (any arity, nested pairs)
    assert c                            ->  if not c: raise
    if without else, early return       ->  (as before) the continuation is copied into both arms
  expressions
    a if c else b                       ->  (if c then a else b)
    [E for t in IT if C]                ->  List.filterMap / List.map         (one generator, name or tuple target)
    any(E for ..) / all(E for ..)       ->  List.any / List.all
    a + b, a - b, a * b, -a             ->  by `Rules.binop` (defaults for + - *; // and % only if the rules say how,
                                            because Python's floor division differs from Lean's on negative divisors)
    (a, b)  [a, b]                      ->  Lean tuple / list literal
  A rule (python pattern -> Lean template) always wins over a generic form.

What a function falling off its end means is chosen by the caller (`Rules.end`: template, default: untranslatable).
`Untranslatable` must be turned into a *broken obligation* by the caller (`stub_on_failure`), never into a crash.
"""
import ast

from .py2lean import Untranslatable, source_ast, match, _pat, CMP  # noqa: F401  (re-exported)

BINOP_DEFAULT = {ast.Add: "({a} + {b})", ast.Sub: "({a} - {b})", ast.Mult: "({a} * {b})"}


class Rules2:
    """expr rules: (python pattern, lean template[, "bind"]);  stmt rules: (python pattern, receiver metavariable,
    lean template of the receiver's new value).  `names`: python global / parameter name -> lean term.
    `ret`: template applied to a returned expression;  `raise_`: the value of a `raise`;
    `raise_by`: {exception class name: value} (overrides raise_ when the raised class is listed);
    `end`: value when control falls off the end of the function (None = untranslatable);
    `binop`: {ast operator class: template with {a} {b}}."""

    def __init__(self, expr=(), stmt=(), names=None, ret="{e}", raise_="none", raise_by=None, end=None, binop=None,
                 bind=None):
        self.expr = [(_pat(p, "expr"), t, (fl[0] if fl else "")) for p, t, *fl in expr]
        self.stmt = [(_pat(p, "stmt"), recv, t) for p, recv, t in stmt]
        self.names = dict(names or {})
        self.ret = ret
        self.raise_ = raise_
        self.raise_by = dict(raise_by or {})
        self.end = end
        self.binop = dict(BINOP_DEFAULT)
        self.binop.update(binop or {})
        self.bind = bind or "({m}).bind fun {x} =>\n{k}"


class _Ctx:
    """what `return`, `raise`, `break`, `continue` and falling off the end mean at the current nesting level"""

    def __init__(self, exit_, end, brk=None):
        self.exit = exit_      # (formatted value, scope, ind) -> text
        self.end = end         # (scope, ind) -> text
        self.brk = brk         # (scope, ind) -> text, or None outside loops


def _proj(acc, i, n):
    if n == 1:
        return acc
    if i < n - 1:
        return "%s%s.1" % (acc, ".2" * i)
    return "%s%s" % (acc, ".2" * (n - 1))


def _tuple(parts):
    if len(parts) == 1:
        return parts[0]
    return "(" + ", ".join(parts) + ")"


class Translator2:
    def __init__(self, rules):
        self.r = rules
        self.used_rules = set()

    # ------------------------------------------------------------------------------------------ expressions
    def expr(self, node, scope):
        for i, (pat, tmpl, flag) in enumerate(self.r.expr):
            env = {}
            if match(pat, node, env):
                self.used_rules.add(i)
                return tmpl.format(**{k: self.pure(v, scope) for k, v in env.items()}), flag
        if isinstance(node, ast.Name):
            if node.id in scope:
                return scope[node.id], ""
            if node.id in self.r.names:
                return self.r.names[node.id], ""
            raise Untranslatable("unknown name %r" % node.id)
        if isinstance(node, ast.BoolOp):
            op = " && " if isinstance(node.op, ast.And) else " || "
            return "(" + op.join(self.pure(v, scope) for v in node.values) + ")", ""
        if isinstance(node, ast.UnaryOp) and isinstance(node.op, ast.Not):
            return "(!" + self.pure(node.operand, scope) + ")", ""
        if isinstance(node, ast.UnaryOp) and isinstance(node.op, ast.USub):
            return "(-" + self.pure(node.operand, scope) + ")", ""
        if isinstance(node, ast.BinOp):
            t = self.r.binop.get(type(node.op))
            if t is None:
                raise Untranslatable("no rule for operator in `%s`" % ast.unparse(node))
            return t.format(a=self.pure(node.left, scope), b=self.pure(node.right, scope)), ""
        if isinstance(node, ast.Compare):
            parts, left = [], node.left
            for op, right in zip(node.ops, node.comparators):
                if type(op) not in CMP:
                    raise Untranslatable("comparison " + ast.dump(op))
                a, b = self.pure(left, scope), self.pure(right, scope)
                parts.append("decide (%s %s %s)" % (a, CMP[type(op)], b) if type(op) not in (ast.Eq, ast.NotEq)
                             else "(%s %s %s)" % (a, CMP[type(op)], b))
                left = right
            return "(" + " && ".join(parts) + ")", ""
        if isinstance(node, ast.IfExp):
            return "(if %s then %s else %s)" % (self.pure(node.test, scope), self.pure(node.body, scope),
                                                self.pure(node.orelse, scope)), ""
        if isinstance(node, ast.Tuple):
            return "(" + ", ".join(self.pure(e, scope) for e in node.elts) + ")", ""
        if isinstance(node, ast.List):
            return "[" + ", ".join(self.pure(e, scope) for e in node.elts) + "]", ""
        if isinstance(node, ast.ListComp):
            return self.comprehension(node, scope, "list"), ""
        if isinstance(node, ast.Call) and isinstance(node.func, ast.Name) and node.func.id in ("any", "all") \
                and len(node.args) == 1 and not node.keywords and isinstance(node.args[0], (ast.GeneratorExp, ast.ListComp)):
            return self.comprehension(node.args[0], scope, node.func.id), ""
        if isinstance(node, ast.Constant):
            if node.value is True:
                return "true", ""
            if node.value is False:
                return "false", ""
            if node.value is None:
                return "none", ""
            if isinstance(node.value, int):
                return "(%d)" % node.value, ""
        raise Untranslatable("no rule for expression `%s`" % ast.unparse(node))

    def pure(self, node, scope):
        e, flag = self.expr(node, scope)
        if flag == "bind":
            raise Untranslatable("monadic expression used as a pure operand: `%s`" % ast.unparse(node))
        return e

    def bind_target(self, target, value, scope):
        """([let lines], new scope) binding a Name / Tuple-of-Names target to the lean term `value`"""
        sc = dict(scope)
        if isinstance(target, ast.Name):
            new = self.fresh(target.id, sc)
            sc[target.id] = new
            return ["let %s := %s" % (new, value)], sc
        if isinstance(target, (ast.Tuple, ast.List)) and all(isinstance(e, ast.Name) for e in target.elts):
            p = self.fresh("p", sc)
            sc["\0tmp" + p] = p
            lines = ["let %s := %s" % (p, value)]
            n = len(target.elts)
            for i, e in enumerate(target.elts):
                new = self.fresh(e.id, sc)
                sc[e.id] = new
                lines.append("let %s := %s" % (new, _proj(p, i, n)))
            return lines, sc
        raise Untranslatable("assignment target `%s`" % ast.unparse(target))

    def comprehension(self, node, scope, kind):
        if len(node.generators) != 1 or node.generators[0].is_async:
            raise Untranslatable("comprehension with several generators: `%s`" % ast.unparse(node))
        g = node.generators[0]
        it = self.pure(g.iter, scope)
        item = self.fresh("it", scope)
        sc = dict(scope)
        sc["\0tmp" + item] = item
        lines, sc = self.bind_target(g.target, item, sc)
        lets = "; ".join(lines) + "; "
        cond = " && ".join(self.pure(c, sc) for c in g.ifs) if g.ifs else None
        body = self.pure(node.elt, sc)
        if kind == "list":
            if cond is None:
                return "(List.map (fun %s => %s%s) %s)" % (item, lets, body, it)
            return "(List.filterMap (fun %s => %sif %s then some (%s) else none) %s)" % (item, lets, cond, body, it)
        src = it if cond is None else "(List.filter (fun %s => %s%s) %s)" % (item, lets, cond, it)
        return "(List.%s %s (fun %s => %s%s))" % (kind, src, item, lets, body)

    # ------------------------------------------------------------------------------------------ statements
    def assigned_names(self, stmts):
        """names (re)bound by the statements, in order of first appearance (loop bodies, if arms included)"""
        out = []

        def add(n):
            if n not in out:
                out.append(n)

        def tgt(t):
            if isinstance(t, ast.Name):
                add(t.id)
            elif isinstance(t, (ast.Tuple, ast.List)):
                for e in t.elts:
                    tgt(e)

        def walk(sts):
            for st in sts:
                matched = False
                for pat, recv, _t in self.r.stmt:
                    env = {}
                    if match(pat, st, env):
                        if isinstance(env[recv], ast.Name):
                            add(env[recv].id)
                        matched = True
                        break
                if matched:
                    continue
                if isinstance(st, ast.Assign):
                    for t in st.targets:
                        tgt(t)
                elif isinstance(st, ast.AugAssign):
                    tgt(st.target)
                elif isinstance(st, ast.If):
                    walk(st.body)
                    walk(st.orelse)
                elif isinstance(st, ast.For):
                    tgt(st.target)
                    walk(st.body)
                elif isinstance(st, (ast.While, ast.With, ast.Try, ast.FunctionDef, ast.ClassDef)):
                    raise Untranslatable("statement form `%s`" % ast.unparse(st).splitlines()[0])
        walk(stmts)
        return out

    @staticmethod
    def _has(stmts, kinds, into_loops):
        for st in stmts:
            if isinstance(st, kinds):
                return True
            if isinstance(st, ast.If) and (Translator2._has(st.body, kinds, into_loops) or
                                           Translator2._has(st.orelse, kinds, into_loops)):
                return True
            if isinstance(st, ast.For) and into_loops and Translator2._has(st.body, kinds, into_loops):
                return True
        return False

    def raise_value(self, st):
        exc = st.exc
        name = None
        if isinstance(exc, ast.Call):
            exc = exc.func
        if isinstance(exc, ast.Name):
            name = exc.id
        elif isinstance(exc, ast.Attribute):
            name = exc.attr
        if name in self.r.raise_by:
            return self.r.raise_by[name]
        if self.r.raise_by and "*" not in self.r.raise_by and name is not None and self.r.raise_ is None:
            raise Untranslatable("raise of %r" % name)
        return self.r.raise_by.get("*", self.r.raise_)

    def block(self, stmts, scope, ind, ctx):
        pad = "  " * ind
        if not stmts:
            return ctx.end(scope, ind)
        st, rest = stmts[0], stmts[1:]
        if isinstance(st, ast.Expr) and isinstance(st.value, ast.Constant) and isinstance(st.value.value, str):
            return self.block(rest, scope, ind, ctx)
        if isinstance(st, ast.Pass):
            return self.block(rest, scope, ind, ctx)
        if isinstance(st, ast.If):
            c = self.pure(st.test, scope)
            a = self.block(list(st.body) + rest, dict(scope), ind + 1, ctx)
            b = self.block(list(st.orelse) + rest, dict(scope), ind + 1, ctx)
            return "%sif %s then\n%s\n%selse\n%s" % (pad, c, a, pad, b)
        if isinstance(st, ast.Assert):
            c = self.pure(st.test, scope)
            a = self.block(rest, dict(scope), ind + 1, ctx)
            b = ctx.exit(self.r.raise_by.get("AssertionError", self.r.raise_), scope, ind + 1)
            return "%sif %s then\n%s\n%selse\n%s" % (pad, c, a, pad, b)
        if isinstance(st, ast.Return):
            if st.value is None:
                if self.r.end is None:
                    raise Untranslatable("bare return")
                return ctx.exit(self.r.end, scope, ind)
            e, flag = self.expr(st.value, scope)
            return ctx.exit(e if flag == "bind" else self.r.ret.format(e=e), scope, ind)
        if isinstance(st, ast.Raise):
            return ctx.exit(self.raise_value(st), scope, ind)
        if isinstance(st, ast.Continue):
            if ctx.brk is None:
                raise Untranslatable("continue outside a loop")
            return ctx.end(scope, ind)
        if isinstance(st, ast.Break):
            if ctx.brk is None:
                raise Untranslatable("break outside a loop")
            return ctx.brk(scope, ind)
        for i, (pat, recv, tmpl) in enumerate(self.r.stmt):
            env = {}
            if match(pat, st, env):
                self.used_rules.add(("s", i))
                target = env[recv]
                if not isinstance(target, ast.Name):
                    raise Untranslatable("in-place statement on a non-variable: `%s`" % ast.unparse(st))
                val = tmpl.format(**{k: self.pure(v, scope) for k, v in env.items()})
                new = self.fresh(target.id, scope)
                sc = dict(scope)
                sc[target.id] = new
                return "%slet %s := %s\n%s" % (pad, new, val, self.block(rest, sc, ind, ctx))
        if isinstance(st, ast.AugAssign) and isinstance(st.target, ast.Name):
            st = ast.Assign(targets=[ast.Name(id=st.target.id, ctx=ast.Store())],
                            value=ast.BinOp(left=ast.Name(id=st.target.id, ctx=ast.Load()), op=st.op, right=st.value))
        if isinstance(st, ast.Assign) and len(st.targets) == 1:
            e, flag = self.expr(st.value, scope)
            if flag == "bind":
                if not isinstance(st.targets[0], ast.Name):
                    raise Untranslatable("monadic value bound to a pattern: `%s`" % ast.unparse(st))
                new = self.fresh(st.targets[0].id, scope)
                sc = dict(scope)
                sc[st.targets[0].id] = new
                return pad + self.r.bind.format(m=e, x=new, k=self.block(rest, sc, ind + 1, ctx))
            lines, sc = self.bind_target(st.targets[0], e, scope)
            return "".join(pad + l + "\n" for l in lines) + self.block(rest, sc, ind, ctx)
        if isinstance(st, ast.For):
            return self.loop(st, rest, scope, ind, ctx)
        raise Untranslatable("no rule for statement `%s`" % ast.unparse(st).splitlines()[0])

    def loop(self, st, rest, scope, ind, ctx):
        pad = "  " * ind
        if st.orelse:
            raise Untranslatable("for/else")
        it = self.pure(st.iter, scope)
        carried = [n for n in self.assigned_names(st.body) if n in scope]
        has_exit = self._has(st.body, (ast.Return, ast.Raise, ast.Assert), True)
        has_brk = self._has(st.body, (ast.Break,), False)
        comps = (["\0ret"] if has_exit else []) + (["\0brk"] if has_brk else []) + carried
        if not comps:
            raise Untranslatable("loop without any effect on the variables in scope: `%s`" % ast.unparse(st).splitlines()[0])
        n = len(comps)
        sc0 = dict(scope)
        acc = self.fresh("acc", sc0)
        sc0["\0tmp" + acc] = acc
        item = self.fresh("it", sc0)
        sc0["\0tmp" + item] = item
        # body scope: carried variables are read from the accumulator
        lines, sc = [], dict(sc0)
        for c in carried:
            new = self.fresh(c, sc)
            sc[c] = new
            lines.append("let %s := %s" % (new, _proj(acc, comps.index(c), n)))
        tl, sc = self.bind_target(st.target, item, sc)
        lines += tl

        def state(scope_, ret="none", brk="false"):
            parts = []
            if has_exit:
                parts.append(ret)
            if has_brk:
                parts.append(brk)
            parts += [scope_[c] for c in carried]
            return _tuple(parts)

        inner = _Ctx(exit_=lambda v, s, i: "  " * i + state(s, ret="some (%s)" % v),
                     end=lambda s, i: "  " * i + state(s),
                     brk=lambda s, i: "  " * i + state(s, brk="true"))
        body = self.block(list(st.body), sc, ind + 2, inner)
        p3 = "  " * (ind + 2)
        guard = []
        if has_exit:
            guard.append("(%s).isSome" % _proj(acc, 0, n))
        if has_brk:
            guard.append(_proj(acc, 1 if has_exit else 0, n))
        text = "".join(p3 + l + "\n" for l in lines) + body
        if guard:
            text = "%sif %s then %s else\n%s" % (p3, " || ".join(guard), acc, text)
        res = self.fresh("r", sc0)
        after = dict(scope)
        after["\0tmp" + res] = res
        out = "%slet %s := MenpoModel.Py.forLoop %s (%s) (fun %s %s =>\n%s)\n" % (pad, res, state(scope), it, acc, item, text)
        for c in carried:
            new = self.fresh(c, after)
            after[c] = new
            out += "%slet %s := %s\n" % (pad, new, _proj(res, comps.index(c), n))
        k = self.block(rest, after, ind + (1 if has_exit else 0), ctx)
        if has_exit:
            v = self.fresh("v", after)
            sc_v = dict(after)
            sc_v["\0tmp" + v] = v
            return "%s%smatch %s with\n%s| some %s =>\n%s\n%s| none =>\n%s" % (
                out, pad, _proj(res, 0, n), pad, v, ctx.exit(v, sc_v, ind + 2), pad, k)
        return out + k

    @staticmethod
    def fresh(name, scope):
        base = name.replace("_", "")
        used = set(scope.values())
        k, cand = 0, base + "0"
        while cand in used:
            k += 1
            cand = "%s%d" % (base, k)
        return cand

    def top_ctx(self):
        def end(scope, ind):
            if self.r.end is None:
                raise Untranslatable("control reaches the end of the function without return/raise")
            return "  " * ind + self.r.end
        return _Ctx(exit_=lambda v, s, i: "  " * i + v, end=end)

    def function(self, fn, arg_names, ind=2, allow_unused=()):
        """Lean term for the body of `fn`.  `arg_names`: python parameter -> lean term; every parameter of the
        function must be listed (a changed signature is untranslatable) except those in `allow_unused` that the
        body never mentions."""
        node, _src = source_ast(fn)
        a = node.args
        params = [x.arg for x in a.posonlyargs + a.args + a.kwonlyargs]
        if a.vararg:
            params.append(a.vararg.arg)
        if a.kwarg:
            params.append(a.kwarg.arg)
        mentioned = {n.id for st in node.body for n in ast.walk(st) if isinstance(n, ast.Name)}
        for p in params:
            if p not in arg_names and not (p in allow_unused and p not in mentioned):
                raise Untranslatable("signature of %s changed: %s" % (node.name, ast.unparse(node.args)))
        return self.block(list(node.body), dict(arg_names), ind, self.top_ctx())

    def defaults(self, fn):
        """{parameter: source text of its default} — for obligations about default options"""
        node, _src = source_ast(fn)
        a = node.args
        pos = a.posonlyargs + a.args
        out = {}
        for p, d in zip(pos[len(pos) - len(a.defaults):], a.defaults):
            out[p.arg] = ast.unparse(d)
        for p, d in zip(a.kwonlyargs, a.kw_defaults):
            if d is not None:
                out[p.arg] = ast.unparse(d)
        return out


def translate_or_stub(items, header, footer=""):
    """items: list of (lean signature line ending in `:=`, thunk returning the body text, stub body).
    Returns (file text, [reasons]).  An untranslatable function gets its stub body (chosen by the caller so that
    the equality obligation cannot be proved) and the reason is reported."""
    out, reasons = [header], []
    for sig, thunk, stub in items:
        try:
            body = thunk()
        except Untranslatable as e:
            reasons.append("%s: %s" % (sig.split()[1] if len(sig.split()) > 1 else sig, e))
            body = "  /- UNTRANSLATABLE: %s -/\n  %s" % (str(e).replace("-/", "- /"), stub)
        out.append(sig + "\n" + body + "\n")
    out.append(footer)
    return "\n".join(out), reasons


# =====================================================================================================================
# Rules2M / Translator2M — APPENDED (nothing above is changed; Translator2 / Rules2 behave exactly as before).
# Generic additions needed by harness/trans_c20.py, usable by any property:
#   * operands whose rule is flagged "bind" (a call that may raise, modelled in `Except` / `Option`) are HOISTED into
#     a bind in front of the statement they occur in:  `a.f(x).g(y)`  ->  `(f a x).bind fun h_0 => g h_0 y`
#     (not inside loop bodies, whose state is not monadic; evaluation order: left to right, before the statement);
#   * stmt rules may carry a 4th element "bind" (the new value of the receiver is computed in the monad);
#   * `lambda a, b: <expr>`  ->  `(fun a0 b0 => <expr>)`  (the body may be monadic: the rule using the lambda decides);
#   * `x is None` / `x is not None`  ->  `(x.isNone)` / `(!x.isNone)`;
#   * float constants through `Rules2M.float_` (template with {n} / {d}: the exact decimal value as a fraction);
#   * `a and b` / `a or b` whose later operands are monadic keep Python's short circuit (a monadic Boolean, `unit`);
#     a conditional expression with a monadic arm is refused (it would be evaluated eagerly);
#   * `import` / `from .. import` inside a function body: dropped;
#   * `ret` and `end` templates are formatted with the current Lean names of the Python variables ({self}, {p}, ...),
#     so that an in-place method can return its receiver:  end=".ok {self}",  ret=".ok {self}"  (ret also gets {e}).
# =====================================================================================================================

class Rules2M(Rules2):
    """`float_`: template ({n}, {d}) or callable (n, d) -> lean text for a float constant; `unit`: the monad's return
    (template with {e}), needed only for short-circuit tests with monadic operands"""

    def __init__(self, expr=(), stmt=(), float_=None, unit=None, **kw):
        stmt = list(stmt)
        self.stmt_flag = [(s[3] if len(s) > 3 else "") for s in stmt]
        Rules2.__init__(self, expr=expr, stmt=[tuple(s[:3]) for s in stmt], **kw)
        self.float_ = float_
        self.unit = unit


class Translator2M(Translator2):
    def __init__(self, rules):
        Translator2.__init__(self, rules)
        self._pending = []
        self._ctxs = []
        self._tmp = 0

    @staticmethod
    def _fmt(tmpl, scope, **extra):
        env = {k: v for k, v in scope.items() if k.isidentifier()}
        env.update(extra)
        try:
            return tmpl.format(**env)
        except (KeyError, IndexError) as e:
            raise Untranslatable("template %r needs the variable %s" % (tmpl, e))

    # ------------------------------------------------------------------------------------------ expressions
    def expr(self, node, scope):
        for i, (pat, tmpl, flag) in enumerate(self.r.expr):
            env = {}
            if match(pat, node, env):
                self.used_rules.add(i)
                return tmpl.format(**{k: self.pure(v, scope) for k, v in env.items()}), flag
        if isinstance(node, ast.Lambda):
            a = node.args
            if a.vararg or a.kwarg or a.kwonlyargs or a.defaults or a.posonlyargs or not a.args:
                raise Untranslatable("lambda with a non-trivial signature: `%s`" % ast.unparse(node))
            sc, names = dict(scope), []
            for x in a.args:
                new = self.fresh(x.arg, sc)
                sc[x.arg] = new
                names.append(new)
            self._pending.append([])
            self._ctxs.append(None)
            try:
                body, flag = self.expr(node.body, sc)
            finally:
                pend = self._pending.pop()
                self._ctxs.pop()
            if pend and flag != "bind":
                raise Untranslatable("lambda with a monadic operand and a pure result: `%s`" % ast.unparse(node))
            for e, tmp in reversed(pend):
                body = self.r.bind.format(m=e, x=tmp, k=body)
            return "(fun %s => %s)" % (" ".join(names), body), ""
        if (isinstance(node, ast.Compare) and len(node.ops) == 1 and isinstance(node.ops[0], (ast.Is, ast.IsNot))
                and isinstance(node.comparators[0], ast.Constant) and node.comparators[0].value is None):
            x = self.pure(node.left, scope)
            return ("(!%s.isNone)" if isinstance(node.ops[0], ast.IsNot) else "(%s.isNone)") % x, ""
        if isinstance(node, ast.Constant) and isinstance(node.value, float) and getattr(self.r, "float_", None):
            from fractions import Fraction
            f = Fraction(repr(node.value))
            if callable(self.r.float_):
                return self.r.float_(f.numerator, f.denominator), ""
            return self.r.float_.format(n=f.numerator, d=f.denominator), ""
        if isinstance(node, ast.BoolOp):
            return self._boolop(node, scope)
        if isinstance(node, ast.IfExp):
            # the arms are evaluated lazily in Python: an arm that would be hoisted is not translated
            depth = len(self._pending[-1]) if self._pending else 0
            test = self.pure(node.test, scope)
            mark = len(self._pending[-1]) if self._pending else 0
            a, b = self.pure(node.body, scope), self.pure(node.orelse, scope)
            if self._pending and len(self._pending[-1]) != mark:
                del self._pending[-1][depth:]
                raise Untranslatable("conditional expression with a monadic arm: `%s`" % ast.unparse(node))
            return "(if %s then %s else %s)" % (test, a, b), ""
        return Translator2.expr(self, node, scope)

    def _sub_frame(self, node, scope):
        """translate an operand in its own hoisting frame: (text, [hoisted binds])"""
        self._pending.append([])
        self._ctxs.append(self._ctxs[-1] if self._ctxs else None)
        try:
            e = self.pure(node, scope)
        finally:
            pend = self._pending.pop()
            self._ctxs.pop()
        return e, pend

    def _boolop(self, node, scope):
        """`a and b` / `a or b` keep Python's short circuit: when an operand other than the first needs a hoisted
        (monadic) sub-expression, the whole test becomes a monadic Boolean that evaluates it only when Python would:
        `a and b`  ->  if a then (binds of b; unit b) else unit false      (needs `Rules2M.unit`)"""
        is_and = isinstance(node.op, ast.And)
        parts = [self._sub_frame(v, scope) for v in node.values]
        first_e, first_p = parts[0]
        if first_p:
            if not self._pending:
                raise Untranslatable("monadic operand outside a statement: `%s`" % ast.unparse(node))
            self._pending[-1].extend(first_p)
        if not any(p for _e, p in parts[1:]):
            return "(" + (" && " if is_and else " || ").join(e for e, _p in parts) + ")", ""
        unit = getattr(self.r, "unit", None)
        if not unit:
            raise Untranslatable("short-circuit operand that may raise (no `unit` template): `%s`" % ast.unparse(node))

        def binds(pend, text):
            for m, x in reversed(pend):
                text = "(" + self.r.bind.format(m=m, x=x, k=text) + ")"
            return text
        acc = binds(parts[-1][1], unit.format(e=parts[-1][0]))
        for e, pend in reversed(parts[1:-1]):
            inner = ("(if %s then %s else %s)" % (e, acc, unit.format(e="false")) if is_and else
                     "(if %s then %s else %s)" % (e, unit.format(e="true"), acc))
            acc = binds(pend, inner)
        text = ("(if %s then %s else %s)" % (first_e, acc, unit.format(e="false")) if is_and else
                "(if %s then %s else %s)" % (first_e, unit.format(e="true"), acc))
        return text, "bind"

    def pure(self, node, scope):
        e, flag = self.expr(node, scope)
        if flag == "bind":
            if not self._pending or (self._ctxs and self._ctxs[-1] is not None and self._ctxs[-1].brk is not None):
                raise Untranslatable("monadic expression used as an operand where it cannot be hoisted: `%s`" % ast.unparse(node))
            tmp = "h_%d" % self._tmp
            self._tmp += 1
            self._pending[-1].append((e, tmp))
            return tmp
        return e

    # ------------------------------------------------------------------------------------------ statements
    def block(self, stmts, scope, ind, ctx):
        self._pending.append([])
        self._ctxs.append(ctx)
        try:
            text = self._block1(stmts, scope, ind, ctx)
        finally:
            pend = self._pending.pop()
            self._ctxs.pop()
        pad = "  " * ind
        for e, tmp in reversed(pend):
            text = pad + self.r.bind.format(m=e, x=tmp, k=text)
        return text

    def _block1(self, stmts, scope, ind, ctx):
        pad = "  " * ind
        if not stmts:
            return ctx.end(scope, ind)
        st, rest = stmts[0], stmts[1:]
        if isinstance(st, (ast.Import, ast.ImportFrom)):
            return self.block(rest, scope, ind, ctx)
        if isinstance(st, ast.Return):
            if st.value is None:
                if self.r.end is None:
                    raise Untranslatable("bare return")
                return ctx.exit(self._fmt(self.r.end, scope), scope, ind)
            e, flag = self.expr(st.value, scope)
            return ctx.exit(e if flag == "bind" else self._fmt(self.r.ret, scope, e=e), scope, ind)
        flags = getattr(self.r, "stmt_flag", [])
        for i, (pat, recv, tmpl) in enumerate(self.r.stmt):
            if i < len(flags) and flags[i] == "bind":
                env = {}
                if match(pat, st, env):
                    self.used_rules.add(("s", i))
                    target = env[recv]
                    if not isinstance(target, ast.Name):
                        raise Untranslatable("in-place statement on a non-variable: `%s`" % ast.unparse(st))
                    if ctx.brk is not None:
                        raise Untranslatable("monadic in-place statement inside a loop body: `%s`" % ast.unparse(st))
                    val = tmpl.format(**{k: self.pure(v, scope) for k, v in env.items()})
                    new = self.fresh(target.id, scope)
                    sc = dict(scope)
                    sc[target.id] = new
                    return pad + self.r.bind.format(m=val, x=new, k=self.block(rest, sc, ind + 1, ctx))
        return Translator2.block(self, stmts, scope, ind, ctx)

    def top_ctx(self):
        def end(scope, ind):
            if self.r.end is None:
                raise Untranslatable("control reaches the end of the function without return/raise")
            return "  " * ind + self._fmt(self.r.end, scope)
        return _Ctx(exit_=lambda v, s, i: "  " * i + v, end=end)


# =====================================================================================================================
# Rules2T / Translator2T — APPENDED by the C09 builder (nothing above is changed).  Generic additions, usable by any
# property whose functions return in `Except ε ρ` (or in any type, as long as the templates below say how):
#   * try / except [as e] / else          -> every call that may raise (a rule flagged "bind") inside the try body becomes
#                                            `match m with | .error e => (HANDLER; rest) | .ok v => …`, the handler seeing
#                                            the variables as they are AT THE POINT OF THE RAISE (Python semantics);
#                                            which handler catches what: `Rules2T.catch` {class name: Bool template over
#                                            {e}; "true" = always}; an uncaught exception propagates (`reraise`);
#                                            `else:` runs unprotected after a normal end; try/finally, break / continue
#                                            / loops inside a try body: untranslatable;
#   * a call that may raise inside a `for` body (outside any try) ends the loop and propagates, like `return` does
#     (the exit component of the fold state is only there when the body can actually exit);
#   * monadic operands are hoisted in front of their statement (left to right), never out of `and`/`or`/conditional
#     expressions / comprehensions / lambdas (there they are untranslatable); always as `match`, so the function's
#     result type need not be a monad;
#   * `a, b, c = <call that may raise>`;  `<call that may raise>` as a statement (result dropped);
#   * `raise Cls(args)` with a VALUE: `Rules2T.exc` [(python pattern, template of the exception value)];
#   * nested `def f(a, b): …` (a closure over variables that are not reassigned later) -> `let f0 := fun a0 b0 => …`;
#     a call `f(x, y)` of such a closure is a call that may raise;
#     `lambda a, b: E` -> `(fun a0 b0 => E)` (E may be monadic: the rule using the lambda decides);
#   * `x is None` / `x is not None`; `import` inside a function body (dropped);
#   * templates `ret`, `end`, `reraise` may mention `{v_NAME}` = the current Lean name of the Python variable NAME
#     (so that a method can return its updated receiver next to its result).
# =====================================================================================================================

class Rules2T(Rules2):
    """`fn_style=True`: raising calls and loop exits are written with `MenpoModel.Py.tryCatch` / `MenpoModel.Py.onExit`
    (Core/PyLoop.lean) instead of `match`, so that the translation contains no auxiliary matchers and can be compared
    with a hand-written definition using the same two functions by `simp` as well as by `rfl`."""

    def __init__(self, expr=(), stmt=(), catch=None, reraise="(Except.error {e})", exc=(), fn_style=False, **kw):
        kw.setdefault("ret", "(Except.ok ({e}))")
        kw.setdefault("raise_", None)
        Rules2.__init__(self, expr=expr, stmt=stmt, **kw)
        self.catch = dict(catch or {})
        self.reraise = reraise
        self.exc = [(_pat(p, "expr"), t) for p, t in exc]
        self.fn_style = fn_style


class _CtxT(_Ctx):
    def __init__(self, exit_, end, brk=None, on_raise=None, direct=False, in_loop=False):
        _Ctx.__init__(self, exit_, end, brk)
        self.on_raise = on_raise    # (lean name of the exception value, scope, ind) -> text; None = propagate
        self.direct = direct        # a monadic value may be returned as it is (top level, default templates)
        self.in_loop = in_loop


class _NeedExit(Exception):
    pass


def _indent(text, k=1):
    return "\n".join(("  " * k + l) if l.strip() else l for l in text.split("\n"))


class Translator2T(Translator2):
    def __init__(self, rules):
        Translator2.__init__(self, rules)
        self._frames = []
        self._nohoist = 0
        self._closures = set()      # lean names of nested defs: calling one is a call that may raise

    # ------------------------------------------------------------------------------------------ templates
    def fmt(self, tmpl, scope, **extra):
        env = {"v_" + k: v for k, v in scope.items() if k.isidentifier()}
        env.update(extra)
        try:
            return tmpl.format(**env)
        except (KeyError, IndexError) as e:
            raise Untranslatable("template %r needs %s" % (tmpl, e))

    def _default_templates(self):
        return self.r.reraise == "(Except.error {e})" and self.r.ret == "(Except.ok ({e}))"

    # ------------------------------------------------------------------------------------------ expressions
    def expr(self, node, scope):
        for i, (pat, tmpl, flag) in enumerate(self.r.expr):
            env = {}
            if match(pat, node, env):
                self.used_rules.add(i)
                return tmpl.format(**{k: self.pure(v, scope) for k, v in env.items()}), flag
        if isinstance(node, ast.Lambda):
            a = node.args
            if a.vararg or a.kwarg or a.kwonlyargs or a.defaults or a.posonlyargs or not a.args:
                raise Untranslatable("lambda with a non-trivial signature: `%s`" % ast.unparse(node))
            sc, names = dict(scope), []
            for x in a.args:
                new = self.fresh(x.arg, sc)
                sc[x.arg] = new
                names.append(new)
            self._nohoist += 1
            try:
                body, _flag = self.expr(node.body, sc)
            finally:
                self._nohoist -= 1
            return "(fun %s => %s)" % (" ".join(names), body), ""
        if (isinstance(node, ast.Compare) and len(node.ops) == 1 and isinstance(node.ops[0], (ast.Is, ast.IsNot))
                and isinstance(node.comparators[0], ast.Constant) and node.comparators[0].value is None):
            x = self.pure(node.left, scope)
            return ("(!(%s).isNone)" if isinstance(node.ops[0], ast.IsNot) else "((%s).isNone)") % x, ""
        if (isinstance(node, ast.Call) and isinstance(node.func, ast.Name) and not node.keywords
                and scope.get(node.func.id) in self._closures):
            args = [self.pure(a, scope) for a in node.args] or ["()"]
            return "(%s %s)" % (scope[node.func.id], " ".join(args)), "bind"
        if isinstance(node, (ast.BoolOp, ast.IfExp, ast.ListComp, ast.GeneratorExp)) or (
                isinstance(node, ast.Call) and isinstance(node.func, ast.Name) and node.func.id in ("any", "all")):
            self._nohoist += 1
            try:
                return Translator2.expr(self, node, scope)
            finally:
                self._nohoist -= 1
        return Translator2.expr(self, node, scope)

    def pure(self, node, scope):
        e, flag = self.expr(node, scope)
        if flag != "bind":
            return e
        if self._nohoist or not self._frames:
            raise Untranslatable("a call that may raise is used where it cannot be hoisted: `%s`" % ast.unparse(node))
        v = self.fresh("v", scope)
        scope["\0tmp" + v] = v          # in place: the statement's continuation must not reuse the name
        self._frames[-1].append((e, v, dict(scope)))
        return v

    # ------------------------------------------------------------------------------------------ raising / binding
    def raise_(self, e_val, scope, ind, ctx):
        if getattr(ctx, "on_raise", None) is not None:
            return ctx.on_raise(e_val, scope, ind)
        return ctx.exit(self.fmt(self.r.reraise, scope, e=e_val), scope, ind)

    def bind(self, m, hint, scope, ind, ctx, k):
        """`match m with | .error e => (raise e here) | .ok v => k(v, scope+)`"""
        pad = "  " * ind
        sc = dict(scope)
        v = self.fresh(hint, sc)
        sc["\0tmp" + v] = v
        se = dict(scope)
        e = self.fresh("e", se)
        se["\0tmp" + e] = e
        err = self.raise_(e, se, ind + 2, ctx)
        return self._try_text(pad, m, e, err, v, k(v, sc, ind + 1))

    def _try_text(self, pad, m, e, err, v, ok):
        if getattr(self.r, "fn_style", False):
            return "%sMenpoModel.Py.tryCatch %s (fun %s =>\n%s) (fun %s =>\n%s)" % (pad, m, e, err, v, ok)
        return "%smatch %s with\n%s| .error %s => (\n%s)\n%s| .ok %s =>\n%s" % (pad, m, pad, e, err, pad, v, ok)

    def _wrap(self, frame, text, ind, ctx):
        pad = "  " * ind
        for m, v, sc in reversed(frame):
            se = dict(sc)
            e = self.fresh("e", se)
            se["\0tmp" + e] = e
            err = self.raise_(e, se, ind + 2, ctx)
            text = self._try_text(pad, m, e, err, v, _indent(text))
        return text

    # ------------------------------------------------------------------------------------------ statements
    def assigned_names(self, stmts):
        out = []

        def walk(sts):
            for st in sts:
                if isinstance(st, ast.Try):
                    if st.finalbody:
                        raise Untranslatable("try/finally")
                    walk(st.body)
                    for h in st.handlers:
                        walk(h.body)
                    walk(st.orelse)
                elif isinstance(st, (ast.Import, ast.ImportFrom)):
                    pass
                elif isinstance(st, ast.FunctionDef):
                    if st.name not in out:
                        out.append(st.name)
                elif isinstance(st, ast.If):
                    walk(st.body)
                    walk(st.orelse)
                elif isinstance(st, ast.For):
                    for n in Translator2.assigned_names(self, [ast.For(target=st.target, iter=st.iter, body=[], orelse=[])]):
                        if n not in out:
                            out.append(n)
                    walk(st.body)
                else:
                    for n in Translator2.assigned_names(self, [st]):
                        if n not in out:
                            out.append(n)
        walk(stmts)
        return out

    @staticmethod
    def _hasT(stmts, kinds):
        for st in stmts:
            if isinstance(st, kinds):
                return True
            for f in ("body", "orelse", "finalbody"):
                if isinstance(st, (ast.If, ast.For, ast.Try)) and Translator2T._hasT(getattr(st, f, []) or [], kinds):
                    return True
            if isinstance(st, ast.Try) and any(Translator2T._hasT(h.body, kinds) for h in st.handlers):
                return True
        return False

    def block(self, stmts, scope, ind, ctx):
        frame = []
        self._frames.append(frame)
        try:
            text = self._block1(stmts, scope, ind, ctx)
        finally:
            self._frames.pop()
        return self._wrap(frame, text, ind, ctx) if frame else text

    def _block1(self, stmts, scope, ind, ctx):
        pad = "  " * ind
        if not stmts:
            return ctx.end(scope, ind)
        st, rest = stmts[0], stmts[1:]
        if isinstance(st, (ast.Import, ast.ImportFrom)):
            return self.block(rest, scope, ind, ctx)
        if isinstance(st, ast.Try):
            return self.try_(st, rest, scope, ind, ctx)
        if isinstance(st, ast.FunctionDef):
            return self.closure(st, rest, scope, ind, ctx)
        if isinstance(st, ast.Raise) and st.exc is None:
            raise Untranslatable("bare raise")
        if isinstance(st, ast.Raise):
            for pat, tmpl in self.r.exc:
                env = {}
                if match(pat, st.exc, env):
                    val = tmpl.format(**{k: self.pure(v, scope) for k, v in env.items()})
                    return self.raise_(val, scope, ind, ctx)
            if getattr(ctx, "on_raise", None) is not None:
                raise Untranslatable("raise inside try without an `exc` rule: `%s`" % ast.unparse(st))
            val = self.raise_value(st)
            if val is None:
                raise Untranslatable("no rule for `%s`" % ast.unparse(st))
            return ctx.exit(self.fmt(val, scope), scope, ind)
        if isinstance(st, ast.Return):
            if st.value is None:
                if self.r.end is None:
                    raise Untranslatable("bare return")
                return ctx.exit(self.fmt(self.r.end, scope), scope, ind)
            e, flag = self.expr(st.value, scope)
            if flag != "bind":
                return ctx.exit(self.fmt(self.r.ret, scope, e=e), scope, ind)
            if getattr(ctx, "direct", False) and self._default_templates():
                return ctx.exit(e, scope, ind)
            return self.bind(e, "v", scope, ind, ctx,
                             lambda v, sc, i: ctx.exit(self.fmt(self.r.ret, sc, e=v), sc, i))
        if isinstance(st, ast.Expr) and not (isinstance(st.value, ast.Constant) and isinstance(st.value.value, str)):
            for pat, _recv, _t in self.r.stmt:
                if match(pat, st, {}):
                    break
            else:
                e, flag = self.expr(st.value, scope)
                if flag != "bind":
                    raise Untranslatable("expression statement without effect in the vocabulary: `%s`" % ast.unparse(st))
                return self.bind(e, "u", scope, ind, ctx, lambda v, sc, i: self.block(rest, sc, i, ctx))
        if isinstance(st, ast.Assign) and len(st.targets) == 1 and not any(match(p, st, {}) for p, _r, _t in self.r.stmt):
            e, flag = self.expr(st.value, scope)
            if flag == "bind":
                def k(v, sc, i):
                    lines, sc2 = self.bind_target(st.targets[0], v, sc)
                    return "".join("  " * i + l + "\n" for l in lines) + self.block(rest, sc2, i, ctx)
                return self.bind(e, "v", scope, ind, ctx, k)
            lines, sc = self.bind_target(st.targets[0], e, scope)
            return "".join(pad + l + "\n" for l in lines) + self.block(rest, sc, ind, ctx)
        if isinstance(st, ast.For) and getattr(ctx, "on_raise", None) is not None:
            raise Untranslatable("loop inside a try body")
        return Translator2.block(self, stmts, scope, ind, ctx)

    def closure(self, st, rest, scope, ind, ctx):
        a = st.args
        if a.vararg or a.kwarg or a.kwonlyargs or a.defaults or a.posonlyargs or st.decorator_list:
            raise Untranslatable("nested def with a non-trivial signature: %s" % st.name)
        free = {n.id for b in st.body for n in ast.walk(b) if isinstance(n, ast.Name)}
        later = set(self.assigned_names(rest))
        if free & later:
            raise Untranslatable("closure %s reads %s, reassigned after its definition" % (st.name, sorted(free & later)))
        sc, names = dict(scope), []
        for x in a.args:
            new = self.fresh(x.arg, sc)
            sc[x.arg] = new
            names.append(new)
        body = self.block(list(st.body), sc, ind + 1, self.top_ctx())
        new = self.fresh(st.name, scope)
        after = dict(scope)
        after[st.name] = new
        self._closures.add(new)
        pad = "  " * ind
        return "%slet %s := fun %s =>\n%s\n%s" % (pad, new, " ".join(names) if names else "(_ : Unit)", body,
                                                   self.block(rest, after, ind, ctx))

    def try_(self, st, rest, scope, ind, ctx):
        if st.finalbody:
            raise Untranslatable("try/finally")
        if self._hasT(st.body, (ast.Break, ast.Continue)) or any(self._hasT(h.body, (ast.Break, ast.Continue)) for h in st.handlers):
            raise Untranslatable("break / continue inside try")

        def classes(h):
            if h.type is None:
                return [None]
            ts = h.type.elts if isinstance(h.type, ast.Tuple) else [h.type]
            out = []
            for t in ts:
                if isinstance(t, ast.Name):
                    out.append(t.id)
                elif isinstance(t, ast.Attribute):
                    out.append(t.attr)
                else:
                    raise Untranslatable("except clause `%s`" % ast.unparse(h.type))
            return out

        def on_raise(e, sc_at, i):
            arms = []
            for h in st.handlers:
                tests = []
                for c in classes(h):
                    if c is None or c in ("Exception", "BaseException"):
                        tests.append("true")
                    elif c in self.r.catch:
                        tests.append(self.r.catch[c].format(e=e))
                    else:
                        raise Untranslatable("no `catch` rule for exception class %r" % c)
                test = "true" if "true" in tests else "(" + " || ".join(tests) + ")"
                sc = dict(sc_at)
                if h.name:
                    sc[h.name] = e
                arms.append((test, h, sc))
                if test == "true":
                    break
            text = None if arms and arms[-1][0] == "true" else self.raise_(e, dict(sc_at), i + len(arms), ctx)
            for depth in range(len(arms) - 1, -1, -1):
                test, h, sc = arms[depth]
                body = self.block(list(h.body) + rest, sc, i + depth + (0 if test == "true" else 1), ctx)
                if test == "true":
                    text = body
                else:
                    p = "  " * (i + depth)
                    text = "%sif %s then\n%s\n%selse\n%s" % (p, test, body, p, text)
            return text

        body_ctx = _CtxT(exit_=ctx.exit, end=lambda s, i: self.block(list(st.orelse) + rest, s, i, ctx),
                         brk=None, on_raise=on_raise, direct=False, in_loop=getattr(ctx, "in_loop", False))
        return self.block(list(st.body), scope, ind, body_ctx)

    def loop(self, st, rest, scope, ind, ctx):
        if st.orelse:
            raise Untranslatable("for/else")
        it = self.pure(st.iter, scope)
        syntactic = self._hasT(st.body, (ast.Return, ast.Raise, ast.Assert))
        for has_exit in ([True] if syntactic else [False, True]):
            try:
                return self._loop(st, it, rest, scope, ind, ctx, has_exit)
            except _NeedExit:
                continue
        raise Untranslatable("loop")

    def _loop(self, st, it, rest, scope, ind, ctx, has_exit):
        pad = "  " * ind
        carried = [n for n in self.assigned_names(st.body) if n in scope]
        has_brk = self._has(st.body, (ast.Break,), False)
        comps = (["\0ret"] if has_exit else []) + (["\0brk"] if has_brk else []) + carried
        if not comps:
            raise Untranslatable("loop without any effect on the variables in scope: `%s`" % ast.unparse(st).splitlines()[0])
        n = len(comps)
        sc0 = dict(scope)
        acc = self.fresh("acc", sc0)
        sc0["\0tmp" + acc] = acc
        item = self.fresh("it", sc0)
        sc0["\0tmp" + item] = item
        lines, sc = [], dict(sc0)
        for c in carried:
            new = self.fresh(c, sc)
            sc[c] = new
            lines.append("let %s := %s" % (new, _proj(acc, comps.index(c), n)))
        tl, sc = self.bind_target(st.target, item, sc)
        lines += tl

        def state(scope_, ret="none", brk="false"):
            parts = []
            if has_exit:
                parts.append(ret)
            if has_brk:
                parts.append(brk)
            parts += [scope_[c] for c in carried]
            return _tuple(parts)

        def exit_(v, s, i):
            if not has_exit:
                raise _NeedExit()
            return "  " * i + state(s, ret="some (%s)" % v.strip())

        inner = _CtxT(exit_=exit_, end=lambda s, i: "  " * i + state(s), brk=lambda s, i: "  " * i + state(s, brk="true"),
                      on_raise=None, direct=False, in_loop=True)
        body = self.block(list(st.body), sc, ind + 2, inner)
        p3 = "  " * (ind + 2)
        guard = []
        if has_exit:
            guard.append("(%s).isSome" % _proj(acc, 0, n))
        if has_brk:
            guard.append(_proj(acc, 1 if has_exit else 0, n))
        text = "".join(p3 + l + "\n" for l in lines) + body
        if guard:
            text = "%sif %s then %s else\n%s" % (p3, " || ".join(guard), acc, text)
        res = self.fresh("r", sc0)
        after = dict(scope)
        after["\0tmp" + res] = res
        out = "%slet %s := MenpoModel.Py.forLoop %s (%s) (fun %s %s =>\n%s)\n" % (pad, res, state(scope), it, acc, item, text)
        for c in carried:
            new = self.fresh(c, after)
            after[c] = new
            out += "%slet %s := %s\n" % (pad, new, _proj(res, comps.index(c), n))
        k = self.block(rest, after, ind + (1 if has_exit else 0), ctx)
        if has_exit:
            v = self.fresh("v", after)
            sc_v = dict(after)
            sc_v["\0tmp" + v] = v
            if getattr(self.r, "fn_style", False):
                return "%s%sMenpoModel.Py.onExit (%s) (fun %s =>\n%s) (\n%s)" % (
                    out, pad, _proj(res, 0, n), v, ctx.exit(v, sc_v, ind + 2), k)
            return "%s%smatch %s with\n%s| some %s =>\n%s\n%s| none =>\n%s" % (
                out, pad, _proj(res, 0, n), pad, v, ctx.exit(v, sc_v, ind + 2), pad, k)
        return out + k

    def top_ctx(self):
        def end(scope, ind):
            if self.r.end is None:
                raise Untranslatable("control reaches the end of the function without return/raise")
            return "  " * ind + self.fmt(self.r.end, scope)
        return _CtxT(exit_=lambda v, s, i: "  " * i + v.strip(), end=end, direct=True)


# Generic extensions that live in a module of their own (so that concurrent edits of this file are not disturbed):
# harness/py2lean2w.py — `Translator2W(Rules2W(...))`: nested defs, `while` loops with fuel (`Py.whileFuel`,
# lean/MenpoModel/Core/C14PyLoop.lean), for/else, statement rules that rebind several receivers / attribute variables,
# guard statements, monadic operands hoisted out of their statement, `x is None`, keyword arguments in any order,
# loop-carried variables in a canonical order.  Self-test: tools/test_py2lean2w.py.


# =====================================================================================================================
# Translator2TN — APPENDED by the C09 builder (robustness round; nothing above is changed).  Translator2T plus a
# NORMALISATION of list comprehensions whose element (or filter) contains a call that may raise: such a comprehension
# cannot be a `List.map` (the first raising element ends it), so it is rewritten, on the AST, into the canonical
# append-loop before translation
#       v = [E(t) for t in IT if C(t)]      ->      v = [] ; for t in IT: (if C(t):) v.append(E(t))
# and a raising comprehension used as an operand of a statement (`return f([E(t) for t in IT])`) is first bound to a
# fresh temporary.  The property's rules must know `$l.append($v)` (a stmt rule), as they do for hand-written loops.
# A refactoring between the two spellings therefore yields the same Lean term.
# =====================================================================================================================

class Translator2TN(Translator2T):
    def __init__(self, rules):
        Translator2T.__init__(self, rules)
        self._lc = 0

    def _may_raise(self, node, scope):
        for sub in ast.walk(node):
            for pat, _tmpl, flag in self.r.expr:
                if flag == "bind" and match(pat, sub, {}):
                    return True
            if (isinstance(sub, ast.Call) and isinstance(sub.func, ast.Name)
                    and scope.get(sub.func.id) in self._closures):
                return True
        return False

    def _raising_comp(self, node, scope):
        return (isinstance(node, ast.ListComp) and len(node.generators) == 1 and not node.generators[0].is_async
                and (self._may_raise(node.elt, scope) or any(self._may_raise(c, scope) for c in node.generators[0].ifs)))

    @staticmethod
    def _as_loop(name, comp):
        g = comp.generators[0]
        app = ast.Expr(value=ast.Call(func=ast.Attribute(value=ast.Name(id=name, ctx=ast.Load()), attr="append", ctx=ast.Load()),
                                      args=[comp.elt], keywords=[]))
        body = [app]
        for c in reversed(g.ifs):
            body = [ast.If(test=c, body=body, orelse=[])]
        return [ast.Assign(targets=[ast.Name(id=name, ctx=ast.Store())], value=ast.List(elts=[], ctx=ast.Load())),
                ast.For(target=g.target, iter=g.iter, body=body, orelse=[])]

    def _block1(self, stmts, scope, ind, ctx):
        if stmts:
            st, rest = stmts[0], stmts[1:]
            # (1) v = [raising comprehension]  ->  append-loop
            if (isinstance(st, ast.Assign) and len(st.targets) == 1 and isinstance(st.targets[0], ast.Name)
                    and self._raising_comp(st.value, scope)):
                return self.block(self._as_loop(st.targets[0].id, st.value) + rest, scope, ind, ctx)
            # (2) a raising comprehension as an operand of the statement's own expression -> bound to a temporary first
            field = {ast.Assign: "value", ast.AugAssign: "value", ast.Return: "value", ast.Expr: "value", ast.If: "test",
                     ast.For: "iter"}.get(type(st))
            top = getattr(st, field, None) if field else None
            if top is not None and not self._raising_comp(top, scope):
                comps = [n for n in ast.walk(top) if self._raising_comp(n, scope)]
                if comps:
                    import copy
                    comp = comps[0]
                    name = "lc_%d" % self._lc
                    self._lc += 1
                    while name in scope:
                        name += "_"

                    # substitute on the original expression tree (node identity), on a shallow copy of the statement
                    st2 = copy.copy(st)
                    setattr(st2, field, self._subst(top, comp, name))
                    return self.block(self._as_loop(name, comp) + [st2] + rest, scope, ind, ctx)
            elif top is not None and isinstance(st, (ast.Return, ast.Expr, ast.If, ast.For, ast.AugAssign)):
                name = "lc_%d" % self._lc
                self._lc += 1
                import copy
                st2 = copy.copy(st)
                setattr(st2, field, ast.Name(id=name, ctx=ast.Load()))
                return self.block(self._as_loop(name, top) + [st2] + rest, scope, ind, ctx)
        return Translator2T._block1(self, stmts, scope, ind, ctx)

    @staticmethod
    def _subst(tree, target, name):
        """a copy of the expression `tree` in which the node `target` (by identity) is the variable `name`"""
        if tree is target:
            return ast.Name(id=name, ctx=ast.Load())
        if not isinstance(tree, ast.AST):
            return tree
        new = type(tree)()
        for f in tree._fields:
            v = getattr(tree, f, None)
            if isinstance(v, list):
                setattr(new, f, [Translator2TN._subst(x, target, name) for x in v])
            else:
                setattr(new, f, Translator2TN._subst(v, target, name))
        return new


# =====================================================================================================================
# Rules2N / Translator2N — APPENDED for C20 (robustness against behaviour-preserving refactorings; nothing above changes).
#   * a call `helper(a, b, k=c)` of a plain Python function DEFINED IN THE SAME MODULE as the function being translated
#     (and not covered by a rule) is translated by INLINING: the helper's body is translated with the same rules and its
#     parameters bound to the translated arguments (positional, keyword, defaults).  A helper without raise / monadic
#     operand is inlined as a pure term, otherwise as a monadic term flagged "bind" (so it is hoisted like any call
#     that may raise; its `ret` / `raise` templates must then elaborate without an expected type: `Except.ok ({e})`
#     rather than `.ok ({e})`).  A helper is just a function to translate;
#   * `return None` is the same as a bare `return` / falling off the end when `Rules2N.none_is_end` is set.
# =====================================================================================================================

class Rules2N(Rules2M):
    def __init__(self, none_is_end=False, **kw):
        Rules2M.__init__(self, **kw)
        self.none_is_end = none_is_end


class Translator2N(Translator2M):
    MAX_INLINE_DEPTH = 4

    def __init__(self, rules, _depth=0):
        Translator2M.__init__(self, rules)
        self._globals = {}
        self._module = None
        self._depth = _depth
        self.inlined = []

    def function(self, fn, arg_names, ind=2, allow_unused=()):
        self._globals = getattr(fn, "__globals__", {}) or {}
        self._module = getattr(fn, "__module__", None)
        return Translator2M.function(self, fn, arg_names, ind=ind, allow_unused=allow_unused)

    def _helper(self, node, scope):
        """the module-level function a call node refers to, or None"""
        import types
        if not (isinstance(node, ast.Call) and isinstance(node.func, ast.Name)):
            return None
        name = node.func.id
        if name in scope or name in self.r.names:
            return None
        f = self._globals.get(name)
        if isinstance(f, types.FunctionType) and f.__module__ == self._module:
            return f
        return None

    def _inline(self, f, node, scope):
        if self._depth >= self.MAX_INLINE_DEPTH:
            raise Untranslatable("helper calls nested too deeply at `%s`" % ast.unparse(node))
        fnode, _src = source_ast(f)
        a = fnode.args
        if a.vararg or a.kwarg or a.kwonlyargs or a.posonlyargs:
            raise Untranslatable("helper `%s` with a non-trivial signature" % f.__name__)
        params = [x.arg for x in a.args]
        if len(node.args) > len(params) or any(isinstance(x, ast.Starred) for x in node.args):
            raise Untranslatable("call `%s` does not fit the helper's signature" % ast.unparse(node))
        bound = {}
        for p, arg in zip(params, node.args):
            bound[p] = self.pure(arg, scope)
        for kw in node.keywords:
            if kw.arg is None or kw.arg not in params or kw.arg in bound:
                raise Untranslatable("call `%s` does not fit the helper's signature" % ast.unparse(node))
            bound[kw.arg] = self.pure(kw.value, scope)
        defaults = dict(zip(params[len(params) - len(a.defaults):], a.defaults))
        for p in params:
            if p not in bound:
                if p not in defaults:
                    raise Untranslatable("call `%s` misses the argument `%s`" % (ast.unparse(node), p))
                bound[p] = self.pure(defaults[p], {})
        has_raise = any(isinstance(n, (ast.Raise, ast.Assert)) for st in fnode.body for n in ast.walk(st))

        def attempt(monadic):
            import copy
            r = copy.copy(self.r)
            if not monadic:
                r.ret = "{e}"
            sub = type(self)(r, _depth=self._depth + 1)
            sub._globals, sub._module = getattr(f, "__globals__", {}) or {}, f.__module__
            text = sub.block(list(fnode.body), dict(bound), 1, sub.top_ctx())
            self.used_rules |= sub.used_rules
            return text, (sub._tmp > 0)
        if not has_raise:
            text, hoisted = attempt(False)
            if not hoisted and "bind fun" not in text:
                self.inlined.append(f.__name__)
                return "(\n%s)" % text, ""
        text, _h = attempt(True)
        self.inlined.append(f.__name__)
        return "(\n%s)" % text, "bind"

    def expr(self, node, scope):
        for i, (pat, tmpl, flag) in enumerate(self.r.expr):
            env = {}
            if match(pat, node, env):
                self.used_rules.add(i)
                return tmpl.format(**{k: self.pure(v, scope) for k, v in env.items()}), flag
        f = self._helper(node, scope)
        if f is not None:
            return self._inline(f, node, scope)
        return Translator2M.expr(self, node, scope)

    def _block1(self, stmts, scope, ind, ctx):
        if stmts and getattr(self.r, "none_is_end", False):
            st = stmts[0]
            if isinstance(st, ast.Return) and isinstance(st.value, ast.Constant) and st.value.value is None:
                if self.r.end is None:
                    raise Untranslatable("return None")
                return ctx.exit(self._fmt(self.r.end, scope), scope, ind)
        return Translator2M._block1(self, stmts, scope, ind, ctx)


# =====================================================================================================================
# Translator2TH — APPENDED by the C09 builder (second robustness round; nothing above is changed).  Translator2TN plus
# the INLINING of small helpers of the same package, so that code moved into a helper translates to the term it had
# before the move (rules always win: a call the vocabulary knows is never inlined):
#   * expression helper   `h(a, b)` where `def h(p, q): return E`        ->  E[p := a, q := b]   (arguments that are not
#     plain names / attribute chains / constants must be used at most once in E, so nothing is evaluated twice);
#   * generator helper    `for T in g(a, b): BODY` where `def g(p, q): for t in IT: S…; yield E`
#                                                                         ->  p' = a; q' = b; for t' in IT': S'…; T = E'; BODY
#     (the helper's locals are renamed apart; one loop, one `yield`, last statement of its body);
#   * slice objects       `v = slice(A, B)` … `x[v]`                      ->  `x[v_lo:v_hi]` with `v_lo = A; v_hi = B`.
# Anything else about helpers (recursion, several returns, defaults, keyword / starred arguments) stays untranslatable.
# =====================================================================================================================

class Translator2TH(Translator2TN):
    def __init__(self, rules):
        Translator2TN.__init__(self, rules)
        self._g = {}
        self._pkg = None
        self._slices = {}
        self._hn = 0

    def function(self, fn, arg_names, ind=2, allow_unused=()):
        f = getattr(fn, "__func__", fn)
        f = getattr(f, "fget", f) or f
        self._g = getattr(f, "__globals__", {}) or {}
        self._pkg = (getattr(f, "__module__", "") or "").split(".")[0]
        self._slices = {}
        return Translator2TN.function(self, fn, arg_names, ind=ind, allow_unused=allow_unused)

    # ------------------------------------------------------------------------------------------ helpers
    def _rule_matches(self, node):
        return any(match(pat, node, {}) for pat, _t, _f in self.r.expr)

    def _helper_def(self, call, scope):
        """the FunctionDef of a same-package module-level helper called with plain positional arguments, else None"""
        import types
        if not (isinstance(call, ast.Call) and isinstance(call.func, ast.Name) and not call.keywords):
            return None
        if call.func.id in scope or any(isinstance(a, ast.Starred) for a in call.args):
            return None
        obj = self._g.get(call.func.id)
        if not isinstance(obj, types.FunctionType) or (obj.__module__ or "").split(".")[0] != self._pkg or not self._pkg:
            return None
        try:
            node, _src = source_ast(obj)
        except Exception:      # noqa: BLE001 - no source: not inlinable
            return None
        a = node.args
        if a.vararg or a.kwarg or a.kwonlyargs or a.defaults or a.posonlyargs or node.decorator_list:
            return None
        if len(a.args) != len(call.args):
            return None
        return node

    @staticmethod
    def _body(node):
        b = list(node.body)
        if b and isinstance(b[0], ast.Expr) and isinstance(b[0].value, ast.Constant) and isinstance(b[0].value.value, str):
            b = b[1:]
        return b

    @staticmethod
    def _simple(e):
        while isinstance(e, ast.Attribute):
            e = e.value
        return isinstance(e, (ast.Name, ast.Constant))

    def _inline_expr(self, call, scope):
        node = self._helper_def(call, scope)
        if node is None:
            return None
        body = self._body(node)
        if len(body) != 1 or not isinstance(body[0], ast.Return) or body[0].value is None:
            return None
        import copy
        params = [x.arg for x in node.args.args]
        uses = {p: 0 for p in params}
        for n in ast.walk(body[0].value):
            if isinstance(n, ast.Name) and n.id in uses:
                uses[n.id] += 1
            if isinstance(n, (ast.Lambda, ast.ListComp, ast.GeneratorExp, ast.SetComp, ast.DictComp, ast.NamedExpr)):
                return None        # binders could capture an argument
        env = dict(zip(params, call.args))
        if any(uses[p] > 1 and not self._simple(env[p]) for p in params):
            return None

        class Sub(ast.NodeTransformer):
            def visit_Name(self, n):
                return copy.deepcopy(env[n.id]) if n.id in env else n
        return Sub().visit(copy.deepcopy(body[0].value))

    def _inline_generator(self, st, scope):
        """`for T in g(args): BODY` with g a one-loop, one-yield generator helper -> the statements replacing it"""
        node = self._helper_def(st.iter, scope)
        if node is None or st.orelse:
            return None
        body = self._body(node)
        if len(body) != 1 or not isinstance(body[0], ast.For) or body[0].orelse:
            return None
        loop = body[0]
        if not loop.body or not (isinstance(loop.body[-1], ast.Expr) and isinstance(loop.body[-1].value, ast.Yield)
                                 and loop.body[-1].value.value is not None):
            return None
        n_yields = sum(isinstance(n, (ast.Yield, ast.YieldFrom)) for n in ast.walk(node))
        if n_yields != 1 or any(isinstance(n, (ast.Return, ast.Break, ast.Continue, ast.Lambda, ast.ListComp, ast.GeneratorExp))
                                for n in ast.walk(loop)):
            return None
        import copy
        self._hn += 1
        suffix = "__h%d" % self._hn
        params = [x.arg for x in node.args.args]
        local = set(params)
        for n in ast.walk(loop):
            if isinstance(n, ast.Name) and isinstance(n.ctx, ast.Store):
                local.add(n.id)

        class Ren(ast.NodeTransformer):
            def visit_Name(self, n):
                return ast.Name(id=n.id + suffix, ctx=n.ctx) if n.id in local else n
        loop2 = Ren().visit(copy.deepcopy(loop))
        pre = [ast.Assign(targets=[ast.Name(id=p + suffix, ctx=ast.Store())], value=a) for p, a in zip(params, st.iter.args)]
        yielded = loop2.body[-1].value.value
        new_loop = ast.For(target=loop2.target, iter=loop2.iter,
                           body=loop2.body[:-1] + [ast.Assign(targets=[st.target], value=yielded)] + list(st.body), orelse=[])
        return pre + [new_loop]

    # ------------------------------------------------------------------------------------------ hooks
    def expr(self, node, scope):
        if isinstance(node, ast.Subscript) and isinstance(node.slice, ast.Name) and node.slice.id in self._slices \
                and not self._rule_matches(node):
            lo, hi = self._slices[node.slice.id]
            node = ast.Subscript(value=node.value, ctx=node.ctx,
                                 slice=ast.Slice(lower=ast.Name(id=lo, ctx=ast.Load()), upper=ast.Name(id=hi, ctx=ast.Load()), step=None))
            return self.expr(node, scope)
        if isinstance(node, ast.Call) and isinstance(node.func, ast.Name) and not self._rule_matches(node) \
                and scope.get(node.func.id) not in self._closures:
            inl = self._inline_expr(node, scope)
            if inl is not None:
                return self.expr(inl, scope)
        return Translator2TN.expr(self, node, scope)

    def _may_raise(self, node, scope):
        if Translator2TN._may_raise(self, node, scope):
            return True
        for sub in ast.walk(node):
            if isinstance(sub, ast.Call) and isinstance(sub.func, ast.Name) and not self._rule_matches(sub):
                inl = self._inline_expr(sub, scope)
                if inl is not None and Translator2TN._may_raise(self, inl, scope):
                    return True
        return False

    def _block1(self, stmts, scope, ind, ctx):
        if stmts:
            st, rest = stmts[0], stmts[1:]
            if isinstance(st, ast.For) and isinstance(st.iter, ast.Call) and not self._rule_matches(st.iter):
                new = self._inline_generator(st, scope)
                if new is not None:
                    return self.block(new + rest, scope, ind, ctx)
            if (isinstance(st, ast.Assign) and len(st.targets) == 1 and isinstance(st.targets[0], ast.Name)
                    and isinstance(st.value, ast.Call) and isinstance(st.value.func, ast.Name) and st.value.func.id == "slice"
                    and "slice" not in scope and not st.value.keywords and len(st.value.args) in (2, 3)
                    and (len(st.value.args) == 2 or (isinstance(st.value.args[2], ast.Constant) and st.value.args[2].value is None))
                    and not self._rule_matches(st.value)):
                v = st.targets[0].id
                lo, hi = v + "__lo", v + "__hi"
                self._slices[v] = (lo, hi)
                new = [ast.Assign(targets=[ast.Name(id=lo, ctx=ast.Store())], value=st.value.args[0]),
                       ast.Assign(targets=[ast.Name(id=hi, ctx=ast.Store())], value=st.value.args[1])]
                return self.block(new + rest, scope, ind, ctx)
            if isinstance(st, ast.Assign) and len(st.targets) == 1 and isinstance(st.targets[0], ast.Name):
                self._slices.pop(st.targets[0].id, None)       # rebound to something else: no longer a known slice
        return Translator2TN._block1(self, stmts, scope, ind, ctx)
